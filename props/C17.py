"""C17 - outcome distributions stay normalised; marginals and distances obey their laws.

Deductive part (Engine F): frame contracts - `subdistribution` leaves the source intact, the constructor does not
modify its input dictionary, the three distance functions modify neither distribution nor the parameter dictionary.
Bounded part (exhaustive over the stated finite domains, exact rational weights so that "sum" and "proportion" are
exact): constructor acceptance / rejection / proportions, marginals for every list of distinct qubits in any order
over multi-digit outcomes, distance laws (symmetry, zero on self, non-negativity, NLL >= entropy) and save/load.
Non-negativity of the squared MMD (positive semidefiniteness of the Gaussian kernel) and Gibbs' inequality are
analytic facts outside contract+SMT reach: bounded numeric checks only (stated in DESIGN.md section 5).
"""
from __future__ import annotations

import itertools
from fractions import Fraction

from vfw import core, frame, vprop
from vfw.core import Ob

LEVEL = "other"
D = "orquestra.quantum.distributions._measurement_outcome_distribution"
MANIFEST = {
    "engine": "engine-F",
    "category": "other",
    "technique": "contract-based deductive verification: the constructor chain under contract for ALL tuple-keyed dictionaries (Engine V, z3: the three validators return exactly the quantified statement; is_measurement_outcome_distribution accepts exactly non-empty / non-negative / fixed-length inputs; normalize_measurement_outcome_distribution gives every member old value x 1/total by a loop invariant over the iteration order and raises on a zero / denormal total; __init__ verified against its callees' contracts: rejects exactly the invalid inputs, keeps or scales the content, probabilities non-negative); compute_jensen_shannon_divergence = half the clipped NLL in each direction (symmetric); the marginal postcondition of subdistribution (a projected outcome is present iff some source outcome projects to it and carries the sum of exactly those probabilities; out-of-range / duplicate qubits raise) proved by a loop invariant over a symbolic dictionary (Engine V, z3) for all distributions and all qubit lists; frame conditions (source distribution / input dictionary / parameter dictionary unmodified) by static ownership analysis; normalisation by the constructor and the distance laws by exhaustive enumeration with exact rational weights over stated small domains (bounded)",
    "text": "The constructor clause (tuple keys), the marginal clause, the symmetry of the symmetrised divergence and the frame clauses are proved for all inputs (floats as reals; 'sums to 1' = the proved scaling + linearity of the sum, Lean twin sum_scaled_eq_one); string keys, the MMD laws and save / load are decided exhaustively for all key sets up to 4 keys over 3 subsystems with multi-digit outcomes and every ordered list of distinct qubits - bounded, so the level claimed is 'other' (frame proof + exhaustive bounded enumeration), not proof. Kernel positive-semidefiniteness and Gibbs' inequality are not decidable here.",
    "note": "Trusted: Engine F summaries; Python dict semantics executed natively. Bounds stated per obligation in the evidence.",
}
TRUSTED = ["vfw/frame.py ownership analysis", "Engine V dictionary model (membership / value arrays + iteration order listing exactly the members); math.isclose as an uninterpreted predicate; "
           "lemma: a sum of non-negative reals is non-negative (lean/Prelude.lean sum_nonneg_of_nonneg); floats as reals", "CPython executing the real functions on enumerated inputs"]
ASSUMPTIONS = ["bounded: 4 subsystems, <= 3 keys (plus the uniform 16-key distribution), outcomes from {0,1,2,12}; weights are exact Fractions or floats as listed",
               "MMD non-negativity and clipped-NLL >= entropy are checked numerically on enumerated pairs only (analytic facts)"]
EXTRA = {"explanation": "frame obligations are decided statically on the current AST; value-level contracts are enumerated exhaustively over the stated finite domains"}

F_OPS = [D + ":MeasurementOutcomeDistribution.subdistribution", D + ":MeasurementOutcomeDistribution.__init__", D + ":preprocess_distibution_dict",
         D + ":is_normalized", D + ":is_measurement_outcome_distribution", D + ":evaluate_distribution_distance",
         "orquestra.quantum.distributions.mmd:compute_mmd", "orquestra.quantum.distributions.clipped_negative_log_likelihood:compute_clipped_negative_log_likelihood",
         "orquestra.quantum.distributions.jensen_shannon_divergence:compute_jensen_shannon_divergence"]


def _key_sets():
    keys = [(0, 0, 1, 12), (0, 1, 0, 1), (1, 12, 0, 0), (12, 1, 1, 0), (0, 1, 12, 2), (1, 0, 1, 1), (2, 2, 12, 0), (0, 0, 0, 0)]
    weights = [Fraction(1, 2), Fraction(1, 3), Fraction(1, 6), Fraction(2), Fraction(0)]
    for n in (1, 2, 3):
        for ks in itertools.combinations(keys, n):
            yield {k: weights[(i + len(ks)) % len(weights)] + Fraction(i, 7) for i, k in enumerate(ks)}
    yield {k: Fraction(1, 16) for k in itertools.product((0, 1), repeat=4)}


def _check_marginal(dist):
    from orquestra.quantum.distributions import MeasurementOutcomeDistribution
    if sum(dist.values()) == 0:
        return None, "all-zero"
    for normalize in (True, False):
        d = MeasurementOutcomeDistribution(dict(dist), normalize=normalize)
        before = dict(d.distribution_dict)
        order_before = list(d.distribution_dict)
        for r in (1, 2, 3, 4):
            for qs in itertools.permutations(range(4), r):
                sub = d.subdistribution(list(qs))
                if d.distribution_dict != before or list(d.distribution_dict) != order_before:
                    return False, f"subdistribution({list(qs)}) modified the source distribution"
                want = {}
                for k, p in before.items():
                    nk = tuple(k[i] for i in qs)
                    want[nk] = want.get(nk, 0) + p
                tot = sum(want.values())
                got = sub.distribution_dict
                if set(got) != set(want):
                    return False, f"subdistribution({list(qs)}) of {dist}: keys {sorted(got)} expected {sorted(want)}"
                for k in want:
                    if abs(float(got[k]) - float(want[k] / (1 if not normalize else 1))) > 1e-12 * max(1, abs(float(want[k]))):
                        return False, f"subdistribution({list(qs)}) of {dist}: weight of {k} is {got[k]} expected {want[k]}"
        for bad in ([4], [0, 0], [1, 2, 1], [0, 5]):
            try:
                d.subdistribution(bad)
                return False, f"subdistribution({bad}) accepted"
            except ValueError:
                pass
    return True, "ok"


def _check_ctor(case):
    import warnings
    from orquestra.quantum.distributions import MeasurementOutcomeDistribution
    kind, inp = case
    src = dict(inp)
    with warnings.catch_warnings():
        warnings.simplefilter("ignore")
        if kind == "reject":
            for norm in (True, False):
                try:
                    MeasurementOutcomeDistribution(inp, normalize=norm)
                    return False, f"invalid input {inp} accepted"
                except (RuntimeError, ValueError, ZeroDivisionError):
                    pass
            return inp == src, "input modified"
        d = MeasurementOutcomeDistribution(inp)
        if inp != src or list(inp) != list(src):
            return False, f"the input dictionary was modified: {src} -> {inp}"
        vals = d.distribution_dict
        tot = sum(src.values())
        if abs(sum(vals.values()) - 1) > 1e-12 or any(v < 0 for v in vals.values()):
            return False, f"not normalised / negative: {vals}"
        for k, v in src.items():
            tk = k if isinstance(k, tuple) else tuple(int(x) for x in (k.split(",") if "," in k else k))
            if abs(float(vals[tk]) - float(v) / float(tot)) > 1e-12:
                return False, f"proportions changed: {k}: {vals[tk]} expected {float(v) / float(tot)}"
        if not all(isinstance(k, tuple) for k in vals):
            return False, "keys are not tuples"
        d2 = MeasurementOutcomeDistribution(dict(src), normalize=False)
        if any(abs(float(d2.distribution_dict[k if isinstance(k, tuple) else tuple(int(x) for x in (k.split(',') if ',' in k else k))]) - float(v)) > 0 for k, v in src.items()):
            return False, "normalize=False changed the values"
    return True, "ok"


def _ctor_cases():
    yield ("ok", {(0, 1): 2.0, (1, 1): 6.0})
    yield ("ok", {"01": 0.25, "11": 0.75})
    yield ("ok", {"0,12,3": 1.0, "1,0,0": 3.0, "2,2,2": 0.0})
    yield ("ok", {(5,): 1e-9, (7,): 1.0})
    yield ("ok", {(0, 0, 0): Fraction(1, 3), (1, 0, 12): Fraction(2, 3), (1, 1, 1): Fraction(5, 3)})
    yield ("ok", {"000": 1.0})
    for bad in ({}, {(0, 1): -0.5, (1, 1): 1.5}, {(0, 1): 0.5, (1,): 0.5}, {"01": 0.5, "1": 0.5}, {(0, -1): 1.0}, {(0, 1.5): 1.0}, {5: 1.0}):
        yield ("reject", bad)


def _pairs():
    from orquestra.quantum.distributions import MeasurementOutcomeDistribution as MOD
    ds = [{"00": 0.5, "11": 0.5}, {"00": 1.0}, {"01": 0.3, "10": 0.7}, {"00": 0.25, "01": 0.25, "10": 0.25, "11": 0.25}, {"11": 0.9, "00": 0.1},
          {"000": 0.2, "101": 0.8}, {"111": 0.6, "000": 0.15, "010": 0.25}, {"101": 1.0}]
    for a, b in itertools.product(ds, repeat=2):
        if len(next(iter(a))) == len(next(iter(b))):
            yield (a, b)


def _check_distances(pair):
    import math
    import warnings
    from orquestra.quantum.distributions import MeasurementOutcomeDistribution as MOD, compute_mmd, compute_clipped_negative_log_likelihood as nll, \
        compute_jensen_shannon_divergence as jsd
    a, b = pair
    A, B = MOD(dict(a)), MOD(dict(b))
    for sigma in (0.3, 1.0, 4.0, [0.5, 2.0, 8.0]):
        p = {"sigma": sigma}
        p0 = dict(p)
        m_ab, m_ba = compute_mmd(A, B, p), compute_mmd(B, A, p)
        if p != p0:
            return False, "compute_mmd modified its parameters"
        if abs(m_ab - m_ba) > 1e-12:
            return False, f"MMD not symmetric: {m_ab} vs {m_ba} (sigma={sigma})"
        if m_ab < -1e-12:
            return False, f"squared MMD negative: {m_ab}"
        if abs(compute_mmd(A, A, p)) > 1e-15:
            return False, "MMD of a distribution with itself is not zero"
        if a != b and m_ab <= 1e-15:
            return False, "MMD between different distributions is zero"
    for eps in (1e-9, 1e-6, 1e-3):
        p = {"epsilon": eps}
        p0 = dict(p)
        ent = -sum(v * math.log(v) for v in a.values() if v > 0)
        v1 = nll(A, B, p)
        if p != p0:
            return False, "clipped NLL modified its parameters (a second evaluation would use another epsilon)"
        if v1 < ent - 1e-9 - 8 * eps:
            return False, f"clipped NLL {v1} below the target's entropy {ent}"
        want = -sum(tv * math.log(max(eps, b.get(k, 0))) for k, tv in a.items())
        if abs(v1 - want) > 1e-9:
            return False, f"clipped NLL {v1} != -sum t log max(eps, m) = {want}"
        j1, j2 = jsd(A, B, p), jsd(B, A, p)
        if p != p0:
            return False, "JSD modified its parameters"
        if abs(j1 - j2) > 1e-9:
            return False, f"symmetrised divergence not symmetric: {j1} vs {j2} (epsilon={eps})"
        if abs(jsd(A, B, {"epsilon": eps}) - j1) > 1e-12:
            return False, "JSD is not repeatable"
    if A.distribution_dict != MOD(dict(a)).distribution_dict:
        return False, "a distance function modified a distribution"
    return True, "ok"


def _check_wide_distances(n):
    """registers of n qubits with a handful of outcomes far apart and close together: the squared MMD is finite, symmetric, non-negative, zero on identical
    arguments and (n <= 53, where outcome codes are exact in double precision) equal to the definition evaluated with exact integer arithmetic"""
    import math
    import warnings
    from orquestra.quantum.distributions import MeasurementOutcomeDistribution as MOD, compute_mmd, compute_clipped_negative_log_likelihood as nll, \
        compute_jensen_shannon_divergence as jsd
    one_hot = lambda q: tuple(1 if i == q else 0 for i in range(n))
    A = {one_hot(0): 0.5, (0,) * n: 0.3, one_hot(n - 1): 0.2}
    B = {one_hot(n - 1): 0.25, (1,) * n: 0.5, one_hot(n // 2): 0.25}
    C = {(1,) * n: 0.5, (1,) * (n - 1) + (0,): 0.5}
    code = lambda k: int("".join(map(str, k)), 2)
    with warnings.catch_warnings():
        warnings.simplefilter("error")     # overflow / invalid-value warnings of numpy are failures here
        for P, Q in ((A, B), (B, C), (A, C)):
            dp, dq = MOD(dict(P)), MOD(dict(Q))
            P, Q = dict(dp.distribution_dict), dict(dq.distribution_dict)      # as normalised by the constructor
            for sigma in (1.0, 2.0 ** n, [0.5, 4.0 ** n]):
                v, w = float(compute_mmd(dp, dq, {"sigma": sigma})), float(compute_mmd(dq, dp, {"sigma": sigma}))
                if not (math.isfinite(v) and v >= -1e-12 and abs(v - w) <= 1e-12 * max(1.0, abs(v))):
                    return False, f"{n} qubits, sigma={sigma}: squared MMD {v} / reversed {w} is not a finite, symmetric, non-negative number"
                if abs(float(compute_mmd(dp, dp, {"sigma": sigma}))) > 1e-15:
                    return False, f"{n} qubits: MMD of a distribution with itself is not zero"
                if n <= 53:
                    keys = sorted(set(P) | set(Q))
                    d = [P.get(k, 0) - Q.get(k, 0) for k in keys]
                    sig = sigma if isinstance(sigma, list) else [sigma]
                    want = sum(d[i] * d[j] * sum(math.exp(-((code(keys[i]) - code(keys[j])) ** 2) / (2 * s)) for s in sig) / len(sig)
                               for i in range(len(keys)) for j in range(len(keys)))
                    if abs(v - want) > 1e-9:
                        return False, f"{n} qubits, sigma={sigma}: squared MMD {v}, definition (exact integer codes) gives {want}"
            for eps in (1e-9, 1e-3):
                x = float(nll(dp, dq, {"epsilon": eps}))
                want = -sum(tv * math.log(max(eps, Q.get(k, 0))) for k, tv in P.items())
                if abs(x - want) > 1e-9 or abs(float(jsd(dp, dq, {"epsilon": eps})) - float(jsd(dq, dp, {"epsilon": eps}))) > 1e-9:
                    return False, f"{n} qubits: clipped NLL / symmetrised divergence wrong on a wide register"
    return True, "ok"


def _check_saveload(i):
    import os
    import tempfile
    from orquestra.quantum.distributions import MeasurementOutcomeDistribution as MOD, save_measurement_outcome_distribution, load_measurement_outcome_distribution, \
        save_measurement_outcome_distributions, load_measurement_outcome_distributions
    ds = [MOD({"00": 0.5, "11": 0.5}), MOD({(0, 12, 3): 0.25, (1, 0, 0): 0.75}), MOD({(7,): 1.0}), MOD({"010": 1 / 3, "111": 2 / 3})]
    tmp = tempfile.mkdtemp()
    try:
        for k, d in enumerate(ds):
            p = os.path.join(tmp, f"d{k}.json")
            save_measurement_outcome_distribution(d, p)
            l = load_measurement_outcome_distribution(p)
            if set(l.distribution_dict) != set(d.distribution_dict) or any(abs(l.distribution_dict[x] - d.distribution_dict[x]) > 1e-15 for x in d.distribution_dict):
                return False, f"save/load changed {d.distribution_dict} into {l.distribution_dict}"
        p = os.path.join(tmp, "all.json")
        save_measurement_outcome_distributions(ds, p)
        ls = load_measurement_outcome_distributions(p)
        if [x.distribution_dict for x in ls] != [x.distribution_dict for x in ds]:
            return False, "save/load of a list changed it"
    finally:
        import shutil
        shutil.rmtree(tmp, ignore_errors=True)
    return True, "ok"


def _marginal_ob(fb):
    """`subdistribution` is the marginal for ALL distributions and ALL lists of distinct in-range qubits (Engine V, symbolic dictionaries):
    a projected key is present iff some source outcome projects to it, and carries the sum of the probabilities of exactly those outcomes."""
    import z3
    from vfw import sym, vcontract as vc, vrt, vtypes
    from vfw.sym import Obj, SObj, SSeq, SInt
    KEYAT = z3.Function("outcome_at", Obj, z3.IntSort(), z3.IntSort())
    KEYLEN = z3.Function("outcome_len", Obj, z3.IntSort())
    MSUM = z3.Function("marginal_sum", Obj, z3.IntSort(), z3.RealSort())   # (projected key, number of source outcomes consumed)
    ISNORM = z3.Function("is_normalized", z3.ArraySort(Obj, z3.RealSort()), z3.BoolSort())
    sym.OBJ_SCHEMAS["Key"] = {"__getitem__": lambda self: (lambda i: sym.wrap_expr(KEYAT(self.e, sym.lift(i)))),
                              "__len__": lambda self: sym.wrap_expr(KEYLEN(self.e))}
    state = {}

    PROJ = z3.Function("projected_outcome", Obj, Obj)     # defined (axiom below) as the key the code builds: tuple(key[i] for i in active_qubits)
    CNT = z3.Function("marginal_count", Obj, z3.IntSort(), z3.IntSort())

    def proj_term(key, active):
        a = SSeq.of(active)
        return vrt.box_key(SSeq(("fun", a.length(), lambda t: key[a.get(t)]), "tuple"))

    def define_proj():
        c = sym.cur()
        if "proj" in c.axioms_done:
            return
        c.axioms_done.add("proj")
        x = z3.Const("x!proj", Obj)
        c.nofork += 1
        try:
            t = proj_term(SObj("Key", x), state["active"])
        finally:
            c.nofork -= 1
        c.axioms.append(z3.ForAll([x], PROJ(x) == t, patterns=[PROJ(x)]))
        nk = z3.Const("nk!ax0", Obj)
        kk = z3.Int("k!ax0")
        c.axioms.append(z3.ForAll([nk], z3.And(MSUM(nk, 0) == 0, CNT(nk, 0) == 0), patterns=[MSUM(nk, 0)]))
        c.axioms.append(z3.ForAll([nk, kk], CNT(nk, kk) >= 0, patterns=[CNT(nk, kk)]))     # a count is never negative (induction on k; trusted)

    def unfold(E):
        """for all nk and the index E: marginal_sum(nk,E) = marginal_sum(nk,E-1) + [PROJ(key_(E-1)) = nk] p_(E-1); same for the count"""
        c = sym.cur()
        define_proj()
        src = state["src"]
        nk = z3.Const("nk!ax", Obj)
        e = sym.lift(E)
        kj = z3.Select(src.keyseq.node[2], e - 1)
        hit = PROJ(kj) == nk
        c.axioms.append(z3.ForAll([nk], z3.Implies(e >= 1, z3.And(MSUM(nk, e) == MSUM(nk, e - 1) + z3.If(hit, z3.Select(src.val, kj), z3.RealVal(0)),
                                                                    CNT(nk, e) == CNT(nk, e - 1) + z3.If(hit, 1, 0))), patterns=[MSUM(nk, e), CNT(nk, e)]))

    def is_marginal(d, k):
        """for every key nk: d has nk iff at least one of the first k source outcomes projects to it (count > 0); the running sum of the
        probabilities of the outcomes projecting to nk equals d[nk] where nk is present and is 0 where it is absent"""
        c = sym.cur()
        unfold(k)
        nk = z3.Const(f"nk!{c.n}", Obj)
        c.n += 1
        if isinstance(d, dict):
            if d:
                raise sym.Unsupported("non-empty concrete dictionary")
            has, val = z3.BoolVal(False), z3.RealVal(0)
        else:
            has, val = z3.Select(d.has, nk), z3.Select(d.val, nk)
        kk = sym.lift(k)
        return sym.wrap_expr(z3.ForAll([nk], z3.And(has == (CNT(nk, kk) > 0), MSUM(nk, kk) == z3.If(has, val, z3.RealVal(0))), patterns=[MSUM(nk, kk), CNT(nk, kk)]))

    class Dist:
        """stands for MeasurementOutcomeDistribution(new_counts, normalize=...): holds the dictionary it was given"""

        def __init__(self, d, normalize=True):
            self.distribution_dict, self.normalize = d, normalize

    def is_normalized_stub(d):
        return sym.wrap_expr(ISNORM(d.val))

    def setup(args, ns):
        Cls = ns["_orig_MeasurementOutcomeDistribution"] if "_orig_MeasurementOutcomeDistribution" in ns else ns["MeasurementOutcomeDistribution"]
        self_ = Cls.__new__(Cls)
        self_.distribution_dict = vtypes.mk("Dict[Key,Real]", "distribution")
        args["self"] = self_
        state["src"], state["active"] = self_.distribution_dict, args["active_qubits"]
        src = self_.distribution_dict
        # class invariant of a constructed distribution: non-empty, all outcomes of one length
        c = sym.cur()
        n = sym.lift(src.keyseq.length())
        c.assume(n >= 1)
        i = z3.Int("i!kl")
        c.assume(z3.ForAll([i], z3.Implies(z3.And(0 <= i, i < n), KEYLEN(z3.Select(src.keyseq.node[2], i)) == KEYLEN(z3.Select(src.keyseq.node[2], 0))),
                           patterns=[z3.Select(src.keyseq.node[2], i)]))
        c.inputs["n_outcomes"] = src.keyseq.length()

    c = vc.Contract(
        key=D + ":MeasurementOutcomeDistribution.subdistribution", params={"self": "Any", "active_qubits": "Seq[Int]"},
        requires="len(active_qubits) >= 1 and all(a >= 0 for a in active_qubits)",
        ghost={"src": "self.distribution_dict", "klen": "KLEN(self.distribution_dict)"},
        raises={"ValueError": "any(a >= klen for a in active_qubits) or not all(implies(i < j, active_qubits[i] != active_qubits[j]) for i in range(len(active_qubits)) for j in range(len(active_qubits)))"},
        ensures="IS_MARGINAL(result.distribution_dict, len(src.keys())) and result.normalize == ISNORM(src) and self.distribution_dict is src",
        loops={"for#0": {"invariant": "IS_MARGINAL(new_counts, k)", "types": {"new_counts": "NewDict[Key,Real]"}}},
        spec={"IS_MARGINAL": is_marginal, "KLEN": lambda d: sym.wrap_expr(KEYLEN(sym.lift(d.keyseq.get(0)))), "ISNORM": is_normalized_stub},
        doc="marginal: a projected outcome (qubits in the listed order) is present iff some source outcome projects to it and carries the sum of exactly those probabilities; "
            "out-of-range or duplicated qubits raise ValueError; the source dictionary object is untouched")

    def call(ns, a):
        return a["self"].subdistribution(a["active_qubits"])
    return vprop.fn_ob("C17", c, {}, call=call, setup=setup, extra_stubs=lambda: {"MeasurementOutcomeDistribution": Dist, "is_normalized": is_normalized_stub},
                       fallback=fb, obid="C17.subdistribution.marginal.contract", timeout_ms=60000,
                       desc="subdistribution is the marginal for ALL distributions and ALL lists of distinct in-range qubits in any order (loop invariant over a symbolic dictionary); "
                            "out-of-range / duplicate qubits raise ValueError")


def build(tier, seed):
    obs = []
    fb = vprop.enum_ob("x", [], lambda: list(_key_sets())[:40], _check_marginal, "").run
    obs.append(_marginal_ob(fb))
    from props import C17ctor
    fb_dist = vprop.enum_ob("x", [], lambda: list(_pairs())[:30], _check_distances, "").run
    obs.extend(C17ctor.build(None, fb_dist))
    from vfw import lean
    obs.append(lean.prelude_ob('C17', 'a sum of non-negative reals is non-negative; values scaled by 1 / total sum to 1; symmetry of the RBF kernel'))

    def frame_ob(key):
        def run():
            ignore = ("self",) if key.endswith(".__init__") else ()
            st, finds, summ = frame.frame_outcome(key, ignore_params=ignore)
            txt = "; ".join(f"{f.kind} at {f.where}: {f.what} [{f.target}]" for f in finds[:4])
            if st == "discharged":
                return core.discharged("engine-F")
            if st == "refuted":
                rep = None
                try:
                    o = fb()
                    rep = o.replay if o.status == "bounded-fail" else None
                except Exception:
                    pass
                return core.refuted("engine-F", f"{key.split(':')[1]} writes through an argument: {txt}", cex=[f.__dict__ for f in finds[:5]], replay=rep)
            return core.undecided("engine-F", txt)
        return Ob(f"C17.frame[{key.split(':')[1]}]", "proof", [key], run, f"{key.split(':')[1]} leaves its arguments (source distribution / input dict / parameters) unmodified", fallback=fb)
    for k in F_OPS:
        obs.append(frame_ob(k))
    obs.append(vprop.enum_ob("C17.marginal.enum", [D + ":MeasurementOutcomeDistribution.subdistribution"], lambda: _key_sets(), _check_marginal,
                             "bounded-exhaustive: for every key set (<= 3 keys over 4 subsystems, outcomes 0/1/12/2, exact rational weights, normalised and not) and EVERY ordered list of "
                             "distinct qubits: projected outcome carries the sum of projecting outcomes in the listed order; source intact; out-of-range / duplicates raise", timeout=900))
    obs.append(vprop.enum_ob("C17.ctor.enum", [D + ":MeasurementOutcomeDistribution.__init__", D + ":preprocess_distibution_dict", D + ":normalize_measurement_outcome_distribution"],
                             _ctor_cases, _check_ctor, "bounded: normalised proportions, tuple keys from plain / comma strings, rejection of empty / negative / unequal-length / non-integer keys / all-zero, input dict untouched"))
    obs.append(vprop.enum_ob("C17.distances.enum", F_OPS[6:], _pairs, _check_distances,
                             "bounded: MMD symmetric, non-negative, zero exactly on identical arguments (several kernel widths incl. lists); clipped NLL = -sum t log max(eps,m) >= entropy; "
                             "JSD symmetric for several epsilons; parameters and distributions unmodified", exhaustive=False))
    obs.append(vprop.enum_ob("C17.distances.wide.enum", F_OPS[6:], lambda: [2, 12, 16, 20, 31, 32, 33, 40, 53, 63, 64, 65, 100], _check_wide_distances,
                             "bounded: distance laws on registers of 2..100 qubits (sparse distributions with far-apart and adjacent outcomes, kernel widths from 1 to 4^n): finite, symmetric, "
                             "non-negative, zero on self; value = definition with exact integer outcome codes for n <= 53", exhaustive=False))
    obs.append(vprop.enum_ob("C17.saveload.enum", [D + ":save_measurement_outcome_distribution", D + ":load_measurement_outcome_distribution"], lambda: [0], _check_saveload,
                             "bounded: save then load returns the same keys (multi-digit outcomes) and probabilities"))
    return obs
