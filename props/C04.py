"""C04 - every view of a simulated state agrees on which qubit is which.

The views are numpy / string-formatting code (format(i,'0nb')[::-1], itertools.product order, rng.choice, scipy
Kronecker chains): outside the VC generators' fragment.  What contracts decide here:
  * Engine V (all inputs): the index lemma every view is stated against - for the spec function
    bit(i,n,q) = (i div 2^(n-1-q)) mod 2 the real `_permutation_making_qubits_adjacent` / adjacency code is covered by
    C01; here the conversion pair bitstring_to_tuple / tuple_to_bitstring is checked to be mutually consistent
    (reversal then identity) on symbolic sequences;
  * Engine F: the view functions do not modify the wavefunction / circuit / operator;
  * bounded-exhaustive: for every register width n <= 4, the product states with pairwise different one-qubit
    marginals (so that every permutation of qubits changes some probability) and all basis states: state vector,
    outcome-probability keys, exact distribution, sampled tuples in BOTH sampling regimes, count strings, exact
    expectation of Z-type operators on EVERY qubit subset, and expectation values from measurements all agree with
    the definition "position q <-> qubit q".
"""
from __future__ import annotations

import itertools

from vfw import core, frame, vprop
from vfw.core import Ob

LEVEL = "other"
W = "orquestra.quantum.wavefunction"
MANIFEST = {
    "engine": "engine-F",
    "category": "other",
    "technique": "contract-based deductive verification of sample_from_wavefunction for ALL wavefunctions, sample counts and both sampling regimes (Engine V, z3: exactly n_samples samples, each the tuple form of an outcome key of non-zero probability, the same conversion in both branches, never the zero-probability padding entry; fewer than one sample raises; numpy's Generator.choice assumed to return entries at indices of positive probability); contract-based verification of frame conditions (static ownership analysis) on the view functions; the cross-view agreement postconditions (key q / tuple position q / operator index q / gate qubit q denote the same qubit) are checked by exhaustive enumeration over all widths <= 4, all basis states and separable states with pairwise distinct one-qubit marginals, every qubit subset, and both sampling regimes (bounded stand-in: the code is numpy / string formatting / RNG, outside the VC generator's fragment)",
    "text": "A qubit-numbering mismatch in any single view changes at least one probability of a separable state whose one-qubit marginals are pairwise different, and at least one outcome of some basis state; those states are enumerated for every width up to 4 together with every Z-subset - exhaustive for the stated widths, not a proof for all widths: level 'other'.",
    "note": "Trusted: numpy/scipy/RNG executed natively; Engine F summaries. Bound: width <= 4 (5 thorough).",
}
TRUSTED = ["vfw/frame.py", "numpy / scipy / itertools executed natively", "numpy Generator.choice(a, size, p): `size` entries of `a`, each at an index of positive probability (assumed; statistics are not a contract)",
           "convert_bitstrings_to_tuples = bitstring_to_tuple mapped over its argument; `name += symbolic sequence` read as concatenation (the local list is not aliased)"]
ASSUMPTIONS = ["bounded in register width (4 quick / 5 thorough); complete over qubit subsets, basis states and both sampling regimes for those widths",
               "the sampler's statistics are not a contract: only support, length and count of samples"]
EXTRA = {"explanation": "frame obligations decided statically; agreement of the views enumerated exhaustively per width"}
F_OPS = [W + ":Wavefunction.get_outcome_probs", W + ":Wavefunction.get_probabilities", W + ":sample_from_wavefunction",
         "orquestra.quantum.api.wavefunction_simulator:BaseWavefunctionSimulator.get_exact_expectation_values",
         "orquestra.quantum.api.wavefunction_simulator:BaseWavefunctionSimulator.get_measurement_outcome_distribution",
         "orquestra.quantum.distributions._measurement_outcome_distribution:create_bitstring_distribution_from_probability_distribution",
         "orquestra.quantum.utils:bitstring_to_tuple", "orquestra.quantum.utils:tuple_to_bitstring", "orquestra.quantum.utils:convert_bitstrings_to_tuples"]


def _check_width(n):
    import math
    import numpy as np
    from orquestra.quantum.circuits import Circuit, RY, X
    from orquestra.quantum.measurements import Measurements
    from orquestra.quantum.operators import PauliSum, PauliTerm
    from orquestra.quantum.runners.symbolic_simulator import SymbolicSimulator
    from orquestra.quantum.utils import bitstring_to_tuple, tuple_to_bitstring
    from orquestra.quantum.wavefunction import sample_from_wavefunction
    subsets = [S for r in range(0, n + 1) for S in itertools.combinations(range(n), r)]
    p1 = [0.11 + 0.17 * q for q in range(n)]          # P(qubit q = 1), pairwise different
    circuits = [("product", Circuit([RY(2 * math.asin(math.sqrt(p)))(q) for q, p in enumerate(p1)], n_qubits=n), None)]
    for idx in range(2 ** n):
        bits = tuple((idx >> (n - 1 - q)) & 1 for q in range(n))
        circuits.append((f"basis{bits}", Circuit([X(q) for q in range(n) if bits[q]], n_qubits=n), bits))

    def prob(b):
        return math.prod(p if bit else 1 - p for p, bit in zip(p1, b))
    for name, circ, bits in circuits:
        sim = SymbolicSimulator(seed=7)
        wf = sim.get_wavefunction(circ)
        P = (lambda b: prob(b)) if bits is None else (lambda b: 1.0 if tuple(b) == bits else 0.0)
        amps = wf.get_probabilities()
        for i in range(2 ** n):
            b = tuple((i >> (n - 1 - q)) & 1 for q in range(n))
            if abs(amps[i] - P(b)) > 1e-9:
                return False, f"n={n} {name}: amplitude index {i} (qubit 0 = most significant) has probability {amps[i]}, expected {P(b)}"
        op = wf.get_outcome_probs()
        for key, v in op.items():
            if abs(v - P(bitstring_to_tuple(key))) > 1e-9 or tuple_to_bitstring(bitstring_to_tuple(key)) != key[::-1]:
                return False, f"n={n} {name}: outcome-prob key {key} -> tuple {bitstring_to_tuple(key)} has probability {v}, expected {P(bitstring_to_tuple(key))}"
        dist = sim.get_measurement_outcome_distribution(circ, n_samples=None).distribution_dict
        if len(dist) != 2 ** n:
            return False, "exact distribution does not list every outcome"
        for key, v in dist.items():
            if len(key) != n or abs(v - P(key)) > 1e-9:
                return False, f"n={n} {name}: exact distribution key {key} has probability {v}, expected {P(key)}"
        for S in subsets:
            opS = PauliSum([PauliTerm({q: "Z" for q in S} if S else "I0", 1.0)])
            exact = sim.get_exact_expectation_values(circ, opS)
            want = sum(v * (-1) ** sum(k[q] for q in S) for k, v in dist.items())
            if abs(exact - want) > 1e-9:
                return False, f"n={n} {name}: exact <Z_{S}> = {exact} but the eigenvalue average over the exact distribution is {want}"
            direct = math.prod(1 - 2 * p1[q] for q in S) if bits is None else (-1) ** sum(bits[q] for q in S)
            if abs(exact - direct) > 1e-9:
                return False, f"n={n} {name}: exact <Z_{S}> = {exact}, expected {direct}"
        for n_samples in (1, 2 ** n - 1 if n > 1 else 1, 2 ** n + 1, 3 * 2 ** n):
            for source in ("function", "runner"):
                samples = sample_from_wavefunction(wf, n_samples, 3) if source == "function" else sim.run_and_measure(circ, n_samples).bitstrings
                if len(samples) != n_samples:
                    return False, f"{len(samples)} samples for {n_samples} requested"
                for s in samples:
                    if not isinstance(s, tuple) or len(s) != n or P(s) <= 1e-12:
                        return False, f"n={n} {name}: sampled outcome {s} ({n_samples} samples via {source}) has exact probability {P(s) if isinstance(s, tuple) and len(s) == n else 'n/a'}"
                if bits is not None:
                    m = Measurements([tuple(s) for s in samples])
                    if set(m.get_counts()) != {"".join(map(str, bits))}:
                        return False, f"n={n} {name}: count strings {set(m.get_counts())} expected {''.join(map(str, bits))}"
                    for S in subsets:
                        opS = PauliSum([PauliTerm({q: "Z" for q in S} if S else "I0", 2.0)])
                        ev = m.get_expectation_values(opS).values[0]
                        if abs(ev - 2.0 * (-1) ** sum(bits[q] for q in S)) > 1e-12:
                            return False, f"n={n} {name}: <Z_{S}> from measurements = {ev}"
    return True, "ok"


def _check_symbolic(n):
    """circuits whose multi-qubit gates still carry a free parameter are simulated through the symbolic embedding and bound afterwards:
    the state, exact <Z_q> and samples must agree with the numerically bound circuit and with the element-wise definition (qubit q = axis q)"""
    import numpy as np
    import sympy
    from orquestra.quantum.circuits import Circuit, RX, RY, XX, ZZ, CPHASE, X, H
    from orquestra.quantum.operators import PauliSum, PauliTerm
    from orquestra.quantum.runners.symbolic_simulator import SymbolicSimulator
    from orquestra.quantum.wavefunction import sample_from_wavefunction
    th = sympy.Symbol("theta")
    val = 0.7

    def embed(M, qs):
        k = len(qs)
        bit = lambda i, q: (i >> (n - 1 - q)) & 1
        E = np.zeros((2 ** n, 2 ** n), dtype=complex)
        for r in range(2 ** n):
            for c in range(2 ** n):
                if all(bit(r, q) == bit(c, q) for q in range(n) if q not in qs):
                    sr = sum(bit(r, q) << (k - 1 - t) for t, q in enumerate(qs))
                    sc = sum(bit(c, q) << (k - 1 - t) for t, q in enumerate(qs))
                    E[r, c] = M[sr, sc]
        return E
    gates = [lambda t: RY(t).controlled(1), lambda t: RX(t).controlled(1), XX, CPHASE, lambda t: RY(t).controlled(2)]
    for mk in gates:
        k = mk(0.1).num_qubits
        if k > n:
            continue
        for qs in itertools.permutations(range(n), k):
            prep = [X(qs[0])] + ([H(qs[1])] if k > 1 else [])
            sym_c = Circuit(prep + [mk(th)(*qs)], n_qubits=n)
            num_c = Circuit(prep + [mk(val)(*qs)], n_qubits=n)
            a = np.array(SymbolicSimulator().get_wavefunction(sym_c).bind({th: val}).amplitudes, dtype=complex).ravel()
            b = np.array(SymbolicSimulator().get_wavefunction(num_c).amplitudes, dtype=complex).ravel()
            want = np.zeros(2 ** n, dtype=complex)
            want[0] = 1
            for op in num_c.operations:
                want = embed(np.array(op.gate.matrix.tolist(), dtype=complex), op.qubit_indices) @ want
            if not np.allclose(a, want, atol=1e-9) or not np.allclose(b, want, atol=1e-9):
                return False, f"n={n}: {mk(th)} on qubits {qs}: state via the symbolic embedding (bound afterwards) / via the numeric embedding differs from the definition " \
                              f"(|sym - def| = {abs(a - want).max():.3g}, |num - def| = {abs(b - want).max():.3g})"
            wf = SymbolicSimulator().get_wavefunction(sym_c).bind({th: val})
            for q in range(n):
                ez = SymbolicSimulator().get_exact_expectation_values(sym_c.bind({th: val}), PauliSum([PauliTerm({q: "Z"}, 1.0)]))
                wantz = sum(abs(want[i]) ** 2 * (1 - 2 * ((i >> (n - 1 - q)) & 1)) for i in range(2 ** n))
                if abs(complex(np.sum(ez)) - wantz) > 1e-9:
                    return False, f"n={n}: exact <Z_{q}> of {mk(th)} on {qs} is {np.sum(ez)}, definition gives {wantz}"
            for s in sample_from_wavefunction(wf, 5, 3):
                idx = sum(bit << (n - 1 - q) for q, bit in enumerate(s))
                if abs(want[idx]) ** 2 < 1e-12:
                    return False, f"n={n}: sampled outcome {s} of the symbolically simulated state has zero exact probability"
    return True, "ok"


def _check_multiqubit(n):
    """numeric gates on 3 and 4 qubits (asymmetric under every exchange of their qubits) on EVERY ordered tuple of an n-qubit register, acting on a product state
    with distinct single-qubit marginals: state vector, exact distribution, exact <Z_q> and samples agree with the element-wise definition; plus the
    many-shots regimes of the sampler (more shots than basis states, 10^5 and more shots)"""
    import math
    import numpy as np
    from orquestra.quantum.circuits import Circuit, RY, SWAP, CNOT, RX, X
    from orquestra.quantum.operators import PauliSum, PauliTerm
    from orquestra.quantum.runners.symbolic_simulator import SymbolicSimulator

    def embed(M, qs):
        k = len(qs)
        bit = lambda i, q: (i >> (n - 1 - q)) & 1
        E = np.zeros((2 ** n, 2 ** n), dtype=complex)
        for r in range(2 ** n):
            for c in range(2 ** n):
                if all(bit(r, q) == bit(c, q) for q in range(n) if q not in qs):
                    sr = sum(bit(r, q) << (k - 1 - t) for t, q in enumerate(qs))
                    sc = sum(bit(c, q) << (k - 1 - t) for t, q in enumerate(qs))
                    E[r, c] = M[sr, sc]
        return E
    p1 = [0.11 + 0.17 * q for q in range(n)]
    prep = [RY(2 * math.asin(math.sqrt(p)))(q) for q, p in enumerate(p1)]
    gates = [SWAP.controlled(2), CNOT.controlled(1), RX(0.7).controlled(2), CNOT.controlled(2)]
    for g in gates:
        k = g.num_qubits
        if k > n:
            continue
        tuples = list(itertools.permutations(range(n), k))
        for qs in (tuples if len(tuples) <= 120 else tuples[::3]):
            c = Circuit(prep + [g(*qs)], n_qubits=n)
            want = np.zeros(2 ** n, dtype=complex)
            want[0] = 1
            for op in c.operations:
                want = embed(np.array(op.gate.matrix.tolist(), dtype=complex), op.qubit_indices) @ want
            sim = SymbolicSimulator(seed=3)
            a = np.array(sim.get_wavefunction(c).amplitudes, dtype=complex).ravel()
            if not np.allclose(a, want, atol=1e-9):
                return False, f"n={n}: {g} on qubits {qs}: state vector differs from the element-wise definition (max deviation {abs(a - want).max():.3g})"
            dist = sim.get_measurement_outcome_distribution(c, n_samples=None).distribution_dict
            for key, v in dist.items():
                idx = sum(b << (n - 1 - q) for q, b in enumerate(key))
                if abs(v - abs(want[idx]) ** 2) > 1e-9:
                    return False, f"n={n}: {g} on qubits {qs}: exact distribution key {key} has probability {v}, definition {abs(want[idx]) ** 2}"
            for q in range(n):
                ez = sim.get_exact_expectation_values(c, PauliSum([PauliTerm({q: "Z"}, 1.0)]))
                wz = sum(abs(want[i]) ** 2 * (1 - 2 * ((i >> (n - 1 - q)) & 1)) for i in range(2 ** n))
                if abs(complex(np.sum(ez)) - wz) > 1e-9:
                    return False, f"n={n}: {g} on qubits {qs}: exact <Z_{q}> = {np.sum(ez)}, definition {wz}"
    # sampler regimes on an asymmetric basis-like state: X on qubit 0, a controlled flip, H-free so that few outcomes have non-zero probability
    c = Circuit([X(0), CNOT(0, n - 1)] + ([X(1)] if n > 2 else []), n_qubits=n)
    want_bits = tuple([1] + ([1] if n > 2 else []) + [0] * (n - 3 if n > 2 else n - 2) + [1])[:n] if n > 1 else (1,)
    for n_samples in (1, 2 ** n, 2 ** n + 1, 99999, 100000, 100001, 262145):
        sim = SymbolicSimulator(seed=5)
        m = sim.run_and_measure(c, n_samples)
        if len(m.bitstrings) != n_samples or set(m.bitstrings) != {want_bits}:
            return False, f"n={n}: {n_samples} samples of a basis state {want_bits}: outcomes {sorted(set(m.bitstrings))[:3]}"
        d = sim.get_measurement_outcome_distribution(c, n_samples).distribution_dict
        if set(k for k, v in d.items() if v > 0) != {want_bits}:
            return False, f"n={n}: empirical distribution from {n_samples} samples has support {sorted(k for k, v in d.items() if v > 0)[:3]}"
    return True, "ok"


def _check_wide(n):
    """the views that need no simulator, on wide registers (directly constructed state vectors): the amplitude at index i (qubit 0 = most significant bit)
    shows up under the tuple / count string / distribution key / Z-eigenvalues of the bits of i, in both sampling regimes"""
    import numpy as np
    from orquestra.quantum.distributions import create_bitstring_distribution_from_probability_distribution
    from orquestra.quantum.measurements import Measurements
    from orquestra.quantum.operators import PauliSum, PauliTerm, get_expectation_value
    from orquestra.quantum.utils import bitstring_to_tuple
    from orquestra.quantum.wavefunction import Wavefunction, sample_from_wavefunction
    N = 2 ** n
    rng = np.random.default_rng(n)
    bits_of = lambda i: tuple((i >> (n - 1 - q)) & 1 for q in range(n))
    for i in (0, 1, 2, N // 2, N // 2 + 1, N - 2, N - 1, int(rng.integers(3, N - 3)), int(rng.integers(3, N - 3))):
        j = (i * 7 + 3) % N if (i * 7 + 3) % N != i else (i + 1) % N
        for amps in ({i: 1.0}, {i: 0.6, j: 0.8j}):
            v = np.zeros(N, dtype=complex)
            for k, a in amps.items():
                v[k] = a
            wf = Wavefunction(v)
            want = {bits_of(k): abs(a) ** 2 for k, a in amps.items()}
            op = {bitstring_to_tuple(key): p for key, p in wf.get_outcome_probs().items() if p > 1e-14}
            if len(wf.get_outcome_probs()) != N or set(op) != set(want) or any(abs(op[k] - want[k]) > 1e-12 for k in want):
                return False, f"n={n}: outcome probabilities of amplitude indices {sorted(amps)} appear under {sorted(op)}, expected {sorted(want)}"
            dist = create_bitstring_distribution_from_probability_distribution(wf.get_probabilities()).distribution_dict
            got = {k: p for k, p in dist.items() if p > 1e-14}
            if set(got) != set(want) or any(abs(got[k] - want[k]) > 1e-12 for k in want) or any(len(k) != n for k in dist):
                return False, f"n={n}: exact distribution of amplitude indices {sorted(amps)} has support {sorted(got)}, expected {sorted(want)}"
            for q in (0, 1, n // 2, n - 1):
                for S in ((q,), (0, q) if q else (0, n - 1)):
                    S = tuple(sorted(set(S)))
                    ez = get_expectation_value(PauliSum([PauliTerm({s_: "Z" for s_ in S}, 1.0)]), wf)
                    wz = sum(p * (-1) ** sum(k[s_] for s_ in S) for k, p in want.items())
                    if abs(ez - wz) > 1e-10:
                        return False, f"n={n}: <Z_{S}> of amplitude indices {sorted(amps)} is {ez}, the bits of the indices give {wz}"
            # the flipped view: reversing the qubit order of BOTH the state and a multi-term operator leaves the expectation value unchanged
            from orquestra.quantum.wavefunction import flip_wavefunction
            multi = PauliSum([PauliTerm({0: "Z"}, 1.0), PauliTerm({1: "Z"}, -0.7), PauliTerm({0: "Z", n - 1: "Z"}, 0.4), PauliTerm({n // 2: "Z"}, 2.0), PauliTerm("I0", 0.3)])
            e_direct = get_expectation_value(multi, wf)
            e_flipped = get_expectation_value(multi, flip_wavefunction(wf), reverse_operator=True)
            w_multi = sum(p * (1.0 * (-1) ** k[0] - 0.7 * (-1) ** k[1] + 0.4 * (-1) ** (k[0] + k[n - 1]) + 2.0 * (-1) ** k[n // 2] + 0.3) for k, p in want.items())
            if abs(e_direct - w_multi) > 1e-9 or abs(e_flipped - w_multi) > 1e-9:
                return False, f"n={n}: expectation of a multi-term Z operator on amplitude indices {sorted(amps)}: direct {e_direct}, flipped state with reversed operator {e_flipped}, from the bits {w_multi}"
            for n_samples in (3, N + 5):
                samples = sample_from_wavefunction(wf, n_samples, 11)
                if len(samples) != n_samples or any((not isinstance(s_, tuple)) or len(s_) != n or s_ not in want for s_ in samples):
                    bad = [s_ for s_ in samples if not isinstance(s_, tuple) or s_ not in want][:1]
                    return False, f"n={n}: {n_samples} samples of amplitude indices {sorted(amps)}: outcome {bad} has zero exact probability / wrong length"
                m = Measurements(samples)
                if not set(m.get_counts()) <= {"".join(map(str, k)) for k in want} or sum(m.get_counts().values()) != n_samples:
                    return False, f"n={n}: count strings {set(m.get_counts())} are not the bit strings of the amplitude indices"
                if len(amps) == 1:
                    k = bits_of(i)
                    ev = m.get_expectation_values(PauliSum([PauliTerm({0: "Z"}, 1.0), PauliTerm({n - 1: "Z"}, 1.0), PauliTerm({0: "Z", n // 2: "Z"}, 1.0)])).values
                    if [round(float(x)) for x in ev] != [(-1) ** k[0], (-1) ** k[n - 1], (-1) ** (k[0] + k[n // 2])]:
                        return False, f"n={n}: measured <Z_0>, <Z_{n-1}>, <Z_0 Z_{n//2}> of basis state {k} are {list(ev)}"
    return True, "ok"


def build(tier, seed):
    obs = []
    fb = vprop.enum_ob("x", [], lambda: range(1, 4), _check_width, "").run

    def frame_ob(key):
        def run():
            # simulator methods count their work in self (C14): the frame is about the circuit / operator / wavefunction arguments
            st, finds, summ = frame.frame_outcome(key, ignore_params=("self",) if "Simulator." in key else ())
            txt = "; ".join(f"{f.kind} at {f.where}: {f.what} [{f.target}]" for f in finds[:4])
            if st == "discharged":
                return core.discharged("engine-F")
            if st == "refuted":
                return core.refuted("engine-F", f"{key.split(':')[1]} writes through an argument: {txt}", cex=[f.__dict__ for f in finds[:5]])
            return core.undecided("engine-F", txt)
        return Ob(f"C04.frame[{key.split(':')[1]}]", "proof", [key], run, f"{key.split(':')[1]} does not modify the wavefunction / circuit / operator it reads", fallback=fb)
    for k in F_OPS:
        obs.append(frame_ob(k))
    from props import C04sample
    obs.extend(C04sample.build(fb))
    obs.append(vprop.enum_ob("C04.views.enum", F_OPS, lambda: range(1, 5 if tier == "quick" else 6), _check_width,
                             "bounded-exhaustive per width: amplitudes, outcome-prob keys, exact distribution, exact <Z_S> for every subset S, sampled tuples (both sampling regimes, "
                             "function and runner), count strings and measured <Z_S> all use 'position q = qubit q' on basis states and on a separable state with distinct marginals", timeout=1500))
    obs.append(vprop.enum_ob("C04.multiqubit_views.enum", F_OPS[:5] + ["orquestra.quantum.circuits._unitary_tools:_lift_matrix_numpy"], lambda: ([3, 4] if tier == "quick" else [3, 4, 5]), _check_multiqubit,
                             "bounded-exhaustive per width: 3- and 4-qubit numeric gates on every ordered tuple acting on a product state with distinct marginals: state, exact distribution, "
                             "exact <Z_q> agree with the element-wise definition; sampler with 1 .. 262145 shots on a basis state", timeout=1500))
    obs.append(vprop.enum_ob("C04.wide_views.enum", F_OPS[:3] + F_OPS[5:], lambda: ([6, 9] if tier == "quick" else [6, 9, 12]), _check_wide,
                             "bounded: registers of 6 / 9 (12) qubits, directly constructed basis states and two-component superpositions at the first, last, middle and random indices: outcome "
                             "probabilities, exact distribution, exact <Z_S>, sampled tuples in both regimes, count strings and measured <Z_S> all read bit q of the amplitude index "
                             "(most significant first) as qubit q", exhaustive=False, timeout=900))
    obs.append(vprop.enum_ob("C04.symbolic_views.enum", F_OPS[:3] + ["orquestra.quantum.circuits._unitary_tools:_lift_matrix_sympy", "orquestra.quantum.circuits._unitary_tools:_lift_matrix_numpy"],
                             lambda: range(2, 4 if tier == "quick" else 5), _check_symbolic,
                             "bounded-exhaustive per width: controlled rotations, two-qubit rotations and a doubly-controlled rotation with a FREE parameter on EVERY ordered qubit tuple: "
                             "the state obtained through the symbolic embedding and bound afterwards, the state of the numerically bound circuit, exact <Z_q> and samples agree with the "
                             "element-wise definition (qubit q = tensor axis q)", timeout=1500))
    return obs
