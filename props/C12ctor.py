"""C12, how a Wavefunction comes into being (Engine V): `__init__` and `bind` for vectors of ANY length.

  __init__(v): raises ValueError unless the length is a power of two (popcount of the length is 1) and the stored vector passes `_check_normalization`;
               otherwise the object holds exactly asarray(v) - so EVERY constructed object satisfies the class invariant OK(vector) at the moment it exists;
  bind(map):   a state without free symbols is returned as it is; otherwise the result is built by the constructor from subs(vector, map) (hence valid) or the call
               raises ValueError - never an unvalidated object.
`_check_normalization` is the abstract predicate OK of `C12.__setitem__.contract` (its numeric content - |sum |a|^2 - 1| within numpy's isclose - is enumerated);
`np.asarray`, `bin(..).count("1")`, sympy `subs` are uninterpreted.
"""
from __future__ import annotations

import types

import z3

from vfw import sym, vcontract as vc, vprop, vtypes
from vfw.sym import Obj, SSeq, SInt, SObj

W = "orquestra.quantum.wavefunction"
I = z3.IntSort()
OK = z3.Function("check_normalization_passes", Obj, z3.BoolSort())
ASARRAY = z3.Function("np.asarray_complex", Obj, Obj)
POPCOUNT = z3.Function("popcount", I, I)
VLEN = z3.Function("len_of_vector", Obj, I)
SUBS = z3.Function("subs", Obj, Obj, Obj)
HAS_FREE = z3.Function("has_free_symbols", Obj, z3.BoolSort())


def build(fb=None):
    sym.OBJ_SCHEMAS["Vec"] = {"__len__": lambda self: sym.wrap_expr(VLEN(self.e)), "subs": lambda self: (lambda m: SObj("Vec", SUBS(self.e, sym.lift(m)))),
                              "free_symbols": lambda self: SObj("FreeSet", self.e)}
    sym.OBJ_SCHEMAS["FreeSet"] = {"__bool__": lambda self: sym.cur().decide(HAS_FREE(self.e))}
    sym.OBJ_SCHEMAS.setdefault("SMap", {})
    vc.CLASS_TAGS["Vec"] = (SObj,)      # the symbolic branch asserts `isinstance(vector, Matrix)`; Matrix is bound to the class of opaque values for this obligation

    class BinStr:
        def __init__(self, n):
            self.n = n

        def count(self, ch):
            if ch != "1":
                raise sym.Unsupported("bin(..).count of another character")
            return sym.wrap_expr(POPCOUNT(sym.lift(self.n)))

    def check_stub(arr):
        if sym.cur().decide(z3.Not(OK(sym.lift(arr)))):
            raise ValueError("Vector does not result in a unit probability.")

    NP = types.SimpleNamespace(asarray=lambda v, dtype=None: SObj("Vec", ASARRAY(sym.lift(v))), ndarray=type("ndarray", (), {}))

    def setup(args, ns):
        Wf = ns["Wavefunction"]
        w = Wf.__new__(Wf)
        w._check_normalization = check_stub
        args["self"] = w
    c1 = vc.Contract(key=W + ":Wavefunction.__init__", params={"self": "Any", "amplitude_vector": "Obj:Vec"},
                     raises={"ValueError": "POPCOUNT(len(amplitude_vector)) != 1 or not OK_(ASARRAY_(amplitude_vector))"},
                     ensures="self._amplitude_vector == ASARRAY_(amplitude_vector) and OK_(self._amplitude_vector)",
                     spec={"POPCOUNT": lambda n: sym.wrap_expr(POPCOUNT(sym.lift(n))), "OK_": lambda v: sym.wrap_expr(OK(sym.lift(v))),
                           "ASARRAY_": lambda v: SObj("Vec", ASARRAY(sym.lift(v)))},
                     doc="rejects lengths that are not a power of two and vectors that fail the normalisation check; otherwise holds asarray(vector), which passed the check")
    obs = [vprop.fn_ob("C12", c1, {}, call=lambda ns, a: ns["Wavefunction"].__init__(a["self"], a["amplitude_vector"]), setup=setup, fallback=fb,
                       obid="C12.ctor.contract", desc=c1.doc, extra_stubs=lambda: {"np": NP, "bin": lambda n: BinStr(n)})]

    # ---- bind ---------------------------------------------------------------------------------------------------------------------------------------------
    state = {}

    def setup_bind(args, ns):
        Wf = ns["Wavefunction"]

        class Built(Wf):
            """stands for type(self)(vector): the constructor by its contract above - a valid object holding asarray(vector), or ValueError"""

            def __init__(self, vec):
                arr = ASARRAY(sym.lift(vec))
                if sym.cur().decide(z3.Not(OK(arr))):
                    raise ValueError("Vector does not result in a unit probability.")
                self._amplitude_vector = SObj("Vec", arr)
        w = Built.__new__(Built)
        w._amplitude_vector = SObj("Vec", sym.cur().fresh("vector", Obj))
        sym.cur().assume(OK(w._amplitude_vector.e))
        args["self"] = w
        state["vec"] = w._amplitude_vector
        ns["Matrix"] = SObj        # `assert isinstance(self._amplitude_vector, Matrix)` in the symbolic branch
    c2 = vc.Contract(key=W + ":Wavefunction.bind", params={"self": "Any", "symbol_map": "Obj:SMap"},
                     raises={"ValueError": "HAS_FREE_(self._amplitude_vector) and not OK_(ASARRAY_(SUBS_(self._amplitude_vector, symbol_map)))"},
                     ensures="OK_(result._amplitude_vector) and ((result is self) if not HAS_FREE_(self._amplitude_vector) else "
                             "result._amplitude_vector == ASARRAY_(SUBS_(self._amplitude_vector, symbol_map))) and self._amplitude_vector == OLD()",
                     spec={"OK_": lambda v: sym.wrap_expr(OK(sym.lift(v))), "ASARRAY_": lambda v: SObj("Vec", ASARRAY(sym.lift(v))),
                           "SUBS_": lambda v, m: SObj("Vec", SUBS(sym.lift(v), sym.lift(m))), "HAS_FREE_": lambda v: sym.wrap_expr(HAS_FREE(sym.lift(v))),
                           "OLD": lambda: state["vec"]},
                     doc="no free symbols: the object itself; otherwise a NEW object built by the constructor from the substituted vector (valid), or ValueError; the receiver is unchanged")
    obs.append(vprop.fn_ob("C12", c2, {}, call=lambda ns, a: a["self"].bind(a["symbol_map"]), setup=setup_bind, fallback=fb, obid="C12.bind.contract", desc=c2.doc))
    return obs
