"""C18 - decomposing a circuit never changes what it does (up to one global phase).

Deductive part (Engine M: the real text of _orquestra_decompositions.py, _decomposition.py, _circuit.py, _gates.py,
_unitary_tools.py, _matrices.py over the exact domain, all real angles):
  * U3(theta, phi, lambda) = e^{i(phi+lambda)/2} RZ(phi) RY(theta) RZ(lambda);
  * the circuit produced for a plain U3 on any qubit of a 3-qubit register equals e^{-i(phi+lambda)/2} x the original;
  * the circuit produced for a controlled U3 (1 and 2 controls, several placements) equals EXACTLY the embedding of
    diag(I, e^{-i(phi+lambda)/2} U3)  - which pins the known finding: a relative, not global, phase;
  * predicate is true exactly for U3 and controlled U3 among all built-in gates and their controlled versions.
Bounded part: rule chaining on enumerated rule systems; native numeric cross-check (large angles, phi+lambda = 0 mod 4pi).
"""
from __future__ import annotations

import itertools

from vfw import core, trig, mcheck, circ_m, vprop, replay as rp
from vfw.core import Ob

LEVEL = "proof"
OD = "orquestra.quantum.decompositions._orquestra_decompositions"
DD = "orquestra.quantum.decompositions._decomposition"
MANIFEST = {
    "engine": "engine-M",
    "category": "proof",
    "technique": "contract-based deductive verification of rule chaining for ANY rule list and ANY operations (Engine V, induction on the number of rules: the recursive call of decompose_operation enters by the contract itself on a strictly shorter list - checked; hypothesis: every rule's production has the action of the operation where its predicate holds; conclusion: the ordered action of the result equals the action of the operation, an operation no rule applies to comes back as [operation], and decompose_operations concatenates the per-operation results in order; abstract monoid of actions with the flattening law); contract-based deductive verification: postconditions 'matrix of the produced circuit == phase x matrix of the original operation' generated from the real text of the decomposition rule and the circuit/embedding code by shadow execution over an exact trig-polynomial domain, decided for all real angles; rule chaining and numeric paths by bounded enumeration",
    "text": "Equivalence of the U3 rule is a trigonometric identity in three angles: it is decided for all real angles, for the plain gate on every qubit of a 3-qubit register and for 1 and 2 controls on several placements. The controlled case provably yields diag(I, e^{-i(phi+lambda)/2} U3), i.e. a relative phase: recorded as a known finding and pinned exactly, so any other deviation still reports. Rule chaining is checked on enumerated rule systems (bounded).",
    "note": "Trusted: exact domain reading of sympy/numpy, floats-as-reals. Bounds: register width 3, control counts 1..2, rule lists up to length 3 over a 4-rule pool.",
}
TRUSTED = ["props/C18chain.py: abstract monoid of actions with the flattening law (Lean twin prod_flatten_rule); hypothesis on every rule: its production has the operation's action where its predicate holds (proved for U3GateToRotation by the Engine M obligations of this check)", "vfw/trig.py exact domain", "shadow execution of the real module text", "z3 5.1 nlsat second opinion on small matrices"]
ASSUMPTIONS = ["machine arithmetic treated as mathematical (symbolic angles; numeric float paths are covered only by the bounded native cross-check)",
               "general control count k follows from the block law diag(I,A)diag(I,B)=diag(I,AB); checked here for k = 1, 2"]
EXTRA = {"explanation": "matrix identities generated from the current text of the decomposition rule via Engine M"}
FK_CU3 = "controlled-U3 relative phase exp(-i(phi+lambda)/2)"


def _angles():
    return trig.Poly.var("theta"), trig.Poly.var("phi"), trig.Poly.var("lam")


def _phase(phi, lam, sign):
    return trig.exp(trig.Poly.const(1j) * (phi + lam) * trig.Poly.const(sign) / 2)


def _native(expr_build, cmp):
    def code(env):
        th, ph, la = env.get("theta", 0.7), env.get("phi", 1.1), env.get("lam", -0.4)
        return f"""
import numpy as np
from orquestra.quantum.circuits import Circuit, U3
from orquestra.quantum.decompositions import U3GateToRotation, decompose_orquestra_circuit
th, ph, la = {th!r}, {ph!r}, {la!r}
{expr_build}
orig = np.array(Circuit([op], n_qubits=3).to_unitary(), dtype=complex)
dec = np.array(Circuit(list(decompose_orquestra_circuit(Circuit([op], n_qubits=3), [U3GateToRotation()]).operations), n_qubits=3).to_unitary(), dtype=complex)
i, j = np.unravel_index(np.argmax(abs(orig)), orig.shape)
g = dec[i, j] / orig[i, j]
OK = bool({cmp})
OBSERVED = f"max |dec - g*orig| = {{abs(dec - g * orig).max()}} with g = {{g}}"
"""
    return code


def build(tier, seed):
    obs = []
    FN = [OD + ":U3GateToRotation.production", OD + ":U3GateToRotation.predicate", OD + ":decompose_orquestra_circuit", DD + ":decompose_operations",
          DD + ":decompose_operation"]

    def u3_phase():
        def b():
            L = circ_m.Layer()
            th, ph, la = _angles()
            return L.gate("U3", th, ph, la).matrix, (L.gate("RZ", ph).matrix @ L.gate("RY", th).matrix @ L.gate("RZ", la).matrix) * _phase(ph, la, 1)
        return mcheck.identity_outcome(b, _native("op = U3(th, ph, la)(0)", "np.allclose(dec, g * orig, atol=1e-9)"), "U3 = e^{i(phi+lam)/2} RZ RY RZ")
    obs.append(Ob("C18.u3.phase", "proof", ["orquestra.quantum.circuits._matrices:u3_matrix", "orquestra.quantum.circuits._matrices:ry_matrix",
                                            "orquestra.quantum.circuits._matrices:rz_matrix"], u3_phase,
                  "U3(theta,phi,lambda) = e^{i(phi+lambda)/2} RZ(phi) RY(theta) RZ(lambda) for all real angles"))

    def decomposed(L, op, n):
        dec, odec = L.decompositions()
        circ = L.Circuit([op], n_qubits=n)
        out = odec.decompose_orquestra_circuit(circ, [odec.U3GateToRotation()])
        return L.Circuit(list(out.operations), n_qubits=n).to_unitary(), circ.to_unitary(), out

    for q in (0, 1, 2):
        def plain(q=q):
            def b():
                L = circ_m.Layer()
                th, ph, la = _angles()
                d, o, out = decomposed(L, L.gate("U3", th, ph, la)(q), 3)
                if [x.gate.name for x in out.operations] != ["RZ", "RY", "RZ"] or any(x.qubit_indices != (q,) for x in out.operations):
                    return trig.zeros(1, 1), trig.eye(1)
                return d, o * _phase(ph, la, -1)
            return mcheck.identity_outcome(b, _native(f"op = U3(th, ph, la)({q})", "np.allclose(dec, g * orig, atol=1e-9)"),
                                           "decomposed == e^{-i(phi+lam)/2} * original (one global phase)")
        obs.append(Ob(f"C18.u3.plain[q={q}]", "proof", FN, plain,
                      f"plain U3 on qubit {q} of 3: the produced RZ,RY,RZ circuit equals the original up to the global phase e^(-i(phi+lambda)/2), all angles"))

    placements = [(1, (0, 1)), (1, (1, 0)), (1, (2, 0)), (2, (0, 1, 2)), (2, (2, 0, 1))]
    for k, qs in placements:
        def shape(k=k, qs=qs):
            def b():
                L = circ_m.Layer()
                th, ph, la = _angles()
                g = L.gate("U3", th, ph, la)
                d, o, out = decomposed(L, g.controlled(k)(*qs), 3)
                spec_block = trig.SMat.diag(trig.eye(2 ** (k + 1) - 2), g.matrix * _phase(ph, la, -1))
                return d, circ_m.embed_spec(spec_block, list(qs), 3)
            return mcheck.identity_outcome(b, None, "decomposed controlled U3 == Embed(diag(I, e^{-i(phi+lam)/2} U3))")
        obs.append(Ob(f"C18.cu3.shape[k={k},q={qs}]", "proof", FN, shape,
                      f"controlled U3 ({k} control(s) on {qs}): the produced circuit equals exactly diag(I, e^(-i(phi+lambda)/2) U3) embedded (pins the known finding)", timeout=300))

    def cu3_equiv():
        L = circ_m.Layer()
        th, ph, la = _angles()
        g = L.gate("U3", th, ph, la)
        d, o, out = decomposed(L, g.controlled(1)(0, 1), 2)
        for gp in (trig.Poly.const(1), _phase(ph, la, -1)):
            v, info = mcheck.decide_equal(d, o * gp)
            if v == "equal":
                return core.discharged("ring-normal-form")
        rep = rp.replay_dict(_native("op = U3(th, ph, la).controlled(1)(0, 1)", "np.allclose(dec, g * orig, atol=1e-9)")({}), "equal up to one global phase")
        return core.refuted("ring-normal-form", "the decomposition of a controlled U3 equals diag(I, e^{-i(phi+lambda)/2} U3): a relative phase between the "
                            "control subspaces, not a global phase (exact shape proved by C18.cu3.shape)", replay=rep, finding_key=FK_CU3)
    obs.append(Ob("C18.cu3.equiv", "proof", FN, cu3_equiv, "controlled U3: produced circuit equals the original up to ONE global phase"))

    def predicate():
        L = circ_m.Layer()
        dec, odec = L.decompositions()
        rule = odec.U3GateToRotation()
        n = 0
        for name, (obj, k, pn) in L.table.items():
            g = obj if k == 0 else obj(*[trig.Poly.var(f"p{i}") for i in range(k)])
            for kk in (0, 1, 2):
                gg = g if kk == 0 else g.controlled(kk)
                op = gg(*range(gg.num_qubits))
                n += 1
                if bool(rule.predicate(op)) != (name == "U3"):
                    return core.refuted("shadow-execution", f"predicate({name} with {kk} controls) = {rule.predicate(op)}")
        return core.discharged("shadow-execution", queries=n)
    obs.append(Ob("C18.predicate", "finite", FN[1:2], predicate, "the rule applies exactly to U3 and controlled U3 among all built-in gates with 0..2 controls"))

    def wrapped_u3():
        """whatever the rule does to a U3 hidden inside other wrappers (dagger, power, dagger of controlled ...) must keep the action up to a global phase -
        either by leaving the operation alone or by a correct decomposition"""
        L = circ_m.Layer()
        th, ph, la = _angles()
        num = (trig.Poly.const(0.5), trig.Poly.const(-1.25), trig.Poly.const(2.0))
        u_sym, u_num = L.gate("U3", th, ph, la), L.gate("U3", *num)
        pool = {"U3.dagger": (u_sym.dagger, (0,)), "U3.dagger.dagger": (u_sym.dagger.dagger, (1,)), "U3.power(2)": (u_num.power(2), (0,)), "U3.power(3).dagger": (u_num.power(3).dagger, (1,)),
                "RZ": (L.gate("RZ", th), (0,)), "RY.dagger": (L.gate("RY", th).dagger, (1,))}
        q = 0
        for name, (g, qs) in pool.items():
            d, o, out = decomposed(L, g(*qs), 2)
            ok = False
            for gp in (trig.Poly.const(1), _phase(ph, la, -1), _phase(ph, la, 1), _phase(num[1], num[2], -1), _phase(num[1], num[2], -2), _phase(num[1], num[2], -3),
                       _phase(num[1], num[2], 3)):
                v, info = mcheck.decide_equal(d, o * gp, use_z3=False)
                q += 1
                if v == "equal":
                    ok = True
                    break
            if not ok:
                code = _native("op = U3(th, ph, la).dagger(0)" if "dagger" in name else "op = U3(0.5, -1.25, 2.0).power(2)(0)", "np.allclose(dec, g * orig, atol=1e-9)")({})
                return core.refuted("ring-normal-form", f"{name}: after applying the rule the circuit {[str(x) for x in out.operations]} no longer acts as the original up to a global phase",
                                    replay=rp.replay_dict(code, "equal up to one global phase"))
        return core.discharged("ring-normal-form", queries=q, sample={"gates": list(pool)})
    obs.append(Ob("C18.wrapped_u3", "finite", FN, wrapped_u3,
                  "U3 inside dagger / power wrappers (and look-alike rotations): the rule either leaves the operation alone or replaces it by an equivalent sequence, all angles"))

    from vfw import lean
    obs.append(lean.prelude_ob('C18', 'Euler / trigonometric rules of the U3 identity; the product of a concatenation of sequences is the product of their products (rule chaining)'))
    from props import C18chain
    obs.extend(C18chain.build(vprop.enum_ob("x", [], _cases_chain, _check_chain, "").run))
    obs.append(vprop.enum_ob("C18.chain.enum", FN[3:], _cases_chain, _check_chain,
                             "bounded: every rule list of length <= 3 over a pool of 4 rewrite rules on every operation list of length <= 2: result equals the "
                             "reference fold (rules in the given order on the previous rule's output, unmatched operations kept in place); empty rule list is the identity"))
    obs.append(vprop.enum_ob("C18.native.enum", FN, lambda: range(4), _check_native,
                             "bounded: numeric cross-check - plain U3 at large angles, controlled U3 with phi+lambda = 0 mod 4pi (1-2 controls, permuted qubits), "
                             "mixed circuits with look-alike controlled gates kept unchanged and in order", exhaustive=False))
    return obs


class _Rule:
    def __init__(self, src, dst):
        self.src, self.dst = src, dst

    def predicate(self, op):
        return op == self.src

    def production(self, op):
        return iter(self.dst)


_POOL = [("a", ["b", "c"]), ("b", ["a"]), ("c", []), ("a", ["a", "a"])]


def _cases_chain():
    for L in range(0, 4):
        for rules in itertools.product(range(len(_POOL)), repeat=L):
            for n in range(0, 3):
                for ops in itertools.product("abcd", repeat=n):
                    yield (list(rules), list(ops))


def _check_chain(case):
    from orquestra.quantum.decompositions import decompose_operations
    rules, ops = case
    for shared in (False, True):          # a rule listed twice may be one and the same object, or two equal objects: each listed position is applied
        objs = {}
        rs = [objs.setdefault(i, _Rule(*_POOL[i])) for i in rules] if shared else [_Rule(*_POOL[i]) for i in rules]
        ok, msg = _check_chain_with(rs, ops)
        if not ok:
            return False, ("(the same rule object listed repeatedly) " if shared else "") + msg
    return True, "ok"


def _check_chain_with(rs, ops):
    from orquestra.quantum.decompositions import decompose_operations
    before = list(ops)
    got = list(decompose_operations(ops, rs))
    cur = list(ops)
    for r in rs:
        nxt = []
        for o in cur:
            nxt.extend(list(r.production(o)) if r.predicate(o) else [o])
        cur = nxt
    if ops != before:
        return False, "operations argument modified"
    if got != cur:
        return False, f"got {got} expected {cur}"
    # the operations may be handed over as any iterable (tuple, one-shot generator / iterator), the rules as a tuple
    for kind, arg in (("tuple", tuple(ops)), ("generator", (o for o in ops)), ("iterator", iter(list(ops))), ("map", map(lambda o: o, ops))):
        g2 = list(decompose_operations(arg, rs))
        if g2 != cur:
            return False, f"operations given as a {kind}: got {g2} expected {cur}"
    if list(decompose_operations(list(ops), tuple(rs))) != cur:
        return False, "rules given as a tuple"
    return True, "ok"


def _check_native(mode):
    import numpy as np
    from orquestra.quantum.circuits import Circuit, U3, RX, RZ, RY, X, CNOT, T
    from orquestra.quantum.decompositions import U3GateToRotation, decompose_orquestra_circuit
    rule = U3GateToRotation()

    def mat(c, n):
        return np.array(Circuit(list(c.operations), n_qubits=n).to_unitary(), dtype=complex)

    def equiv(a, b):
        i, j = np.unravel_index(np.argmax(abs(b)), b.shape)
        g = a[i, j] / b[i, j]
        return abs(abs(g) - 1) < 1e-9 and np.allclose(a, g * b, atol=1e-9)
    if mode == 0:
        for th, ph, la in [(0.7, 1.1, -0.4), (7.0, -9.5, 13.2), (2 * np.pi + 0.4, 0.3, -0.3), (-8.1, 6.9, 0.0)]:
            for q in (0, 2):
                c = Circuit([U3(th, ph, la)(q)], n_qubits=3)
                if not equiv(mat(decompose_orquestra_circuit(c, [rule]), 3), mat(c, 3)):
                    return False, f"plain U3{(th, ph, la)} on qubit {q}: decomposition is not equivalent up to a global phase"
                # the same gate under the other modifiers (whatever the rule does with them - leave alone or decompose - the action must stay)
                for wname, g in (("dagger", U3(th, ph, la).dagger), ("dagger of controlled", U3(th, ph, la).controlled(1).dagger), ("power 2", U3(th, ph, la).power(2))):
                    qs = (q,) if g.num_qubits == 1 else ((q + 1) % 3, q)
                    c = Circuit([g(*qs)], n_qubits=3)
                    if (ph + la) % (4 * np.pi) != 0 and g.num_qubits > 1:
                        continue           # controlled U3 with phi + lambda != 0 mod 4 pi: the known finding, reported by C18.cu3.equiv
                    if not equiv(mat(decompose_orquestra_circuit(c, [rule]), 3), mat(c, 3)):
                        return False, f"{wname} of U3{(th, ph, la)} on {qs}: after applying the rule the circuit no longer acts as the original up to a global phase"
        return True, "ok"
    if mode == 1:
        for th, ph, la in [(0.7, 2.5 * np.pi, 1.5 * np.pi), (2 * np.pi + 0.4, 0.3, -0.3), (1.3, 4 * np.pi - 1.0, 1.0), (5.5, -2 * np.pi, -2 * np.pi)]:
            for k, qs in [(1, (0, 1)), (1, (2, 0)), (2, (3, 0, 2))]:
                n = max(qs) + 1
                c = Circuit([U3(th, ph, la).controlled(k)(*qs)], n_qubits=n)
                if not equiv(mat(decompose_orquestra_circuit(c, [rule]), n), mat(c, n)):
                    return False, f"controlled U3{(th, ph, la)} ({k} controls on {qs}), phi+lambda = 0 mod 4pi: not equivalent up to a global phase"
        return True, "ok"
    if mode == 2:
        a = 0.37
        ops = [RX(a).controlled(1)(0, 1), RZ(a).controlled(1)(0, 1), RX(a).controlled(1)(0, 1).gate.dagger(0, 1), RY(a).controlled(1)(0, 1),
               X(2), CNOT(0, 1), T(1), T.dagger(1), X.controlled(2)(0, 1, 2), RZ(a).controlled(2)(0, 1, 2)]
        c = Circuit(ops, n_qubits=3)
        for rules in ([], [rule], [rule, rule]):
            out = decompose_orquestra_circuit(c, rules)
            if list(out.operations) != ops:
                return False, f"operations no rule applies to were changed by rules {rules}: {[str(o) for o in out.operations]}"
        return True, "ok"
    c = Circuit([X(0), U3(0.3, 0.2, -0.2)(1), CNOT(0, 1), U3(1.0, 0.5, 0.7)(0), RX(0.2)(1)], n_qubits=2)
    out = decompose_orquestra_circuit(c, [rule])
    names = [o.gate.name for o in out.operations]
    if names != ["X", "RZ", "RY", "RZ", "CNOT", "RZ", "RY", "RZ", "RX"]:
        return False, f"order of operations after decomposition: {names}"
    if not equiv(mat(out, 2), mat(c, 2)):
        return False, "mixed circuit not equivalent after decomposition"
    if list(decompose_orquestra_circuit(c, []).operations) != list(c.operations):
        return False, "empty rule list changed the circuit"
    return True, "ok"
