"""C03, the kernel of all Pauli arithmetic under contract (Engine V): `PauliTerm._multiply_by_operator(op, index)` for terms of ANY size, ANY qubit
index and every Pauli letter.

With the letters numbered X = 1, Y = 2, Z = 3 the specification is the textbook rule, stated without the library's tables:

    s_a s_a = 1;     s_a s_b = +i s_c  when b = a + 1 (mod 3),  -i s_c  when b = a + 2 (mod 3),  c = 6 - a - b

so right-multiplying a term c * (x) P_q by the letter `op` on qubit `index` must give: on `index` the letter `op` if the qubit was free, nothing (identity) if it
held `op`, the third letter otherwise; the coefficient multiplied by 1, 1, +-i respectively; EVERY OTHER qubit exactly as before (frame); any other letter
raises ValueError unless the qubit is free or holds that same letter (the code's documented behaviour for 'I' is pinned by the enumerations, not here).
The code decides through `ord`-keyed and string-keyed dictionaries; the contract is independent of them.  That the operator denoted by the result is
den(term) * P(op, index) then is the mixed-product property of the Kronecker product (Lean: `Matrix.mul_kronecker_mul`), per qubit.
"""
from __future__ import annotations

import types

import z3

from vfw import core, sym, vcontract as vc, vprop, vrt, vtypes
from vfw.sym import Obj, SSeq, SInt, SObj, SReal

PO = "orquestra.quantum.operators._pauli_operators"
I = z3.IntSort()
LETTERS = {"X": 1, "Y": 2, "Z": 3}
NAMES = {v: k for k, v in LETTERS.items()}


class OpsDict:
    """the dictionary qubit -> letter of a term: membership and letter code (1, 2, 3) as z3 arrays over ALL integer keys; reads of a stored letter fork
    over the three letters, so that the code under verification always handles a concrete letter (it indexes Python dictionaries with it)"""

    def __init__(self, has, code):
        self.has, self.code = has, code

    def copy(self):
        return OpsDict(self.has, self.code)

    def __contains__(self, k):
        return sym.cur().decide(z3.Select(self.has, sym.lift(k)))

    def _letter(self, k):
        c = sym.cur()
        e = z3.Select(self.code, sym.lift(k))
        for v in (1, 2):
            if c.decide(e == v):
                return NAMES[v]
        c.assume(e == 3)
        return NAMES[3]

    def __getitem__(self, k):
        if not sym.cur().decide(z3.Select(self.has, sym.lift(k))):
            raise KeyError(k)
        return self._letter(k)

    def get(self, k, default=None):
        if not sym.cur().decide(z3.Select(self.has, sym.lift(k))):
            return default
        return self._letter(k)

    def __setitem__(self, k, v):
        if v not in LETTERS:
            raise sym.Unsupported(f"letter {v!r} stored in a term")
        self.has = z3.Store(self.has, sym.lift(k), z3.BoolVal(True))
        self.code = z3.Store(self.code, sym.lift(k), z3.IntVal(LETTERS[v]))

    def pop(self, k, *default):
        if not sym.cur().decide(z3.Select(self.has, sym.lift(k))):
            if default:
                return default[0]
            raise KeyError(k)
        v = self._letter(k)
        self.has = z3.Store(self.has, sym.lift(k), z3.BoolVal(False))
        return v

    def __delitem__(self, k):
        if not sym.cur().decide(z3.Select(self.has, sym.lift(k))):
            raise KeyError(k)
        self.has = z3.Store(self.has, sym.lift(k), z3.BoolVal(False))


def build(fb=None):
    obs = []
    for op in ("X", "Y", "Z"):
        state = {}

        class Holder:
            def __init__(self, ops, coefficient=1.0):
                self._ops, self.coefficient = ops, coefficient

        def setup(args, ns, op=op):
            c = sym.cur()
            T = ns["_orig_PauliTerm"] if "_orig_PauliTerm" in ns else ns["PauliTerm"]
            t = T.__new__(T)
            has = c.fresh("ops.has", z3.ArraySort(I, z3.BoolSort()))
            code = c.fresh("ops.letter", z3.ArraySort(I, I))
            q = z3.Int("q!wf")
            c.assume(z3.ForAll([q], z3.Implies(z3.Select(has, q), z3.And(1 <= z3.Select(code, q), z3.Select(code, q) <= 3)), patterns=[z3.Select(code, q)]))
            t._ops = OpsDict(has, code)
            re, im = c.fresh("coefficient.re", z3.RealSort()), c.fresh("coefficient.im", z3.RealSort())
            t.coefficient = Cplx(re, im)
            state["has"], state["code"], state["re"], state["im"] = has, code, re, im
            args["self"] = t
            args["op"] = op

        def table(result, index, op=op):
            """the textbook rule (module docstring) and the frame, on the arrays of the result"""
            has0, code0, re0, im0 = state["has"], state["code"], state["re"], state["im"]
            r = result._ops
            i = sym.lift(index)
            b = LETTERS[op]
            a = z3.Select(code0, i)
            free, same = z3.Not(z3.Select(has0, i)), z3.And(z3.Select(has0, i), a == b)
            third = 6 - a - b
            plus = (b - a) % 3 == 1                     # b = a + 1 (mod 3): +i, otherwise -i
            rc = result.coefficient
            rre, rim = (rc.re, rc.im) if isinstance(rc, Cplx) else (sym.lift(rc), z3.RealVal(0))
            at_index = z3.If(free, z3.And(z3.Select(r.has, i), z3.Select(r.code, i) == b, rre == re0, rim == im0),
                             z3.If(same, z3.And(z3.Not(z3.Select(r.has, i)), rre == re0, rim == im0),
                                   z3.And(z3.Select(r.has, i), z3.Select(r.code, i) == third,
                                          z3.If(plus, z3.And(rre == -im0, rim == re0), z3.And(rre == im0, rim == -re0)))))       # (re + i im) * (+-i)
            q = z3.Int("q!fr")
            frame = z3.ForAll([q], z3.Implies(q != i, z3.And(z3.Select(r.has, q) == z3.Select(has0, q),
                                                             z3.Implies(z3.Select(has0, q), z3.Select(r.code, q) == z3.Select(code0, q)))))
            return sym.wrap_expr(z3.And(at_index, frame))
        if op in LETTERS:
            c = vc.Contract(key=PO + ":PauliTerm._multiply_by_operator", params={"self": "Any", "op": "Any", "index": "Int"},
                            ensures="TABLE(result, index)", spec={"TABLE": table},
                            doc=f"right-multiplication by {op} on ANY qubit of ANY term: the qubit's letter and the coefficient follow s_a s_b = delta_ab + i eps_abc s_c, every other qubit unchanged")
        else:
            c = vc.Contract(key=PO + ":PauliTerm._multiply_by_operator", params={"self": "Any", "op": "Any", "index": "Int"},
                            raises={"ValueError": "HELD_OTHER(index)"}, raises_exact=False, ensures="True",
                            spec={"HELD_OTHER": lambda index: sym.wrap_expr(z3.Select(state["has"], sym.lift(index)))},
                            doc="a letter outside X, Y, Z on a qubit that already holds a letter is refused with ValueError, never merged silently")
        obs.append(vprop.fn_ob("C03", c, {}, call=lambda ns, a: a["self"]._multiply_by_operator(a["op"], a["index"]), setup=setup, fallback=fb,
                               obid=f"C03.multiply_by_operator[{op if op in LETTERS else 'other letter'}].contract", desc=c.doc, timeout_ms=30000,
                               extra_stubs=lambda: {"PauliTerm": Holder, "warnings": types.SimpleNamespace(warn=lambda *a, **k: None)}))
    return obs


class Cplx:
    """a complex number with symbolic real parts (only what the kernel does with the coefficient: multiply by the constants of COEFF_MAP)"""

    def __init__(self, re, im):
        self.re, self.im = re, im

    def __mul__(self, o):
        if isinstance(o, complex):
            a, b = z3.RealVal(repr(o.real) if o.real != int(o.real) else int(o.real)), z3.RealVal(repr(o.imag) if o.imag != int(o.imag) else int(o.imag))
            return Cplx(self.re * a - self.im * b, self.re * b + self.im * a)
        if isinstance(o, (int, float)):
            return Cplx(self.re * o, self.im * o)
        raise sym.Unsupported("coefficient multiplied by a non-constant")

    __rmul__ = __mul__
