"""C09, the Kronecker chain of `get_sparse_operator` under contract (Engine V over an abstract matrix algebra), for ALL operators, ALL terms, ALL
register widths.

For every term t of the operator with operations on qubits Q_0 < Q_1 < ... < Q_{m-1} (`sorted`), the list handed to `_kronecker_operators` is shown to
fold (left fold of `scipy.sparse.kron`, as `reduce` does) to

      [c_t]  (x)  I(2^Q_0) (x) P_0 (x) I(2^(Q_1 - Q_0 - 1)) (x) P_1 (x) ... (x) P_{m-1} (x) I(2^(n - 1 - Q_{m-1}))

i.e. the coefficient times the tensor-product definition on exactly n qubits with qubit 0 as the leftmost factor, identity blocks for skipped and
trailing qubits, also for the constant term (m = 0: one identity block of n qubits) and for terms that end on the last qubit (no trailing block).
This is the precondition of the stub that stands for `_kronecker_operators` - the caller (the real text) has to establish it for an arbitrary term
(loop invariant over the sorted operations).  Also: a width below the operator's own width raises ValueError, the zero operator gives the all-zero
matrix of dimension 2^n.

Abstract algebra (trusted, the usual laws): kron is associative; the 1 x 1 identity E = I(2^0) is neutral on the right.  That identity BLOCKS equal
Kronecker powers of the 2 x 2 identity (so that the padded chain is the per-qubit definition) is `Matrix.one_kronecker_one` - Lean twin
`identity_block_is_kron_power`.  The assembly of the per-term matrices into one COO matrix (triplet lists, duplicate summation, `nonzero` ordering) is
scipy behaviour and stays bounded (`C09.sparse.enum`).
"""
from __future__ import annotations

import types

import z3

from vfw import core, sym, vcontract as vc, vprop, vrt, vtypes
from vfw.sym import Obj, SSeq, SInt, SObj

ST = "orquestra.quantum.operators._openfermion_utils.sparse_tools"
I = z3.IntSort()
KRON = z3.Function("kron", Obj, Obj, Obj)
IDB = z3.Function("identity_block", I, Obj)             # identity of the given DIMENSION
COEF = z3.Function("scalar_1x1", Obj, Obj)              # the coefficient as the first factor of the chain
PM = z3.Function("pauli_matrix", Obj, Obj)              # pauli_matrix_map[operator_str]
ZEROM = z3.Function("zero_matrix", I, Obj)
QOF = z3.Function("qubit_of_sorted_op", Obj, I, I)      # (term, j) -> qubit of the j-th operation in sorted order
SOF = z3.Function("letter_of_sorted_op", Obj, I, Obj)
NOPS = z3.Function("number_of_ops", Obj, I)
W = z3.Function("padded_chain", Obj, I, Obj)            # (term, j): the chain up to and including the j-th sorted operation
FOLD = z3.Function("left_fold_kron", Obj, Obj)          # value of reduce(kron, list)
APP = z3.Function("list_append", Obj, Obj, Obj)
SINGLE = z3.Function("singleton_list", Obj, Obj)
E = IDB(z3.IntVal(1))
P2 = sym._POW2


def start(t, j):
    """first qubit not yet covered after j sorted operations"""
    return z3.If(j <= 0, z3.IntVal(0), QOF(t, j - 1) + 1)


def axioms():
    c = sym.cur()
    if "kron" in c.axioms_done:
        return
    c.axioms_done.add("kron")
    a, b, d = z3.Consts("a!kr b!kr d!kr", Obj)
    t = z3.Const("t!kr", Obj)
    j = z3.Int("j!kr")
    c.axioms += [
        z3.ForAll([a, b, d], KRON(KRON(a, b), d) == KRON(a, KRON(b, d)), patterns=[KRON(KRON(a, b), d)]),
        z3.ForAll([a], KRON(a, E) == a, patterns=[KRON(a, E)]),
        z3.ForAll([a, b], FOLD(APP(a, b)) == KRON(FOLD(a), b), patterns=[FOLD(APP(a, b))]),
        z3.ForAll([a], FOLD(SINGLE(a)) == a, patterns=[FOLD(SINGLE(a))]),
        # definition of the padded chain, by recursion on the number of sorted operations taken
        z3.ForAll([t], W(t, 0) == E, patterns=[W(t, 0)]),
        z3.ForAll([t, j], z3.Implies(j >= 0, W(t, j + 1) == KRON(KRON(W(t, j), IDB(P2(QOF(t, j) - start(t, j)))), PM(SOF(t, j)))), patterns=[W(t, j + 1)]),
        # sorted operations sit on strictly increasing, non-negative qubits (PauliTerm holds one operation per qubit; `sorted` orders the pairs by qubit)
        z3.ForAll([t, j], z3.Implies(z3.And(0 <= j, j < NOPS(t)), z3.And(QOF(t, j) >= 0, z3.Implies(j >= 1, QOF(t, j) > QOF(t, j - 1)))), patterns=[QOF(t, j)]),
        z3.ForAll([t], NOPS(t) >= 0, patterns=[NOPS(t)]),
        P2(0) == 1,
    ]


class MatList:
    """the Python list `sparse_operators`: only its left Kronecker fold is observable to `reduce(kron, .)`"""

    def __init__(self, e):
        self.e = e

    def __iadd__(self, other):
        if not (isinstance(other, list) and len(other) == 1):
            raise sym.Unsupported("list extended by something else than a one-element list")
        return MatList(APP(self.e, sym.lift(other[0])))

    __add__ = __iadd__


class Sink:
    """values_list / row_list / column_list: the COO assembly is outside this contract"""

    def append(self, x):
        pass


class Term:
    def __init__(self, e):
        self.e = e
        self.coefficient = SObj("Scalar", COEF(e))
        self.operations = SObj("Ops", e)

    def __bool__(self):
        return sym.cur().decide(NOPS(self.e) > 0)

    def __len__(self):
        raise sym.Unsupported("len(term)")


def as_list_term(lst):
    """the z3 list term of a MatList or of a concrete Python list of factors"""
    if isinstance(lst, MatList):
        return lst.e
    if isinstance(lst, list) and lst:
        e = SINGLE(sym.lift(lst[0]))
        for x in lst[1:]:
            e = APP(e, sym.lift(x))
        return e
    raise sym.Unsupported("empty / unknown list of Kronecker factors")


def term_matrix(t, n):
    """[c] (x) padded chain over all operations (x) trailing identity block"""
    m = NOPS(t)
    return KRON(COEF(t), KRON(W(t, m), IDB(P2(sym.lift(n) - start(t, m)))))


def build(fb=None):
    sym.OBJ_SCHEMAS.setdefault("Scalar", {})
    sym.OBJ_SCHEMAS.setdefault("Ops", {})
    sym.OBJ_SCHEMAS.setdefault("Letter", {})
    sym.OBJ_SCHEMAS.setdefault("Mat", {})
    state = {}

    class Operator:
        pass

    def setup(args, ns):
        axioms()
        c = sym.cur()
        op = Operator()
        nterms = c.fresh("n_terms", I)
        c.assume(nterms >= 0)
        tarr = c.fresh("terms", z3.ArraySort(I, Obj))
        op.terms = SSeq(("fun", SInt(nterms), lambda j: Term(z3.Select(tarr, sym.lift(j)))), "list")
        own = c.fresh("operator.n_qubits", I)
        op.n_qubits = SInt(own)
        # the operator's own width covers every operation of every term
        t, j = z3.Int("t!ow"), z3.Int("j!ow")
        c.assume(z3.ForAll([t, j], z3.Implies(z3.And(0 <= t, t < nterms, 0 <= j, j < NOPS(z3.Select(tarr, t))), QOF(z3.Select(tarr, t), j) < own), patterns=[QOF(z3.Select(tarr, t), j)]))
        c.assume(own >= 0)
        args["operator"] = op
        state["op"] = op
        c.inputs["n_terms"] = SInt(nterms)

    def sorted_stub(ops):
        t = ops.e
        return SSeq(("fun", sym.wrap_expr(NOPS(t)), lambda j: (sym.wrap_expr(QOF(t, sym.lift(j))), SObj("Letter", SOF(t, sym.lift(j))))), "list")

    def kronecker_stub(lst):
        """stands for `_kronecker_operators`; its PRECONDITION is the property: the list folds to the coefficient times the padded chain on n qubits"""
        c = sym.cur()
        t = state["term"]
        c.check("get_sparse_operator.call[_kronecker_operators].requires", FOLD(as_list_term(lst)) == term_matrix(t, state["n"]),
                "the list of factors folds to [c] (x) I-padded chain of the term's Pauli matrices on exactly n qubits (qubit 0 leftmost)")
        state["calls"] = state.get("calls", 0) + 1
        return types.SimpleNamespace(tocoo=lambda copy=False: types.SimpleNamespace(data=None), nonzero=lambda: (None, None))

    scipy_stub = types.SimpleNamespace(sparse=types.SimpleNamespace(
        identity=lambda d, dtype=None, format=None: SObj("Mat", IDB(sym.lift(d))),
        csc_matrix=lambda shape, dtype=None: SObj("Mat", ZEROM(sym.lift(shape[0]))),
        coo_matrix=lambda *a, **k: types.SimpleNamespace(tocsc=lambda copy=False: types.SimpleNamespace(eliminate_zeros=lambda: None))))
    numpy_stub = types.SimpleNamespace(concatenate=lambda x: None)

    class PMap:
        def __getitem__(self, k):
            return SObj("Mat", PM(k.e))

    def chain_inv(lst, tensor_factor, k):
        t = state["term"]
        kk = sym.lift(k)
        return sym.wrap_expr(z3.And(FOLD(as_list_term(lst)) == KRON(COEF(t), W(t, kk)), sym.lift(tensor_factor) == start(t, kk)))

    def track_term(term, n):
        """ghost: remember which term / width the current outer iteration is about"""
        state["term"], state["n"] = term.e, n
        return True

    c = vc.Contract(
        key=ST + ":get_sparse_operator", params={"operator": "Any", "n_qubits": "Int"},
        raises={"ValueError": "n_qubits < operator.n_qubits"},
        ensures="implies(len(operator.terms) == 0, IS_ZERO(result, n_qubits))",
        loops={"for#0": {"invariant": "True", "types": {"values_list": lambda n: Sink(), "row_list": lambda n: Sink(), "column_list": lambda n: Sink()}},
               "for#1": {"invariant": "TRACK(qubit_term, n_qubits) and CHAIN(sparse_operators, tensor_factor, k)",
                         "types": {"sparse_operators": lambda n: MatList(sym.cur().fresh("factors", Obj)), "tensor_factor": "Int"}}},
        spec={"CHAIN": chain_inv, "TRACK": track_term, "IS_ZERO": lambda r, n: sym.wrap_expr(r.e == ZEROM(P2(sym.lift(n)))) if isinstance(r, SObj) else False},
        doc="for every term, the factors handed to the Kronecker reduction fold to coefficient (x) identity-padded chain of the term's Pauli matrices on exactly "
            "n qubits, qubit 0 leftmost (loop invariant over the sorted operations; constant terms and terms ending on the last qubit included); "
            "n below the operator's width raises ValueError; the zero operator gives the zero matrix of dimension 2^n")

    class ListOf(list):
        pass

    def list_display(x):
        return x

    def call(ns, a):
        return ns["get_sparse_operator"](a["operator"], a["n_qubits"])

    def extra():
        return {"sorted": sorted_stub, "_kronecker_operators": kronecker_stub, "scipy": scipy_stub, "numpy": numpy_stub, "pauli_matrix_map": PMap(),
                "PauliSum": Operator, "PauliTerm": Operator}
    return [vprop.fn_ob("C09", c, {}, call=call, setup=setup, extra_stubs=extra, fallback=fb, obid="C09.kronecker_chain.contract", desc=c.doc, timeout_ms=60000)] + _expectation_ob(fb)


def _expectation_ob(fb):
    """`get_expectation_value(op, wavefunction, reverse)` = expectation(get_sparse_operator(op', n), amplitudes) with n = log2 of the number of amplitudes and
    op' = reverse_qubit_order(op, n) exactly when `reverse_operator` is set - the quadratic form of the state with THAT matrix, nothing in between"""
    UT = "orquestra.quantum.operators._utils"
    SPARSE = z3.Function("get_sparse_operator", Obj, I, Obj)
    REV = z3.Function("reverse_qubit_order", Obj, I, Obj)
    EXPECT = z3.Function("expectation", Obj, Obj, Obj)
    BITLEN = z3.Function("int.bit_length", I, I)
    sym.OBJ_SCHEMAS["Amp"] = {"shape": lambda self: (types.SimpleNamespace(bit_length=lambda: sym.wrap_expr(BITLEN(z3.Function("number_of_amplitudes", Obj, I)(self.e)))),)}
    sym.OBJ_SCHEMAS["Opr"] = {}
    sym.OBJ_SCHEMAS["Val"] = {}
    NAMP = z3.Function("number_of_amplitudes", Obj, I)

    class WF:
        def __init__(self, e):
            self.amplitudes = SObj("Amp", e)

    def setup(args, ns):
        args["wavefunction"] = WF(sym.cur().fresh("amplitudes", Obj))
    spec = {"RESULT": lambda op, wf, rev: SObj("Val", EXPECT(SPARSE(z3.If(sym.lift(rev), REV(sym.lift(op), BITLEN(NAMP(wf.amplitudes.e)) - 1), sym.lift(op)), BITLEN(NAMP(wf.amplitudes.e)) - 1), wf.amplitudes.e))}
    c = vc.Contract(key=UT + ":get_expectation_value", params={"qubit_op": "Obj:Opr", "wavefunction": "Any", "reverse_operator": "Bool"},
                    ensures="result == RESULT(qubit_op, wavefunction, reverse_operator)", spec=spec,
                    doc="the quadratic form of the state with the sparse matrix of the operator on n = bit_length(number of amplitudes) - 1 qubits; the operator is "
                        "reversed first exactly when reverse_operator is set")
    stubs = lambda: {"get_sparse_operator": lambda op, n_qubits=None: SObj("Mat", SPARSE(sym.lift(op), sym.lift(n_qubits))),
                     "reverse_qubit_order": lambda op, n_qubits=None: SObj("Opr", REV(sym.lift(op), sym.lift(n_qubits))),
                     "expectation": lambda m, a: SObj("Val", EXPECT(sym.lift(m), sym.lift(a)))}
    return [vprop.fn_ob("C09", c, {}, setup=setup, fallback=fb, obid="C09.get_expectation_value.contract", desc=c.doc, extra_stubs=stubs)]
