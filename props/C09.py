"""C09 - operator-to-matrix conversions agree with the operator's definition.

Deductive part (Engine M, real text of operator_utils.py / _utils.py / _pauli_operators.py over exact symbolic
coefficients): for every Pauli string on <= 3 qubits and all complex coefficients, `hermitian_conjugated` denotes the
conjugate transpose (terms and sums); `reverse_qubit_order(op, n)` denotes conjugation by the bit-reversal
permutation and is an involution (n = 3, 4).
Bounded part (native; complete by linearity where stated): the scipy COO assembly of `get_sparse_operator` against the
Kronecker definition for ALL 4^n strings (n <= 3 quick / 4 thorough) with identity padding, complex coefficients,
unsimplified sums with repeated strings and the zero operator; Pauli expansion of ALL real and imaginary matrix units
(n = 1, 2; thorough 3 - complete for those n because the map is real-linear); expectation = quadratic form;
Hermiticity test vs the matrix.
"""
from __future__ import annotations

import itertools

from vfw import core, trig, mcheck, circ_m, src, vprop, replay as rp
from vfw.core import Ob
from props import C03

LEVEL = "other"
OU = "orquestra.quantum.operators._openfermion_utils.operator_utils"
ST = "orquestra.quantum.operators._openfermion_utils.sparse_tools"
UT = "orquestra.quantum.operators._utils"
MANIFEST = {
    "engine": "engine-M",
    "category": "other",
    "technique": "contract-based deductive verification: the Kronecker chain of get_sparse_operator for ALL operators, terms and register widths (Engine V over an abstract matrix algebra with associative kron: for every term the factor list handed to the Kronecker reduction folds to coefficient (x) identity-padded chain of the term's Pauli matrices on exactly n qubits with qubit 0 leftmost - loop invariant over the sorted operations, constant terms and terms ending on the last qubit included; too small n raises; the zero operator gives the zero matrix); postconditions of hermitian_conjugated and reverse_qubit_order ('denotes the conjugate transpose' / 'denotes conjugation by the bit-reversal permutation') generated from the real text over exact symbolic coefficients and decided for all coefficients, exhaustively over Pauli strings on <= 3 qubits; the scipy-based matrix assembly, the numpy trace-product expansion and the expectation value are checked by exhaustive native enumeration (complete by linearity for each listed width, bounded in the width)",
    "text": "The padding / ordering logic of the sparse conversion is proved for all inputs relative to the abstract Kronecker algebra; two clauses are proved for all coefficients on <= 3 qubits; the sparse assembly and Pauli expansion depend on scipy/numpy element-ordering contracts outside the verifier's reach and are decided exhaustively per width (all 4^n strings; all real/imaginary matrix units) - bounded in n, hence level 'other'.",
    "note": "Trusted: exact domain, scipy/numpy executed natively for the bounded parts. Bounds: n <= 3 (4 thorough) for assembly, n <= 2 (3 thorough) for expansion.",
}
TRUSTED = ["vfw/trig.py exact polynomials", "abstract matrix algebra of props/C09chain.py: kron associative, the 1x1 identity neutral on the right, reduce = left fold, identity blocks = Kronecker powers of the 2x2 identity (Lean twin identity_block_kron), sorted() orders a term's operations by strictly increasing qubit", "scipy.sparse / numpy executed natively in the bounded part"]
ASSUMPTIONS = ["scipy's CSC->COO data order and nonzero() order (the assembly relies on them) are exercised, not proved",
               "bounded in register width as listed; complete in coefficients (symbolic part) / by real-linearity (expansion)"]
EXTRA = {"explanation": "symbolic obligations from the current text via Engine M; exhaustive native enumeration for the scipy/numpy parts"}


def _bitrev(n):
    N = 2 ** n
    P = trig.zeros(N, N)
    for i in range(N):
        P[int(format(i, f"0{n}b")[::-1], 2), i] = 1
    return P


def _den(x, mod, n):
    old = C03.N
    C03.N = n
    try:
        return C03.den(x, mod)
    finally:
        C03.N = old


def build(tier, seed):
    obs = []

    def hc():
        mod = C03.load()
        ou = src.shadow_load(OU, {"PauliSum": mod.PauliSum, "PauliTerm": mod.PauliTerm}, rebind={"orquestra.quantum.operators._pauli_operators": mod})
        a, b = C03.gc("a"), C03.gc("b")
        q = 0
        for ops in C03.strings():
            t = mod.PauliTerm(dict(ops) if ops else "I0", a)
            got = ou.hermitian_conjugated(t)
            v, info = mcheck.decide_equal(_den(got, mod, 3), _den(t, mod, 3).adjoint(), use_z3=False)
            q += 1
            if v != "equal":
                return core.refuted("ring-normal-form", f"hermitian_conjugated({C03._name(ops)}) does not denote the conjugate transpose: {info.get('diff')}",
                                    replay=rp.replay_dict(_native_hc(ops), "conjugate transpose"))
            s = mod.PauliSum([t, mod.PauliTerm("Y0*Z2", b), mod.PauliTerm(dict(ops) if ops else "I0", b)])
            got = ou.hermitian_conjugated(s)
            v, info = mcheck.decide_equal(_den(got, mod, 3), _den(s, mod, 3).adjoint(), use_z3=False)
            q += 1
            if v != "equal":
                return core.refuted("ring-normal-form", f"hermitian_conjugated(sum with {C03._name(ops)}) does not denote the conjugate transpose",
                                    replay=rp.replay_dict(_native_hc(ops), "conjugate transpose"))
            if len(s.terms) != 3:
                return core.refuted("shadow-execution", "argument modified")
        return core.discharged("ring-normal-form", queries=q)
    obs.append(Ob("C09.hc", "proof", [OU + ":hermitian_conjugated"], hc,
                  "hermitian_conjugated of a term / sum denotes the conjugate-transposed matrix: all 64 strings on 3 qubits, all complex coefficients", timeout=600))

    def rev():
        mod = C03.load()
        ut = src.shadow_load(UT, {"PauliSum": mod.PauliSum, "PauliTerm": mod.PauliTerm}, rebind={"orquestra.quantum.operators._pauli_operators": mod})
        a, b = C03.gc("a"), C03.gc("b")
        q = 0
        for n in (3, 4):
            P = _bitrev(n)
            for ops in C03.strings():
                s = mod.PauliSum([mod.PauliTerm(dict(ops) if ops else "I0", a), mod.PauliTerm("X0*Z2", b)])
                r = ut.reverse_qubit_order(s, n)
                v, info = mcheck.decide_equal(_den(r, mod, n), P @ _den(s, mod, n) @ P.transpose(), use_z3=False)
                q += 1
                if v != "equal":
                    return core.refuted("ring-normal-form", f"reverse_qubit_order({C03._name(ops)} + X0Z2, n={n}) is not conjugation by the bit-reversal permutation")
                rr = ut.reverse_qubit_order(r, n)
                v, info = mcheck.decide_equal(_den(rr, mod, n), _den(s, mod, n), use_z3=False)
                q += 1
                if v != "equal":
                    return core.refuted("ring-normal-form", "reversing twice is not the identity")
        try:
            ut.reverse_qubit_order(mod.PauliTerm("Z3", 1.0) + mod.PauliTerm("X0", 1.0), 3)
            return core.refuted("shadow-execution", "n smaller than the operator's width accepted")
        except ValueError:
            pass
        return core.discharged("ring-normal-form", queries=q)
    obs.append(Ob("C09.reverse", "proof", [UT + ":reverse_qubit_order"], rev,
                  "reverse_qubit_order(op, n) denotes P op P^T with P the bit-reversal permutation and is an involution (n = 3, 4; all strings on 3 qubits; all coefficients)", timeout=600))

    nmax = 3 if tier == "quick" else 4
    from props import C09chain
    obs.extend(C09chain.build(vprop.enum_ob("x", [], lambda: range(1, 3), _check_sparse, "").run))
    from props import C09reverse
    obs.extend(C09reverse.build(vprop.enum_ob("x", [], lambda: range(3), _check_misc, "").run))
    obs.append(vprop.enum_ob("C09.sparse.enum", [ST + ":get_sparse_operator", ST + ":_kronecker_operators"], lambda: range(1, nmax + 1), _check_sparse,
                             "bounded-exhaustive per width: get_sparse_operator of every one of the 4^n Pauli strings (complex coefficient, identity padding to n..n+2) equals the Kronecker "
                             "definition with qubit 0 leftmost; unsimplified sums with repeated strings, constants, the zero operator; too small n raises", timeout=900))
    obs.append(vprop.enum_ob("C09.sparse.wide.enum", [ST + ":get_sparse_operator", ST + ":_kronecker_operators"], lambda: ([5, 8, 11] if tier == "quick" else [5, 8, 11, 13, 14]), _check_sparse_wide,
                             "bounded: wide registers (5..11 qubits, thorough 14): terms with factors on the first / last / middle / adjacent qubits, identity padding, unsimplified sums "
                             "equal the explicit Kronecker chain", exhaustive=False, timeout=900))
    obs.append(vprop.enum_ob("C09.expand.enum", [UT + ":get_pauliop_from_matrix"], lambda: range(1, 3 if tier == "quick" else 4), _check_expand,
                             "bounded, complete by real-linearity for each n: Pauli expansion of every real and imaginary matrix unit of size 2^n converted back reproduces it", timeout=900))
    obs.append(vprop.enum_ob("C09.misc.enum", [UT + ":get_expectation_value", OU + ":is_hermitian", ST + ":expectation"], lambda: range(3), _check_misc,
                             "bounded: expectation value = <psi| M |psi> (with and without operator reversal); is_hermitian agrees with the matrix for simplified operators", exhaustive=False))
    return obs


def _native_hc(ops):
    return f"""
import numpy as np
from orquestra.quantum.operators import PauliTerm, PauliSum, get_sparse_operator, hermitian_conjugated
t = PauliTerm({dict(ops) or 'I0'!r}, 0.7 - 0.3j) + PauliTerm("Y0*Z2", 0.2 + 1.1j)
A = get_sparse_operator(t, 3).toarray(); B = get_sparse_operator(hermitian_conjugated(t), 3).toarray()
OK = bool(np.allclose(B, A.conj().T)); OBSERVED = f"|hc - adjoint|max = {{abs(B - A.conj().T).max()}}"
"""


def _check_sparse(n):
    import numpy as np
    from orquestra.quantum.operators import PauliSum, PauliTerm, get_sparse_operator
    P = {"I": np.eye(2), "X": np.array([[0, 1], [1, 0]]), "Y": np.array([[0, -1j], [1j, 0]]), "Z": np.array([[1, 0], [0, -1]])}

    def kron(ps, total):
        out = np.eye(1)
        for q in range(total):
            out = np.kron(out, P[ps[q]] if q < len(ps) else np.eye(2))
        return out
    allps = list(itertools.product("IXYZ", repeat=n))
    for i, ps in enumerate(allps):
        ops = {q: p for q, p in enumerate(ps) if p != "I"}
        for scale in (1.0, 1e-9, 1e6):        # small and large operators alike: the matrix is homogeneous in the coefficient (relative comparison)
            c = (0.7 - 0.3j) * (1 + i % 3) * scale
            t = PauliTerm(ops or "I0", c)
            for total in (n, n + 1, n + 2) if scale == 1.0 else (n,):
                if total < t.n_qubits:
                    continue
                M = get_sparse_operator(t, total).toarray()
                if M.shape != (2 ** total, 2 ** total) or not np.allclose(M, c * kron(ps, total), rtol=1e-12, atol=1e-14 * scale):
                    return False, f"{t} on {total} qubits differs from the Kronecker definition (max deviation {abs(M - c * kron(ps, total)).max():.2e})"
        c = (0.7 - 0.3j) * (1 + i % 3)
        t = PauliTerm(ops or "I0", c)
        if ops and max(ops) + 1 == n and n > 1:
            try:
                get_sparse_operator(t, n - 1)
                return False, "n smaller than the operator's width accepted"
            except ValueError:
                pass
        # unsimplified sum: the same string twice with different coefficients, plus a neighbour
        other = allps[(i * 7 + 3) % len(allps)]
        oops = {q: p for q, p in enumerate(other) if p != "I"}
        s = PauliSum([PauliTerm(ops or "I0", 0.5), PauliTerm(oops or "I0", 1j), PauliTerm(ops or "I0", 0.25), PauliTerm("I0", -2.0)])
        want = 0.75 * kron(ps, n) + 1j * kron(other, n) - 2.0 * np.eye(2 ** n)
        if not np.allclose(get_sparse_operator(s, n).toarray(), want):
            return False, f"unsimplified sum {s} differs from the sum of its terms' matrices"
    Z = get_sparse_operator(PauliSum(), n)
    if Z.shape != (2 ** n, 2 ** n) or Z.nnz != 0:
        return False, "zero operator"
    return True, "ok"


def _check_sparse_wide(n):
    """wide registers: terms with a few non-identity factors anywhere in an n-qubit register (first, last, adjacent, far apart), complex coefficients, identity
    padding above the operator's own width, sums; reference = explicit Kronecker chain built here with scipy.sparse.kron (qubit 0 leftmost)"""
    import numpy as np
    import scipy.sparse as sp
    from orquestra.quantum.operators import PauliSum, PauliTerm, get_sparse_operator
    P = {"I": sp.identity(2, format="csc", dtype=complex), "X": sp.csc_matrix([[0, 1], [1, 0]], dtype=complex), "Y": sp.csc_matrix([[0, -1j], [1j, 0]], dtype=complex),
         "Z": sp.csc_matrix([[1, 0], [0, -1]], dtype=complex)}

    def chain(ops, total):
        out = sp.identity(1, format="csc", dtype=complex)
        for q in range(total):
            out = sp.kron(out, P[ops.get(q, "I")], format="csc")
        return out
    strings = [{0: "X"}, {n - 1: "Y"}, {0: "Z", n - 1: "X"}, {1: "Y", 2: "Y"}, {n // 2: "Z"}, {0: "X", n // 2: "Y", n - 1: "Z"}, {n - 2: "X", n - 1: "Y"}, {}]
    for i, ops in enumerate(strings):
        c = (0.5 - 0.25j) * (i + 1)
        t = PauliTerm(dict(ops) or "I0", c)
        for total in sorted({max(t.n_qubits, 1), n, n + 1}):
            if total < t.n_qubits:
                continue
            M = get_sparse_operator(t, total)
            W = c * chain(ops, total)
            if M.shape != W.shape or abs(M - W).max() > 1e-12:
                return False, f"{t} on {total} qubits differs from the Kronecker chain (max deviation {abs(M - W).max() if M.shape == W.shape else 'shape ' + str(M.shape)})"
    s_ = PauliSum([PauliTerm({0: "X", n - 1: "Z"}, 0.5), PauliTerm({n - 1: "Y"}, 1j), PauliTerm({0: "X", n - 1: "Z"}, 0.25), PauliTerm("I0", -2.0)])
    W = 0.75 * chain({0: "X", n - 1: "Z"}, n) + 1j * chain({n - 1: "Y"}, n) - 2.0 * chain({}, n)
    if abs(get_sparse_operator(s_, n) - W).max() > 1e-12:
        return False, f"unsimplified sum on {n} qubits differs from the sum of the Kronecker chains"
    if get_sparse_operator(s_).shape != (2 ** n, 2 ** n):
        return False, "default width is not the operator's own width"
    return True, "ok"


def _check_expand(n):
    import numpy as np
    from orquestra.quantum.operators import get_sparse_operator
    from orquestra.quantum.operators._utils import get_pauliop_from_matrix
    N = 2 ** n
    for a in range(N):
        for b in range(N):
            for unit in (1.0, 1j):
                E = np.zeros((N, N), dtype=complex)
                E[a, b] = unit
                op = get_pauliop_from_matrix(E.tolist())
                back = get_sparse_operator(op, n).toarray() if op.terms else np.zeros((N, N))
                if not np.allclose(back, E, atol=1e-10):
                    return False, f"n={n}: expansion of {unit}*E[{a},{b}] converts back to something else (max err {abs(back - E).max()})"
    rng = np.random.default_rng(n)
    M = rng.normal(size=(N, N)) + 1j * rng.normal(size=(N, N))
    op = get_pauliop_from_matrix(M.tolist())
    if not np.allclose(get_sparse_operator(op, n).toarray(), M, atol=1e-9):
        return False, "random complex matrix does not round-trip"
    return True, "ok"


def _check_misc(mode):
    import numpy as np
    from orquestra.quantum.operators import PauliSum, PauliTerm, get_sparse_operator, get_expectation_value, is_hermitian, hermitian_conjugated, reverse_qubit_order
    from orquestra.quantum.wavefunction import Wavefunction
    rng = np.random.default_rng(5 + mode)
    n = 3
    v = rng.normal(size=2 ** n) + 1j * rng.normal(size=2 ** n)
    v /= np.linalg.norm(v)
    wf = Wavefunction(v)
    ops = [PauliSum([PauliTerm("Z0", 1.0), PauliTerm("X0*Y2", 0.5 - 0.2j), PauliTerm("I0", 0.3)]), PauliTerm("Y1", 2.0), PauliSum([PauliTerm("Z2", 1.0)]), PauliSum()]
    for op in ops:
        M = get_sparse_operator(op, n).toarray()
        e = get_expectation_value(op, wf)
        if abs(e - np.vdot(v, M @ v)) > 1e-10:
            return False, f"expectation of {op} is {e}, quadratic form {np.vdot(v, M @ v)}"
        Mr = get_sparse_operator(reverse_qubit_order(op, n), n).toarray() if op.terms else M
        e2 = get_expectation_value(op, wf, reverse_operator=True)
        if abs(e2 - np.vdot(v, Mr @ v)) > 1e-10:
            return False, "expectation with reverse_operator"
    # the Hermiticity test on MATRICES (sparse and dense): agrees with M == M^H, in particular for non-real diagonals
    for o in [PauliTerm("Z0", 1j), PauliTerm("I0", 2j), PauliTerm("Z1", 1 + 1j), PauliSum([PauliTerm("X0", 1.0), PauliTerm("Z0*Z1", 0.5j)]), PauliTerm("X0", 1j), PauliTerm("Y1", 1.0),
              PauliSum([PauliTerm("Z0", 1.0), PauliTerm("X1", -2.0)]), PauliTerm("I0", 3.0)]:
        Ms = get_sparse_operator(o, 2)
        Md = Ms.toarray()
        truth = bool(np.allclose(Md, Md.conj().T))
        if bool(is_hermitian(Ms)) != truth or bool(is_hermitian(Md)) != truth:
            return False, f"is_hermitian on the sparse / dense matrix of {o} says {bool(is_hermitian(Ms))} / {bool(is_hermitian(Md))}, M == M^H is {truth}"
    # reverse_qubit_order: default width = the operator's own width (not each term's), multi-term operators, explicit wider registers, twice = identity
    for o in [PauliSum([PauliTerm("Z0", 2.0), PauliTerm("X0*Y2", 1.0)]), PauliSum([PauliTerm("Z0", 1.0), PauliTerm("Z1", -0.7)]), PauliSum([PauliTerm("X1", 1.0), PauliTerm("Z0*Y2", 0.5j), PauliTerm("I0", 0.3)]),
              PauliSum([PauliTerm("Y0", 1.0), PauliTerm("Z1", 1.0), PauliTerm("X2", 1.0)]), PauliTerm("X0*Z2", 1.5).copy() + PauliTerm("Y1", 0.0) * 0]:
        nq = o.n_qubits
        for width in (None, nq, nq + 1):
            w = nq if width is None else width
            R = reverse_qubit_order(o) if width is None else reverse_qubit_order(o, width)
            A, B = get_sparse_operator(o, w).toarray(), get_sparse_operator(R, w).toarray()
            perm = [int(format(i, f"0{w}b")[::-1], 2) for i in range(2 ** w)]
            if not np.allclose(B, A[np.ix_(perm, perm)]):
                return False, f"reverse_qubit_order({o}, n_qubits={width}) is not the bit-reversal permutation of the matrix on {w} qubits"
            RR = reverse_qubit_order(R) if width is None else reverse_qubit_order(R, width)
            if not np.allclose(get_sparse_operator(RR, w).toarray(), A):
                return False, f"reversing {o} twice (n_qubits={width}) is not the identity"
    herm = [PauliTerm("X0*Y1", 0.5), PauliSum([PauliTerm("Z0", 1.0), PauliTerm("Y1", -2.0)]), PauliSum(), PauliTerm("I0", 3.0)]
    nonherm = [PauliTerm("X0", 1j), PauliSum([PauliTerm("Z0", 1.0), PauliTerm("Y1", 0.5j)]), PauliTerm("I0", 1 + 1j)]
    for o in herm + nonherm:
        M = get_sparse_operator(o, 2).toarray()
        if is_hermitian(o) != bool(np.allclose(M, M.conj().T)):
            return False, f"is_hermitian({o}) disagrees with the matrix"
        if not np.allclose(get_sparse_operator(hermitian_conjugated(o), 2).toarray(), M.conj().T):
            return False, f"hermitian_conjugated({o}) natively"
    return True, "ok"
