"""C02 - every built-in gate is a valid unitary that keeps its textbook identities.

Deciding method: the real text of `_matrices.py` is executed over Engine M's exact domain
(vfw/trig.py), the gate table is read from the real `_builtin_gates.py`, and each clause of
the property becomes a matrix identity decided for ALL real parameter values (ring normal form
on the torus + z3 nlsat as second opinion).  Native evaluation at sample points validates the
translation (bounded, not counted as proved) and checks "the matrix can be computed".
"""
from __future__ import annotations

import random

from vfw import core, trig, mcheck, gates_m, src
from vfw.core import Ob

LEVEL = "proof"
MANIFEST = {
    "engine": "engine-M",
    "category": "proof",
    "technique": "contract-based deductive verification: matrix identities generated from the real _matrices.py/_builtin_gates.py text by shadow execution over an exact trig-polynomial domain, decided for all real parameters by ring normal form and z3 nlsat; counterexamples replayed natively",
    "text": "Every clause of C02 (dimension, definedness, unitarity, hermitian flag, 10 group laws, 8 fixed relations) is an obligation generated from the current source text and decided for ALL real parameter values; this is a complete decision for trig-polynomial identities, which is the right level because the property quantifies over all reals. Native sampling only validates the translation and checks that the matrix can be computed at all.",
    "note": "Trusted: the exact domain's reading of sympy/numpy functions (Euler, addition formulas), z3, floats-as-reals; float rounding is not modelled. Bounded part: native evaluation at sample points.",
}
TRUSTED = [
    "vfw/trig.py exact domain (Gaussian-rational polynomials over trig atoms) as the meaning of sympy.cos/sin/exp/sqrt/Matrix/*//",
    "Euler's formula, addition and multiple-angle formulas, cos/sin at multiples of pi/4 (generator-side ring rewriting)",
    "z3 5.1 nlsat (second opinion on every non-trivial entry)",
    "CPython executing the shadow-loaded module text",
]
ASSUMPTIONS = [
    "machine arithmetic treated as mathematical: float literals denote their exact binary value, rounding of results is not modelled",
    "np.pi, np.sqrt(2), sympy.sqrt(2), 2**(-0.5), sympy.I/1j denote the exact constants",
    "sympy.simplify is value preserving (used in u3_matrix only)",
    "parameters range over the reals (complex parameters are outside the property)",
]
EXTRA = {"explanation": "obligations are matrix identities generated from the current text of _matrices.py/_builtin_gates.py; "
                        "each is decided for all real parameters by an exact normal form and re-checked by z3 nlsat"}

GROUP_FAMILIES = ["RX", "RY", "RZ", "RH", "PHASE", "CPHASE", "XX", "YY", "ZZ", "XY"]
FN = lambda g: [f"orquestra.quantum.circuits._builtin_gates:{g}"]


def _native_gate_expr(name, k, env, pn):
    if k == 0:
        return f"B.{name}"
    return f"B.{name}(" + ", ".join(repr(env.get(p.strip('_'), 0.0)) for p in pn) + ")"


def _replay_unitary(name, k, pn):
    def code(env):
        return f"""
import numpy as np
from orquestra.quantum.circuits import _builtin_gates as B
g = {_native_gate_expr(name, k, env, pn)}
M = np.array(g.matrix.tolist(), dtype=complex)
d = 2 ** g.num_qubits
OK = bool(M.shape == (d, d) and np.allclose(M.conj().T @ M, np.eye(d), atol=1e-9) and np.allclose(M @ M.conj().T, np.eye(d), atol=1e-9))
OBSERVED = f"shape={{M.shape}} expected {{(d, d)}}; |M^H M - I|max={{abs(M.conj().T @ M - np.eye(M.shape[0])).max() if M.shape[0]==M.shape[1] else 'n/a'}}"
"""
    return code


def _replay_hermitian(name, k, pn):
    def code(env):
        return f"""
import numpy as np
from orquestra.quantum.circuits import _builtin_gates as B
g = {_native_gate_expr(name, k, env, pn)}
M = np.array(g.matrix.tolist(), dtype=complex)
OK = bool((not g.is_hermitian) or np.allclose(M, M.conj().T, atol=1e-9))
OBSERVED = f"is_hermitian={{g.is_hermitian}} |M - M^H|max={{abs(M - M.conj().T).max()}}"
"""
    return code


def _replay_group(name):
    def code(env):
        a, b = env.get("a", 0.3), env.get("b", -1.1)
        return f"""
import numpy as np
from orquestra.quantum.circuits import _builtin_gates as B
A = lambda t: np.array(B.{name}(t).matrix.tolist(), dtype=complex)
a, b = {a!r}, {b!r}
OK = bool(np.allclose(A(a) @ A(b), A(a + b), atol=1e-9) and np.allclose(A(0.0), np.eye(len(A(0.0))), atol=1e-9))
OBSERVED = f"|G(a)G(b)-G(a+b)|max={{abs(A(a) @ A(b) - A(a + b)).max()}} |G(0)-I|max={{abs(A(0.0)-np.eye(len(A(0.0)))).max()}}"
"""
    return code


def _replay_expr(expr_ok, observed="''"):
    def code(env):
        return f"""
import numpy as np
from orquestra.quantum.circuits import _builtin_gates as B
m = lambda g: np.array(g.matrix.tolist(), dtype=complex)
OK = bool({expr_ok})
OBSERVED = {observed}
"""
    return code


def build(tier, seed):
    obs = []
    mat, gates, builtin = gates_m.load()
    table = gates_m.gate_table(builtin, gates)
    if len(table) < 20:
        raise RuntimeError(f"gate table has only {len(table)} entries - extraction broken?")
    I = trig.eye

    def M(name, suffix=""):
        g, ps = gates_m.instantiate(table[name], suffix)
        return g, ps, g.matrix

    for name, entry in table.items():
        _, k, pn = entry

        def dim(name=name):
            try:
                g, ps, m = M(name)
            except trig.Unsupported as e:
                return core.undecided("engine-M", str(e))
            except ZeroDivisionError as e:
                return core.refuted("engine-M", f"{name}: division by zero for every parameter value: {e}")
            d = 2 ** g.num_qubits
            if m.shape == (d, d):
                return core.discharged("shape-evaluation", sample={"shape": list(m.shape), "num_qubits": g.num_qubits})
            return core.refuted("shape-evaluation", f"{name}.matrix has shape {m.shape}, declared num_qubits={g.num_qubits} needs {(d, d)}",
                                replay=__import__("vfw.replay", fromlist=["x"]).replay_dict(_replay_unitary(name, table[name][1], table[name][2])({}), f"square of dimension {d}"))
        obs.append(Ob(f"C02.{name}.dim", "proof", FN(name), dim,
                      f"{name}: factory evaluates for all real parameters (every divisor is a unit) and is square of dimension 2**num_qubits"))

        def unitary(name=name, k=k, pn=pn):
            def b():
                g, ps, m = M(name)
                d = m.rows
                return m.adjoint() @ m, I(d)
            out = mcheck.identity_outcome(b, _replay_unitary(name, k, pn), "M^H M = I")
            if out.status != "discharged":
                return out

            def b2():
                g, ps, m = M(name)
                return m @ m.adjoint(), I(m.rows)
            out2 = mcheck.identity_outcome(b2, _replay_unitary(name, k, pn), "M M^H = I")
            out2.queries += out.queries
            return out2
        obs.append(Ob(f"C02.{name}.unitary", "proof", FN(name) + [f"{gates_m.MAT}:{entry[0].matrix_factory.__name__ if k == 0 else ''}"][:1],
                      unitary, f"{name}: M^H M = I and M M^H = I for all real parameters"))

        g0, _ = gates_m.instantiate(entry)
        if g0.is_hermitian:
            def herm(name=name, k=k, pn=pn):
                def b():
                    g, ps, m = M(name)
                    return m, m.adjoint()
                return mcheck.identity_outcome(b, _replay_hermitian(name, k, pn), "M = M^H (flagged is_hermitian)")
            obs.append(Ob(f"C02.{name}.hermitian", "proof", FN(name), herm,
                          f"{name} is flagged is_hermitian: M = M^H for all real parameters"))

    # ---- special parameter points and re-parametrisation: flags and dagger stay consistent with the matrix
    for name, entry in table.items():
        _, k, pn = entry
        if k == 0:
            continue

        def special(name=name, k=k, pn=pn):
            proto = table[name][0]
            q = 0
            for pt in (0, 0.0, 1, -1, -2, trig.Poly.const(0)):
                g = proto(*([pt] * k))
                m = g.matrix
                d = 2 ** g.num_qubits
                checks = [("M^H M = I", m.adjoint() @ m, I(d)), ("dagger.matrix = M^H", g.dagger.matrix, m.adjoint())]
                if g.is_hermitian:
                    checks.append(("M = M^H (flagged is_hermitian)", m, m.adjoint()))
                vs = tuple(trig.Poly.var(f"s{i}") for i in range(k))
                g2 = g.replace_params(vs)
                m2 = g2.matrix
                checks += [("re-parametrised: same matrix as the gate built directly", m2, proto(*vs).matrix), ("re-parametrised: dagger.matrix = M^H", g2.dagger.matrix, m2.adjoint())]
                if g2.is_hermitian:
                    checks.append(("re-parametrised gate flagged is_hermitian: M = M^H", m2, m2.adjoint()))
                for what, a, b in checks:
                    v, info = mcheck.decide_equal(a, b, use_z3=False)
                    q += 1
                    if v != "equal":
                        code = f"""
import numpy as np
from orquestra.quantum.circuits import _builtin_gates as B
m = lambda g: np.array(g.matrix.tolist(), dtype=complex)
g = B.{name}(*([{pt if not isinstance(pt, trig.Poly) else 0!r}] * {k}))
g2 = g.replace_params(tuple(0.3 + 0.4 * i for i in range({k})))
ok = np.allclose(m(g.dagger), m(g).conj().T) and np.allclose(m(g2.dagger), m(g2).conj().T) and np.allclose(m(g2), m(B.{name}(*tuple(0.3 + 0.4 * i for i in range({k})))))
for h in (g, g2):
    ok = ok and ((not h.is_hermitian) or np.allclose(m(h), m(h).conj().T))
OK = bool(ok)
OBSERVED = f"is_hermitian flags {{g.is_hermitian}}, {{g2.is_hermitian}}; |dagger - adjoint| {{abs(m(g.dagger) - m(g).conj().T).max()}}, {{abs(m(g2.dagger) - m(g2).conj().T).max()}}"
"""
                        return core.refuted("ring-normal-form", f"{name} built at parameter value {pt!r}: {what} fails", cex={"gate": name, "built_at": repr(pt)},
                                            replay=__import__("vfw.replay", fromlist=["x"]).replay_dict(code, what), queries=q)
            return core.discharged("ring-normal-form", queries=q)
        obs.append(Ob(f"C02.{name}.special_points", "proof", FN(name) + ["orquestra.quantum.circuits._builtin_gates:make_parametric_gate_prototype", "orquestra.quantum.circuits._gates:MatrixFactoryGate.replace_params"],
                      special, f"{name} built at the special parameter values 0, 0.0, 1, -1, -2: unitary, dagger = adjoint, hermitian flag consistent, and after replace_params "
                               f"to generic parameters the gate equals the directly built one (matrix, dagger, flag) for all real parameters"))

    for name in GROUP_FAMILIES:
        if name not in table:
            def missing(name=name):
                return core.refuted("gate-table", f"one-parameter family {name} is missing from the gate table")
            obs.append(Ob(f"C02.{name}.group", "proof", FN(name), missing, "family present"))
            continue

        def group(name=name):
            def b():
                proto = table[name][0]
                a, bb = trig.Poly.var("a"), trig.Poly.var("b")
                return proto(a).matrix @ proto(bb).matrix, proto(a + bb).matrix
            out = mcheck.identity_outcome(b, _replay_group(name), "G(a) G(b) = G(a+b)")
            if out.status != "discharged":
                return out

            def b0():
                proto = table[name][0]
                m = proto(trig.Poly.const(0)).matrix
                return m, I(m.rows)
            out2 = mcheck.identity_outcome(b0, _replay_group(name), "G(0) = I")
            out2.queries += out.queries
            return out2
        obs.append(Ob(f"C02.{name}.group", "proof", FN(name), group,
                      f"{name}(a) * {name}(b) = {name}(a+b) for all real a, b and {name}(0) = I"))

    def rel(idname, desc, fb, expr_ok, fns):
        def run():
            return mcheck.identity_outcome(fb, _replay_expr(expr_ok), desc)
        obs.append(Ob(f"C02.rel.{idname}", "proof", [f for n in fns for f in FN(n)], run, desc))

    mm = lambda n: M(n)[2]
    rel("S2", "S*S = Z", lambda: (mm("S") @ mm("S"), mm("Z")), "np.allclose(m(B.S) @ m(B.S), m(B.Z))", ["S", "Z"])
    rel("T2", "T*T = S", lambda: (mm("T") @ mm("T"), mm("S")), "np.allclose(m(B.T) @ m(B.T), m(B.S))", ["T", "S"])
    rel("SX2", "SX*SX = X", lambda: (mm("SX") @ mm("SX"), mm("X")), "np.allclose(m(B.SX) @ m(B.SX), m(B.X))", ["SX", "X"])
    rel("HZH", "H*Z*H = X", lambda: (mm("H") @ mm("Z") @ mm("H"), mm("X")), "np.allclose(m(B.H) @ m(B.Z) @ m(B.H), m(B.X))", ["H", "Z", "X"])
    rel("CNOT", "CNOT = diag(I2, X)", lambda: (mm("CNOT"), trig.SMat.diag(I(2), mm("X"))),
        "np.allclose(m(B.CNOT), np.block([[np.eye(2), np.zeros((2,2))],[np.zeros((2,2)), m(B.X)]]))", ["CNOT", "X"])
    rel("CZ", "CZ = diag(I2, Z)", lambda: (mm("CZ"), trig.SMat.diag(I(2), mm("Z"))),
        "np.allclose(m(B.CZ), np.block([[np.eye(2), np.zeros((2,2))],[np.zeros((2,2)), m(B.Z)]]))", ["CZ", "Z"])

    def swap_spec():
        s = trig.zeros(4, 4)
        for a in (0, 1):
            for b in (0, 1):
                s[2 * b + a, 2 * a + b] = 1  # |a b> -> |b a>
        return mm("SWAP"), s
    rel("SWAP", "SWAP |a b> = |b a> for the four basis states", swap_spec,
        "all(abs(m(B.SWAP)[2*b+a, 2*a+b] - 1) < 1e-12 for a in (0,1) for b in (0,1))", ["SWAP"])
    rel("Delay", "Delay(d) = I for all d", lambda: (M("Delay")[2], I(2)), "np.allclose(m(B.Delay(0.7)), np.eye(2))", ["Delay"])

    # ---- translation validation + "the matrix can be computed" natively (bounded)
    def native(name, entry):
        def run():
            import numpy as np
            import warnings
            warnings.filterwarnings("ignore")
            from orquestra.quantum.circuits import _builtin_gates as RB
            rng = random.Random(seed * 1000 + hash(name) % 997)
            _, k, pn = entry
            n_pts = 1 if k == 0 else 5
            cases = 0
            import math
            import sympy
            special = []
            if k:
                for base in (math.pi / 2, math.pi, -math.pi / 2, 3 * math.pi / 2, 2 * math.pi, -math.pi):
                    special += [math.nextafter(base, 0.0), math.nextafter(base, 2 * base), base - 1e-10 * (1 if base > 0 else -1), base]
                special += [1.5707963267, 3.14159265358, 6.283185307, 4.0, 9.0, -7.5, 1e-12, -1e-12, 0.0]
            points = []
            for pt in range(n_pts):
                # the last points are large / integer-valued: numeric-only code paths (angle wrapping, int vs float) differ there
                lo, hi = ((-3, 3), (-3, 3), (-3, 3), (6.5, 14.0), (-14.0, -6.5))[pt]
                points.append({p.strip("_"): (round(rng.uniform(lo, hi), 3) if pt != 2 else rng.randint(-9, 9)) for p in pn})
            for j, v in enumerate(special):
                # values at, and one ulp / 1e-10 on either side of, multiples of pi/2, and beyond one turn: float-only code paths
                points.append({p.strip("_"): (v if i == j % max(k, 1) else 0.3 + 0.4 * i) for i, p in enumerate(pn)})
            try:
                gm, ps, m = M(name)
            except Exception:
                m = None
            syms = sympy.symbols("p0:%d" % max(k, 1))
            for env in points:
                vals = [env[p.strip("_")] for p in pn]
                try:
                    g = getattr(RB, name) if k == 0 else getattr(RB, name)(*vals)
                    real = np.array(g.matrix.tolist(), dtype=complex)
                except Exception as e:
                    rep = __import__("vfw.replay", fromlist=["x"]).replay_dict(_replay_unitary(name, k, pn)(env), "matrix can be computed")
                    return core.bounded_fail(f"{name}.matrix cannot be computed natively: {type(e).__name__}: {str(e)[:200]}",
                                             cex={"parameters": env}, replay=rep, finding_key=f"{name}.matrix raises {type(e).__name__}")
                cases += 1
                if k:
                    ref = np.array(getattr(RB, name)(*syms[:k]).matrix.subs(dict(zip(syms, vals))).evalf(30).tolist(), dtype=complex)
                else:
                    ref = real
                mine = ref if m is None else np.array([[x.evalf_at({p.strip("_"): env[p.strip("_")] for p in pn}) for x in row] for row in m.m], dtype=complex)
                d = real.shape[0]
                bad = None
                if real.shape != ref.shape or not np.allclose(real, ref, atol=1e-9):
                    bad = "the symbolic matrix of the same gate evaluated there"
                elif real.shape != mine.shape or not np.allclose(real, mine, atol=1e-9):
                    bad = "the matrix proved unitary / group law (Engine M) evaluated there"
                elif not np.allclose(real.conj().T @ real, np.eye(d), atol=1e-9):
                    bad = "a unitary matrix"
                if bad:
                    code = f"""
import numpy as np, sympy
from orquestra.quantum.circuits import _builtin_gates as B
vals = {vals!r}
syms = sympy.symbols('p0:%d' % len(vals))
num = np.array(B.{name}(*vals).matrix.tolist(), dtype=complex)
symb = np.array(B.{name}(*syms).matrix.subs(dict(zip(syms, vals))).evalf(30).tolist(), dtype=complex)
OK = bool(np.allclose(num, symb, atol=1e-9))
OBSERVED = f"matrix at numeric parameters differs from the symbolic matrix evaluated there by {{abs(num - symb).max()}}"
"""
                    rep = __import__("vfw.replay", fromlist=["x"]).replay_dict(code, "numeric and symbolic evaluation agree")
                    return core.bounded_fail(f"{name}: the matrix computed for the numeric parameters {env} differs from {bad}: numeric-only code path?", cex={"parameters": env},
                                             replay=rep, finding_key=f"{name}.numeric-vs-symbolic")
            return core.bounded_pass(f"{name}: native factory value equals Engine M's value at {cases} sample point(s)", cases,
                                     backend="native-sampling")
        return run
    for name, entry in table.items():
        obs.append(Ob(f"C02.{name}.native", "bounded", FN(name), native(name, entry),
                      f"{name}: the real factory can be evaluated natively and agrees with Engine M at sample points (translator validation)"))
    from vfw import lean
    obs.append(lean.prelude_ob('C02', 'Euler, addition / multiple-angle formulas, values at multiples of pi/4, sqrt 2'))
    return obs
