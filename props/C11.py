"""C11 - operators and result artefacts survive dict, file and text round trips.

Text and JSON formatting (str(complex), complex(str), regex splitting, json) are outside the VC generators' fragment.
What is decided:
  * Engine F (all inputs): the converters and to_dict/from_dict methods modify nothing;
  * Engine M: with GENERIC SYMBOLIC coefficients the dictionary round trip of an operator keeps every term's Pauli
    string (all 64 strings on 3 qubits, arbitrary frozenset order) - the structural half of the operator round trip;
  * exhaustive enumeration (bounded): operator dict / JSON / file round trips with real, complex, zero-imaginary,
    negative-zero, tiny and huge coefficients and multi-digit qubit indices; print -> parse of terms and sums incl.
    constants, zero coefficients and the empty sum; every persisted artefact (measurements, expectation values with
    0 / 1 / several correlation and covariance frames in every None-combination, real and complex; parities; value
    estimates; lists; nmeas estimates; layers; connectivity; arrays) through its save / load pair, path and open file.
"""
from __future__ import annotations

import itertools

from vfw import core, frame, mcheck, src, trig, vprop
from vfw.core import Ob
from props import C03

LEVEL = "other"
IO = "orquestra.quantum.operators._io"
MANIFEST = {
    "engine": "engine-F",
    "category": "other",
    "technique": "contract-based deductive verification of ExpectationValues.to_dict / from_dict for ANY number of correlation / covariance frames and every None / empty / present combination (Engine V, loop invariants: a frame list is absent iff the attribute is None, otherwise converted frame by frame with the same length - [] stays []); contract-based verification: frame conditions of the converters by static ownership analysis; the structural operator round trip decided on symbolic coefficients (Engine M); value-level round-trip postconditions of every persisted artefact by exhaustive enumeration of the stated case families through real JSON text and files (bounded stand-in: formatting / parsing code is outside the VC generator's fragment)",
    "text": "Round trips are decided case by case over families chosen to cover every branch of the formats (optional keys, None / empty / several frames, real vs complex, zero and negative-zero parts, multi-digit indices, constants, empty sums). Exhaustive for the families, not a proof over all values: level 'other'.",
    "note": "Trusted: json / rapidjson / str(complex) / complex(str) executed natively; Engine F. Bounds: the stated case families.",
}
TRUSTED = ["convert_array_to_dict / convert_dict_to_array uninterpreted in the ExpectationValues contracts (their own round trip is enumerated)", "CPython json, str(complex), complex(str); numpy", "vfw/frame.py", "vfw/trig.py for the symbolic-coefficient structural check"]
ASSUMPTIONS = ["bounded to the enumerated coefficient / shape families (listed in the evidence samples)"]
EXTRA = {"explanation": "each artefact goes through its real save/load or to_dict/from_dict pair and is compared with the original"}
F_OPS = [IO + ":convert_op_to_dict", IO + ":convert_dict_to_op", IO + ":get_pauli_strings",
         "orquestra.quantum.utils:convert_array_to_dict", "orquestra.quantum.utils:convert_dict_to_array",
         "orquestra.quantum.measurements.expectation_values:ExpectationValues.to_dict", "orquestra.quantum.measurements.expectation_values:ExpectationValues.from_dict",
         "orquestra.quantum.measurements.parities:Parities.to_dict", "orquestra.quantum.measurements.parities:Parities.from_dict",
         "orquestra.quantum.circuits.layouts:CircuitLayers.to_dict", "orquestra.quantum.circuits.layouts:CircuitConnectivity.to_dict",
         "orquestra.quantum.operators._pauli_operators:PauliTerm.__repr__", "orquestra.quantum.operators._pauli_operators:PauliSum.__repr__"]
COEFFS = [1, -1, 2.5, -0.75, 1e-07, 3e-9, 123456789.125, 1j, -2j, 0.5 + 0.25j, -1.5 - 2e-07j, complex(2.0, 0.0), complex(-3.0, -0.0), 0, 0.0, -0.0, 0j, 7e14]
# full-precision mantissas at every other decade (a formatter that trims digits relative to the magnitude moves large coefficients by more than the
# library's absolute 1e-8 tolerance; one that trims absolutely destroys small ones): real, imaginary and mixed
PRECISE = [m * 10.0 ** e for e in range(-12, 15, 2) for m in (1.2345678901234567, -9.8765432109876543)]
COEFFS = COEFFS + PRECISE + [complex(0, x) for x in PRECISE[1::4]] + [complex(x, -y) for x, y in zip(PRECISE[0::5], PRECISE[3::5])]
STRINGS = ["Z0", "X0*Y1", "Y3*Z12", "X10*X11*Z2", "Z0*Z1*Z2*Z3", "Y7"]


def _same_matrix(a, b, n=None):
    import numpy as np
    from orquestra.quantum.operators import get_sparse_operator
    n = n or max(a.n_qubits, b.n_qubits, 1)
    if n > 9:
        # wide operators: compare term dictionaries instead of 2^n matrices
        da = {t.operations: t.coefficient for t in (a.simplify() if hasattr(a, "simplify") else a).terms}
        db = {t.operations: t.coefficient for t in (b.simplify() if hasattr(b, "simplify") else b).terms}
        keys = set(da) | set(db)
        return all(abs(da.get(k, 0) - db.get(k, 0)) <= 1e-8 + 1e-12 * abs(da.get(k, 0)) for k in keys)
    return np.allclose(get_sparse_operator(a, n).toarray(), get_sparse_operator(b, n).toarray(), rtol=1e-12, atol=1e-8)


def _check_op(mode):
    import io
    import json
    import os
    import tempfile
    from orquestra.quantum.operators import PauliSum, PauliTerm, convert_dict_to_op, convert_op_to_dict, load_operator, save_operator, load_operator_set, save_operator_set
    terms = [PauliTerm(s, c) for s, c in zip(itertools.cycle(STRINGS), COEFFS)] + [PauliTerm("I0", 2.0), PauliTerm("I0", -1j)]
    if mode == 0:
        # single terms and sums through dict and real JSON text
        for t in terms:
            for op in (t, PauliSum([t]), PauliSum([t, PauliTerm("X1", 0.5), PauliTerm("I0", 1.0)])):
                d = convert_op_to_dict(op)
                back = convert_dict_to_op(json.loads(json.dumps(d)))
                if not _same_matrix(op, back):
                    return False, f"{op} -> dict -> JSON -> operator = {back} denotes another matrix"
                sop = op.simplify() if isinstance(op, PauliSum) else PauliSum([op]).simplify()
                got = {tt.operations: tt.coefficient for tt in back.terms}
                want = {tt.operations: tt.coefficient for tt in sop.terms}
                if got != want:
                    return False, f"terms of the simplified operator not preserved exactly: {want} -> {got}"
        empty = PauliSum()
        if len(convert_dict_to_op(json.loads(json.dumps(convert_op_to_dict(empty)))).terms) != 0:
            return False, "empty sum does not round-trip through its dictionary"
        return True, "ok"
    if mode == 1:
        # print -> parse
        for t in terms:
            s = str(t)
            try:
                back = PauliTerm(s)
            except Exception as e:
                return False, f"printed term {s!r} cannot be parsed back: {type(e).__name__}: {e}"
            if not _same_matrix(PauliSum([t]), PauliSum([back])):
                return False, f"printed term {s!r} parses back as {back} (another matrix)"
        sums = [PauliSum(terms[:3]), PauliSum([terms[3], terms[9], terms[18]]), PauliSum([PauliTerm("I0", 2.0)]), PauliSum(), PauliSum([PauliTerm("Z0", 0.0), PauliTerm("X1", -1e-07)]),
                PauliSum([PauliTerm("Z0", 0)]), PauliSum([PauliTerm("Y3*Z12", -0.5 - 0.25j), PauliTerm("I0", 1 + 1j), PauliTerm("X0", 3e-9)])]
        for sm in sums:
            s = str(sm)
            try:
                back = PauliSum(s)
            except Exception as e:
                return False, f"printed sum {s!r} cannot be parsed back: {type(e).__name__}: {e}"
            if not _same_matrix(sm, back):
                return False, f"printed sum {s!r} parses back as {back} (another matrix)"
        return True, "ok"
    tmp = tempfile.mkdtemp()
    try:
        ops = [PauliSum(terms[:4]), PauliSum([terms[7], terms[10]]), PauliSum([PauliTerm("I0", 2.5)]), PauliSum()]
        for k, op in enumerate(ops):
            p = os.path.join(tmp, f"op{k}.json")
            save_operator(op, p)
            if not _same_matrix(op, load_operator(p)):
                return False, f"save_operator / load_operator changed {op}"
            with open(p) as fh:
                if not _same_matrix(op, load_operator(fh)):
                    return False, "load_operator from an open file"
        p = os.path.join(tmp, "set.json")
        save_operator_set(ops, p)
        back = load_operator_set(p)
        if len(back) != len(ops) or not all(_same_matrix(a, b) for a, b in zip(ops, back)):
            return False, "operator list does not round-trip"
    finally:
        import shutil
        shutil.rmtree(tmp, ignore_errors=True)
    return True, "ok"


def _check_artefacts(mode):
    import io
    import json
    import os
    import tempfile
    import numpy as np
    from orquestra.quantum.circuits.layouts import CircuitConnectivity, CircuitLayers, load_circuit_connectivity, load_circuit_layers, save_circuit_connectivity, save_circuit_layers
    from orquestra.quantum.measurements import ExpectationValues, Measurements, Parities
    from orquestra.quantum.measurements.expectation_values import load_expectation_values, save_expectation_values
    from orquestra.quantum.measurements.parities import load_parities, save_parities
    from orquestra.quantum.utils import ValueEstimate, convert_array_to_dict, convert_dict_to_array, load_list, load_nmeas_estimate, load_value_estimate, save_list, \
        save_nmeas_estimate, save_value_estimate
    tmp = tempfile.mkdtemp()
    P = lambda n: os.path.join(tmp, n)
    try:
        if mode == 0:
            rng = np.random.default_rng(3)
            for shape in ((1,), (3,), (2, 2), (1, 3), (2, 1, 2)):
                for arr in (rng.normal(size=shape), rng.normal(size=shape) + 1j * rng.normal(size=shape), np.zeros(shape), np.zeros(shape, dtype=complex), 1j * np.ones(shape),
                            np.arange(int(np.prod(shape))).reshape(shape), (3e-9 + 4e-9j) * np.ones(shape), 1e-12j * rng.normal(size=shape) + rng.normal(size=shape),
                            1e-300 * np.ones(shape), (1e15 + 1e-9j) * np.ones(shape),
                            # imaginary (real) parts far below the other part - 1e-15, 1e-20, 1e-300 - are data, not round-off: they come back exactly
                            rng.normal(size=shape) + 1e-15j * rng.normal(size=shape), (1.0 + 1e-20j) * np.ones(shape), (1.0 + 1e-300j) * np.ones(shape), (1e-17 + 1j) * np.ones(shape),
                            rng.normal(size=shape).astype(np.float32), np.arange(int(np.prod(shape)), dtype=np.int32).reshape(shape), (2.0 + 0j) * np.ones(shape)):
                    back = convert_dict_to_array(json.loads(json.dumps(convert_array_to_dict(arr))))
                    if back.shape != arr.shape or not np.array_equal(back, arr):
                        return False, f"array {arr.tolist()} -> dict -> array = {back.tolist()}"
            return True, "ok"
        if mode == 1:
            vals_r, vals_c = np.array([0.5, -1.25, 0.0]), np.array([0.5 + 1j, -1.25, 2j])
            fr_r = [np.array([[1.0, 0.5, 0], [0.5, 1, 0], [0, 0, 1]])]
            fr_2 = [np.eye(2), np.array([[2.0]])]
            fr_c = [np.array([[1, 1j, 0], [-1j, 1, 0], [0, 0, 1]])]
            fr_t = [np.array([[3e-9 + 4e-9j, 1e-10j], [-1e-10j, 2e-9]])]     # e.g. estimator covariances for ~1e8 shots
            frames = [None, [], fr_r, fr_2, fr_c, fr_t]
            for vals in (vals_r, vals_c, np.array([1.5])):
                for corr, cov in itertools.product(frames, repeat=2):
                    ev = ExpectationValues(vals, corr, cov)
                    for variant in ("dict", "file", "open"):
                        if variant == "dict":
                            back = ExpectationValues.from_dict(json.loads(json.dumps(ev.to_dict())))
                        else:
                            save_expectation_values(ev, P("ev.json"))
                            if variant == "file":
                                back = load_expectation_values(P("ev.json"))
                            else:
                                with open(P("ev.json")) as fh:
                                    back = load_expectation_values(fh)
                        ok = np.array_equal(back.values, ev.values)
                        for a, b in ((back.correlations, ev.correlations), (back.estimator_covariances, ev.estimator_covariances)):
                            if (a is None) != (b is None):
                                ok = False
                            elif a is not None:
                                ok = ok and len(a) == len(b) and all(np.array_equal(x, y) for x, y in zip(a, b))
                        if not ok or not (back == ev):
                            return False, f"ExpectationValues(values={vals.tolist()}, correlations={'None' if corr is None else len(corr)} frames, covariances={'None' if cov is None else len(cov)} frames) " \
                                          f"came back via {variant} with correlations={'None' if back.correlations is None else len(back.correlations)}, covariances={'None' if back.estimator_covariances is None else len(back.estimator_covariances)}"
            return True, "ok"
        if mode == 2:
            for bits in ([], [(0, 1, 0)], [(1,), (0,), (1,)], [(0, 1, 1, 0, 1, 0, 1, 1, 0, 0, 1)] * 3 + [(1,) * 11]):
                m = Measurements(list(bits))
                m.save(P("m.json"))
                with open(P("m.json")) as fh:
                    back = Measurements.load_from_file(fh)
                back2 = Measurements.load_from_file(P("m.json"))
                if back.bitstrings != list(bits) or back2.bitstrings != list(bits) or any(not isinstance(b, tuple) for b in back.bitstrings):
                    return False, f"Measurements {bits} came back as {back.bitstrings}"
            for par in (Parities(np.array([[3, 1], [0, 4]])), Parities(np.array([[3, 1], [0, 4]]), [np.array([[[4, 0], [2, 2]], [[2, 2], [4, 0]]])]),
                        Parities(np.array([[5, 0]]), [np.array([[[5, 0]]]), np.array([[[1, 4]]])])):
                save_parities(par, P("p.json"))
                back = load_parities(P("p.json"))
                back2 = Parities.from_dict(json.loads(json.dumps(par.to_dict())))
                for b in (back, back2):
                    if not np.array_equal(b.values, par.values) or (b.correlations is None) != (par.correlations is None) or \
                            (par.correlations is not None and not all(np.array_equal(x, y) for x, y in zip(b.correlations, par.correlations))):
                        return False, "Parities do not round-trip"
            return True, "ok"
        for v, prec in ((1.5, None), (-0.25, 1e-3), (0.0, 0.0), (3e-9, 2.0), (np.float64(1.5), np.float64(1e-3)), (1.5, np.int64(2)), (np.float32(0.5), np.float32(0.25)), (2, 1),
                        (1.5, np.array(0.125)), (np.int64(3), None), (1.5, np.int32(5)), (1e300, 1e-300)):
            ve = ValueEstimate(v, prec)
            save_value_estimate(ve, P("v.json"))
            back = load_value_estimate(P("v.json"))
            back2 = ValueEstimate.from_dict(json.loads(json.dumps(ve.to_dict())))
            for b in (back, back2):
                if b != ve or float(b) != float(ve) or b.precision != ve.precision:
                    return False, f"ValueEstimate({v}, {prec}) came back as ({float(b)}, {b.precision})"
        for lst in ([], [1, 2.5, -3], ["a", "b"], [[1, 2], [3]], [0.1, None, True]):
            save_list(lst, P("l.json"))
            with open(P("l.json")) as fh:
                if load_list(fh) != lst or load_list(P("l.json")) != lst:
                    return False, f"list {lst} does not round-trip"
        for frame_meas in (None, np.array([10.0, 20.5]), np.array([0.0])):
            save_nmeas_estimate(123.5, 7, P("n.json"), frame_meas)
            K, n, fm = load_nmeas_estimate(P("n.json"))
            if K != 123.5 or n != 7 or (fm is None) != (frame_meas is None) or (fm is not None and not np.array_equal(fm, frame_meas)):
                return False, f"nmeas estimate with frame_meas={frame_meas} came back as {(K, n, fm)}"
        import itertools as it
        groups = [(0, 1), (2, 3), (4, 5), (10, 11), (5, 0), (3, 2, 7)]
        layer_sets = [[[(0, 1), (2, 3)], [(1, 2)], []], [], [[]], [[(0, 1), (0, 1)], [(0, 1)], [(0, 1)]], [[(2, 3)], [(2, 3)], [], []]]
        for perm in it.permutations(groups, 3):          # every order of the qubit groups inside a layer, every order of layers (file order is the data)
            layer_sets.append([list(perm), list(perm[::-1])[:2], [perm[1]]])
        try:
            from orquestra.quantum.circuits.layouts import build_circuit_layers_and_connectivity
            for topo in ("sycamore", "nearest-neighbor", "line", "star", "graph"):
                try:
                    _, lay = build_circuit_layers_and_connectivity(3, 4, topo) if topo == "sycamore" else build_circuit_layers_and_connectivity(4, topology=topo)
                    layer_sets.append([list(l) for l in lay.layers])
                except Exception:
                    pass
        except ImportError:
            pass
        for ls in layer_sets:
            layers = CircuitLayers([list(l) for l in ls])
            save_circuit_layers(layers, P("lay.json"))
            with open(P("lay.json")) as fh:
                bl = load_circuit_layers(fh)
            bl2 = load_circuit_layers(P("lay.json"))
            for b in (bl, bl2):
                if b.layers != [list(l) for l in ls] or any(not isinstance(x, tuple) for l in b.layers for x in l):
                    return False, f"circuit layers {ls} came back as {b.layers}"
            if CircuitLayers.from_dict(layers.to_dict()).layers != [list(l) for l in ls]:
                return False, f"CircuitLayers dict round trip changed {ls}"
        for pairs in ([(0, 1), (1, 2), (10, 11)], [(10, 11), (1, 2), (0, 1)], [(5, 0), (4, 1), (3, 2)], [], [(2, 1)],
                      [(0, 1), (1, 2), (0, 1)], [(0, 1), (0, 1)], [(0, 1), (1, 0), (0, 1), (2, 3), (2, 3)], [(3, 3)]):          # a list is a list: repeated connections stay repeated
            conn = CircuitConnectivity(list(pairs))
            save_circuit_connectivity(conn, P("con.json"))
            with open(P("con.json")) as fh:
                bc = load_circuit_connectivity(fh)
            if bc.connectivity != conn.connectivity or load_circuit_connectivity(P("con.json")).connectivity != list(pairs) or any(not isinstance(x, tuple) for x in bc.connectivity):
                return False, f"connectivity {pairs} came back as {bc.connectivity}"
        return True, "ok"
    finally:
        import shutil
        shutil.rmtree(tmp, ignore_errors=True)


def build(tier, seed):
    obs = []
    fb = vprop.enum_ob("x", [], lambda: range(3), _check_op, "").run
    from props import C11ev
    obs.extend(C11ev.build())

    def frame_ob(key):
        def run():
            st, finds, summ = frame.frame_outcome(key)
            txt = "; ".join(f"{f.kind} at {f.where}: {f.what} [{f.target}]" for f in finds[:4])
            if st == "discharged":
                return core.discharged("engine-F")
            if st == "refuted":
                return core.refuted("engine-F", f"{key.split(':')[1]} writes through an argument / module state: {txt}", cex=[f.__dict__ for f in finds[:5]])
            return core.undecided("engine-F", txt)
        return Ob(f"C11.frame[{key.split(':')[1]}]", "proof", [key], run, f"{key.split(':')[1]} modifies neither its argument nor module state", fallback=fb)
    for k in F_OPS:
        obs.append(frame_ob(k))

    def structural():
        mod = C03.load()
        io_ = src.shadow_load(IO, {"PauliSum": mod.PauliSum, "PauliTerm": mod.PauliTerm}, rebind={"orquestra.quantum.operators._pauli_operators": mod})

        class Re:   # coefficient with symbolic real and imaginary parts, as convert_op_to_dict reads them
            pass
        q = 0
        for ops in C03.strings():
            if not ops:
                continue
            ar, ai = trig.Poly.var("ar"), trig.Poly.var("ai")

            class Co(complex):    # a complex number whose parts are symbols
                real, imag = ar, ai
            t = mod.PauliTerm(dict(ops), 1.0)
            t.coefficient = Co(1 + 1j)
            d = io_.convert_op_to_dict(t)
            term = d["terms"][0]
            got = {(o["qubit"], o["op"]) for o in term["pauli_ops"]}
            q += 1
            if got != set(ops.items()) or term["coefficient"]["real"] is not ar or term["coefficient"].get("imag") is not ai:
                return core.refuted("shadow-execution", f"dictionary of {C03._name(ops)} lists {sorted(got)} with coefficient {term['coefficient']}")
            back = io_.convert_dict_to_op({"terms": [{"pauli_ops": term["pauli_ops"][::-1], "coefficient": {"real": 0.5, "imag": 0.25}}]})
            if len(back.terms) != 1 or dict(back.terms[0]._ops) != dict(ops) or back.terms[0].coefficient != 0.5 + 0.25j:
                return core.refuted("shadow-execution", f"dictionary -> operator for {C03._name(ops)} gives {back}")
        return core.discharged("shadow-execution", queries=q)
    obs.append(Ob("C11.op.dict.structure", "finite", [IO + ":convert_op_to_dict", IO + ":convert_dict_to_op"], structural,
                  "for all 63 non-trivial Pauli strings on 3 qubits the dictionary lists exactly the term's (qubit, operator) pairs and passes real / imaginary parts through unchanged "
                  "(symbolic parts); the reverse direction is independent of the listing order"))
    obs.append(vprop.enum_ob("C11.op.enum", F_OPS[:3] + [IO + ":save_operator", IO + ":load_operator", IO + ":save_operator_set", IO + ":load_operator_set",
                                                           "orquestra.quantum.operators._pauli_operators:_parse_complex", "orquestra.quantum.operators._pauli_operators:_parse_operators_and_coefficient"],
                             lambda: range(3), _check_op,
                             "operator round trips over the coefficient family (int, float, negative, 1e-07, 3e-9, 7e14, imaginary, complex, zero-imaginary complex, negative-zero parts, zeros) x "
                             "strings with multi-digit qubit indices: dict + real JSON text, print -> parse (terms, sums, constants, zero coefficients, empty sum), files and operator lists"))
    obs.append(vprop.enum_ob("C11.artefacts.enum", F_OPS[3:11], lambda: range(4), _check_artefacts,
                             "arrays (real / complex / zero / integer, several shapes); ExpectationValues with correlations x covariances in {None, [], 1 frame, 2 frames, complex} via dict, "
                             "path and open file; Measurements (incl. empty, 11-qubit); Parities; ValueEstimate (precision None / 0 / float); lists; nmeas estimates (frame_meas None / array); "
                             "layers and connectivity (tuples restored)", timeout=900))
    return obs
