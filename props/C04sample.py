"""C04, `sample_from_wavefunction` under contract (Engine V): for ALL wavefunctions (any number of outcomes), ALL sample counts, BOTH sampling regimes.

The function has two branches that convert outcome strings to tuples at different moments (all outcomes first when more samples than outcomes are
requested, only the drawn ones otherwise) and pads the first with a dummy entry of probability zero.  Contract:

    n_samples < 1 raises ValueError; otherwise exactly n_samples samples are returned and every one of them is
    bitstring_to_tuple(key) for a key of `get_outcome_probs()` whose probability is non-zero

- the same conversion in both regimes, never the dummy entry.  Assumed (numpy): `Generator.choice(a, size, p)` returns `size` entries of `a`, each at
an index whose probability is positive (the sampler's STATISTICS are not a contract).  `get_outcome_probs`, `bitstring_to_tuple` (through
`convert_bitstrings_to_tuples`, which maps it over its argument) are abstract here; their bit order is the bounded part of C04.
"""
from __future__ import annotations

import types

import z3

from vfw import core, sym, vcontract as vc, vprop, vrt, vtypes
from vfw.sym import Obj, SSeq, SInt, SObj, SReal

W = "orquestra.quantum.wavefunction"
I = z3.IntSort()
B2T = z3.Function("bitstring_to_tuple", Obj, Obj)
PICK = z3.Function("rng_choice_index", Obj, I, I)      # (call, position) -> chosen index


def build(fb=None):
    state = {}

    class WF:
        def __init__(self, probs):
            self._probs = probs

        def get_outcome_probs(self):
            return self._probs

        def __len__(self):
            raise sym.Unsupported("len() reached CPython")

    def v_len_hook(x):
        return x._probs.size()

    def setup(args, ns):
        sym.OBJ_SCHEMAS.setdefault("Bitstr", {})
        sym.OBJ_SCHEMAS.setdefault("Tup", {})
        d = vtypes.mk("Dict[Bitstr,Real]", "outcome_probs")
        sym.cur().assume(sym.lift(d.keyseq.length()) >= 1)
        args["wavefunction"] = WF(d)
        state["d"] = d
        sym.cur().inputs["outcome_probs"] = d

    def convert_stub(strings):
        """convert_bitstrings_to_tuples: bitstring_to_tuple mapped over its argument (list comprehension in utils.py; contract by inspection of one line,
        its bit order is enumerated in C04.views.enum)"""
        s = SSeq.of(strings)
        return SSeq(("fun", s.length(), lambda i: SObj("Tup", B2T(sym.lift(s.get(i))))), "list")

    class RNG:
        def __init__(self):
            self.e = sym.cur().fresh("rng_call", Obj)

        def choice(self, a=None, size=None, p=None):
            """numpy Generator.choice (assumed): `size` entries of `a`; the entry at each position sits at an index of positive probability"""
            a, p = SSeq.of(a), SSeq.of(p)
            c = sym.cur()
            c.check("sample_from_wavefunction.call[rng.choice].requires", sym.lift(a.length()) == sym.lift(p.length()), "choice: as many probabilities as candidates")
            i = z3.Int("i!ch")
            n = sym.lift(a.length())
            c.nofork += 1
            try:
                pj = sym.lift(p.get(SInt(PICK(self.e, i))))
            finally:
                c.nofork -= 1
            pj = z3.ToReal(pj) if pj.sort() == I else pj
            c.axioms.append(z3.ForAll([i], z3.And(0 <= PICK(self.e, i), PICK(self.e, i) < n, pj > 0), patterns=[PICK(self.e, i)]))
            out = SSeq(("fun", size, lambda k: a.get(SInt(PICK(self.e, sym.lift(k))))), "list")
            out_obj = types.SimpleNamespace(tolist=lambda: out)
            state["last"] = out
            return _Arr(out)

    class _Arr:
        """the array returned by choice: usable as a sequence (branch 2) and through .tolist() (branch 1)"""

        def __init__(self, seq):
            self.seq = seq

        def tolist(self):
            return self.seq

    def convert_any(x):
        return convert_stub(x.seq if isinstance(x, _Arr) else x)

    INTBOX = z3.Function("python_int_as_object", I, Obj)

    def box_node(node):
        """np.array(list, dtype=object): every element as an object (the padding entry 0 becomes the object `python_int_as_object(0)`)"""
        t = node[0]
        if t == "cat":
            return ("cat", box_node(node[1]), box_node(node[2]))
        if t == "lit":
            return ("lit", [SObj("Tup", INTBOX(sym.lift(v))) if isinstance(v, (int, sym.SInt)) else v for v in node[1]])
        return node

    def np_array(x, dtype=None):
        s = SSeq.of(x)
        return SSeq(box_node(s.node), "list")
    NP = types.SimpleNamespace(random=types.SimpleNamespace(default_rng=lambda seed=None: RNG()), array=np_array, ndarray=type("ndarray", (), {}))

    def ok(result, n_samples):
        d = state["d"]
        r = SSeq.of(result)
        c = sym.cur()
        c.n += 1
        i, j = z3.Int(f"i!ok{c.n}"), z3.Int(f"j!ok{c.n}")
        keys, nk = d.keyseq.node[2], sym.lift(d.keyseq.length())
        c.nofork += 1
        try:
            ri = sym.lift(r.get(SInt(i)))
        finally:
            c.nofork -= 1
        hit = z3.Exists([j], z3.And(0 <= j, j < nk, ri == B2T(z3.Select(keys, j)), z3.Select(d.val, z3.Select(keys, j)) > 0))
        return sym.wrap_expr(z3.And(sym.lift(r.length()) == sym.lift(n_samples),
                                    z3.ForAll([i], z3.Implies(z3.And(0 <= i, i < sym.lift(n_samples)), hit))))

    c = vc.Contract(key=W + ":sample_from_wavefunction", params={"wavefunction": "Any", "n_samples": "Int", "seed": "Int"},
                    raises={"ValueError": "n_samples < 1"}, ensures="SAMPLES_OK(result, n_samples)", spec={"SAMPLES_OK": ok},
                    doc="n_samples < 1 raises ValueError; otherwise exactly n_samples samples, each the tuple form (bitstring_to_tuple) of an outcome key of non-zero "
                        "probability - the same conversion in both sampling regimes, never the zero-probability padding entry")
    obs = _simulator_views(fb) + _convert_obs(fb) + _bin2dec_ob(fb)
    return obs + [vprop.fn_ob("C04", c, {}, setup=setup, fallback=fb, obid="C04.sample_from_wavefunction.contract", desc=c.doc, timeout_ms=60000,
                        extra_stubs=lambda: {"np": NP, "convert_bitstrings_to_tuples": convert_any, "len": lambda x: v_len_hook(x) if isinstance(x, WF) else vrt.v_len(x)})]


def _simulator_views(fb):
    """the simulator's two exact views are compositions of the other views, with nothing in between: the exact distribution is
    create_bitstring_distribution_from_probability_distribution(get_wavefunction(circuit).get_probabilities()) (sampled: run_and_measure(..).get_distribution()),
    the exact expectation value is the real part of get_expectation_value(operator, get_wavefunction(circuit)) - same circuit, same operator, same state,
    no re-ordering step"""
    WS = "orquestra.quantum.api.wavefunction_simulator"
    GETWF = z3.Function("get_wavefunction", Obj, Obj, Obj)
    PROBS = z3.Function("get_probabilities", Obj, Obj)
    CBD = z3.Function("create_bitstring_distribution_from_probability_distribution", Obj, Obj)
    RUN = z3.Function("run_and_measure", Obj, Obj, I, Obj)
    DIST = z3.Function("get_distribution", Obj, Obj)
    EXPV = z3.Function("get_expectation_value", Obj, Obj, Obj)
    REAL = z3.Function("real_part", Obj, Obj)

    def schemas():
        sym.OBJ_SCHEMAS["Circ"] = {}
        sym.OBJ_SCHEMAS["Oper"] = {}
        sym.OBJ_SCHEMAS["Probs"] = {}
        sym.OBJ_SCHEMAS["DistO"] = {}
        sym.OBJ_SCHEMAS["Num"] = {"real": lambda self: SObj("Num", REAL(self.e))}
        sym.OBJ_SCHEMAS["WFO"] = {"get_probabilities": lambda self: (lambda: SObj("Probs", PROBS(self.e)))}
        sym.OBJ_SCHEMAS["Meas"] = {"get_distribution": lambda self: (lambda: SObj("DistO", DIST(self.e)))}

    class Sim:
        def __init__(self, e):
            self.e = e

        def get_wavefunction(self, circuit):
            return SObj("WFO", GETWF(self.e, sym.lift(circuit)))

        def run_and_measure(self, circuit, n):
            return SObj("Meas", RUN(self.e, sym.lift(circuit), sym.lift(n)))

    def setup(args, ns):
        schemas()
        args["self"] = Sim(sym.cur().fresh("simulator", Obj))
    spec = {"EXACT": lambda s, c: SObj("DistO", CBD(PROBS(GETWF(s.e, sym.lift(c))))), "SAMPLED": lambda s, c, n: SObj("DistO", DIST(RUN(s.e, sym.lift(c), sym.lift(n)))),
            "EXPECT": lambda s, c, o: SObj("Num", REAL(EXPV(sym.lift(o), GETWF(s.e, sym.lift(c)))))}
    out = []
    c1 = vc.Contract(key=WS + ":BaseWavefunctionSimulator.get_measurement_outcome_distribution", params={"self": "Any", "circuit": "Obj:Circ", "n_samples": "Int", "exact": "Bool"},
                     ensures="result == (EXACT(self, circuit) if exact else SAMPLED(self, circuit, n_samples))", spec=spec,
                     doc="exact: the distribution built from the probabilities of the circuit's wavefunction; sampled: the distribution of run_and_measure(circuit, n_samples)")
    out.append(vprop.fn_ob("C04", c1, {}, setup=setup, fallback=fb, obid="C04.simulator.outcome_distribution.contract", desc=c1.doc,
                           call=lambda ns, a: ns["BaseWavefunctionSimulator"].get_measurement_outcome_distribution(a["self"], a["circuit"], None if sym.cur().decide(sym.lift(a["exact"])) else a["n_samples"]),
                           extra_stubs=lambda: {"create_bitstring_distribution_from_probability_distribution": lambda p: SObj("DistO", CBD(sym.lift(p)))}))
    c2 = vc.Contract(key=WS + ":BaseWavefunctionSimulator.get_exact_expectation_values", params={"self": "Any", "circuit": "Obj:Circ", "operator": "Obj:Oper"},
                     ensures="result == EXPECT(self, circuit, operator)", spec=spec,
                     doc="the real part of get_expectation_value(operator, wavefunction of the circuit) - the operator and the state are handed on as they are")
    out.append(vprop.fn_ob("C04", c2, {}, setup=setup, fallback=fb, obid="C04.simulator.exact_expectation.contract", desc=c2.doc,
                           call=lambda ns, a: ns["BaseWavefunctionSimulator"].get_exact_expectation_values(a["self"], a["circuit"], a["operator"]),
                           extra_stubs=lambda: {"get_expectation_value": lambda o, w, *r, **k: (SObj("Num", EXPV(sym.lift(o), sym.lift(w))) if not r and not k else (_ for _ in ()).throw(sym.Unsupported("extra arguments to get_expectation_value")))}))
    return out


def _convert_obs(fb):
    """the two list converters are the element-wise maps of the per-element converters, for lists of ANY length (this is the contract `sample_from_wavefunction`
    uses for `convert_bitstrings_to_tuples`)"""
    U = "orquestra.quantum.utils"
    T2B = z3.Function("tuple_to_bitstring", Obj, Obj)
    sym.OBJ_SCHEMAS.setdefault("Bitstr", {})
    sym.OBJ_SCHEMAS.setdefault("Tup", {})
    out = []
    for fname, arg, elem_in, elem_out, fn, inner in (("convert_bitstrings_to_tuples", "bitstrings", "Bitstr", "Tup", B2T, "bitstring_to_tuple"),
                                                     ("convert_tuples_to_bitstrings", "tuples", "Tup", "Bitstr", T2B, "tuple_to_bitstring")):
        c = vc.Contract(key=f"{U}:{fname}", params={arg: f"Seq[Obj:{elem_in}]"},
                        ensures=f"len(result) == len({arg}) and all(result[i] == CONV({arg}[i]) for i in range(len({arg})))",
                        spec={"CONV": lambda x, fn=fn, elem_out=elem_out: SObj(elem_out, fn(sym.lift(x)))},
                        doc=f"{fname} = {inner} applied to every element, same length and order (any length)")
        out.append(vprop.fn_ob("C04", c, {}, fallback=fb, obid=f"C04.{fname}.contract", desc=c.doc,
                               extra_stubs=lambda fn=fn, elem_out=elem_out, inner=inner: {inner: (lambda x: SObj(elem_out, fn(sym.lift(x))))}))
    return out


def _bin2dec_ob(fb):
    """`bin2dec(x)` = sum over positions q of x[q] * 2^(n-1-q): element 0 is the MOST significant digit, for vectors of ANY length (loop invariant;
    2^i is the uninterpreted pow2 with its recurrence instantiated at the loop index)"""
    U = "orquestra.quantum.utils"

    def value(x, k=None):
        """sum_{j<k} 2^j * x[n-1-j]  (k = n: the whole vector)"""
        s = SSeq.of(x)
        n = sym.lift(s.length())
        kk = n if k is None else sym.lift(k)
        j = z3.Int("j!b2d")
        c = sym.cur()
        c.nofork += 1
        try:
            body = sym._POW2(j) * sym.lift(s.get(SInt(n - 1 - j)))
        finally:
            c.nofork -= 1
        return sym.ssum_range(z3.Lambda([j], body), I, 0, kk)

    def pow2(i):
        return sym.pow2(i)
    c = vc.Contract(key=U + ":bin2dec", params={"x": "Seq[Int]"}, result="Int", ensures="result == VALUE(x)", spec={"VALUE": value, "P2": pow2},
                    loops={"for#0": {"invariant": "dec == VALUE(x, k) and coeff == P2(k)"}},
                    doc="bin2dec(x) = sum_q x[q] 2^(n-1-q): position 0 is the most significant binary digit (any length)")
    return [vprop.fn_ob("C04", c, {}, fallback=fb, obid="C04.bin2dec.contract", desc=c.doc, timeout_ms=30000)]
