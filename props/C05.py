"""C05 - circuits survive JSON serialisation unchanged in structure and meaning.

The serialiser is text based (str() / sympify, name-driven dispatch); no VC generator here models sympy's parser.
What is decided:
  * Engine F (all inputs): to_dict / circuit_from_dict / circuitset_from_dict and helpers modify nothing and keep no
    state between calls;
  * EXHAUSTIVELY over a gate pool (every built-in gate with numeric, symbolic, indexed-symbol and expression
    parameters; custom gates with symbolic matrices) x every wrapper nesting up to depth 3 over
    {controlled(1), controlled(2), dagger, power(2), power(0.5), power(3), exp}: dictionary form -> real JSON text ->
    dictionary -> gate yields the same wrapper nesting (kinds, control counts, exponents), same parameters, same
    free symbols, equal object; circuits: width (idle qubits, empty), operation order and qubit tuples, custom
    definitions, circuit lists whose members define their own custom gates, files (path and open file).
Known finding: a gate using both a plain symbol x and an indexed symbol x[k] cannot be deserialised.
"""
from __future__ import annotations

import itertools

from vfw import core, frame, vprop, replay as rp
from vfw.core import Ob

LEVEL = "other"
S = "orquestra.quantum.circuits._serde"
MANIFEST = {
    "engine": "engine-F",
    "category": "other",
    "technique": "contract-based verification: the round-trip postcondition '_gate_from_dict(json(to_dict(W(g)))) == W(g)' proved by structural induction over wrapper nesting - the real text of _serde.py executed on an OPAQUE wrapped gate (its dictionary is a placeholder that deserialises to that very gate: the induction hypothesis) for each wrapper kind and every name shape the wrapped gate can have, likewise for operations and circuits of opaque operations; base cases (every built-in and custom gate with numeric / symbolic / indexed / expression parameters, i.e. the text format parsed by sympy) and directly constructed nestings by exhaustive enumeration through real JSON text and files; frame / statelessness conditions by static ownership analysis",
    "text": "The induction step covers every nesting depth for the name-driven dispatch (the place where wrapper kinds can be confused); the base cases are expression text parsed by sympy, outside the VC generators' fragment, and are decided by exhaustive enumeration over the stated pool - hence level 'other' (induction over structure + bounded leaves), not 'proof'.",
    "note": "Trusted: json, sympy.sympify executed natively; parametricity of the (de)serialisers in the opaque wrapped gate (any access beyond name / free_symbols / params / num_qubits ends the run undecided); Engine F. Bound: the gate pool of the base cases, circuits of <= 5 opaque operations. One known finding (plain + indexed symbol of the same name).",
}
TRUSTED = ["json / sympy executed natively", "vfw/frame.py"]
ASSUMPTIONS = ["bounded: wrapper nesting depth <= 3 over the stated gate pool", "matrix evaluation of fractional powers / exponentials is not part of this check (structure and parameters are)"]
EXTRA = {"explanation": "each gate / circuit of the enumeration goes through to_dict, json.dumps, json.loads, from_dict and is compared structurally"}
F_OPS = [S + ":" + n for n in ("to_dict", "_circuit_to_dict", "circuit_from_dict", "circuitset_from_dict", "_gate_from_dict", "_special_gate_from_dict", "_builtin_gate_from_dict",
                               "custom_gate_def_from_dict", "_custom_gate_instance_from_dict", "_gate_operation_from_dict", "serialize_expr", "deserialize_expr", "_make_symbols_map")] + \
        ["orquestra.quantum.circuits._circuit:Circuit.collect_custom_gate_definitions"]
FK = "symbols x and x[k] in one gate"
FK_KW = "symbol named like a Python keyword"
WRAPS = {"c1": lambda g: g.controlled(1), "c2": lambda g: g.controlled(2), "dag": lambda g: g.dagger, "p2": lambda g: g.power(2), "p0.5": lambda g: g.power(0.5),
         "p3": lambda g: g.power(3), "exp": lambda g: g.exp}


def _pool():
    import sympy
    from orquestra.quantum.circuits import _builtin_gates as B
    from orquestra.quantum.circuits import CustomGateDefinition
    a, b = sympy.symbols("alpha beta")
    x3, x10 = sympy.Symbol("x[3]"), sympy.Symbol("x[10]")
    g1 = sympy.Symbol("gamma")
    sym = {}
    num = {}
    import inspect
    import ast
    names = [n for n, v in vars(B).items() if n.isupper() or (n[0].isupper() and not n.startswith("Gate"))]
    for n in sorted(names):
        v = getattr(B, n)
        if hasattr(v, "matrix_factory") and hasattr(v, "num_qubits"):
            num[n] = v
        elif callable(v) and not isinstance(v, type):
            try:
                k = len(inspect.signature(v().matrix_factory).parameters)
            except Exception:
                continue
            num[f"{n}(numeric)"] = v(*[0.25 * (i + 1) for i in range(k)])
            num[f"{n}(int)"] = v(*[i + 1 for i in range(k)])
            sym[f"{n}(symbols)"] = v(*[[a, b, g1][i] for i in range(k)])
            sym[f"{n}(indexed)"] = v(*[[x3, x10, a][i] for i in range(k)])
            sym[f"{n}(expr)"] = v(*[[2 * a + 0.5, sympy.cos(b) * x3, a / 3][i] for i in range(k)])
    # parameter texts that look like something else to a parser: symbols named like numbers / sympy objects, integers beyond double precision
    for nm in ("inf", "nan", "Infinity", "pi", "E", "I", "S", "N", "oo", "e1", "t_1", "Symbol"):
        sym[f"RZ(symbol named {nm})"] = B.RZ(sympy.Symbol(nm))
        sym[f"U3(expr over symbol named {nm})"] = B.U3(2 * sympy.Symbol(nm), sympy.Symbol(nm) + a, 0.5)
    for big in (2 ** 53 + 1, 10 ** 18 + 1, -(2 ** 63) - 5, 2 ** 64 + 3):
        num[f"RZ({big})"] = B.RZ(big)
        num[f"Delay({big})"] = B.Delay(big) if hasattr(B, "Delay") else B.RZ(big)
    t, u = sympy.symbols("t u")
    # custom gates whose names differ from a built-in gate / a wrapper marker only by case or by a suffix
    for nm, dim in (("sx", 2), ("phase", 2), ("iswap", 4), ("x", 2), ("cnot", 4), ("Sx", 2), ("control", 2), ("exponential", 2), ("dagger", 2)):
        cd = CustomGateDefinition(nm, sympy.Matrix(sympy.diag(*([1] * (dim - 1) + [sympy.exp(sympy.I * t)]))), (t,))
        num[f"custom named {nm}"] = cd(0.4)
        sym[f"custom named {nm} (symbolic)"] = cd(a)
    cdef = CustomGateDefinition("ROT", sympy.Matrix([[sympy.cos(t), -sympy.sin(t)], [sympy.sin(t), sympy.cos(t) * sympy.exp(sympy.I * u)]]), (t, u))
    cfix = CustomGateDefinition("FIXED", sympy.Matrix([[0, 1j], [-1j, 0]]), ())
    c2 = CustomGateDefinition("TWOQ", sympy.Matrix(sympy.diag(1, sympy.exp(sympy.I * t), 1, sympy.exp(-sympy.I * t))), (t,))
    num["custom ROT(0.3, 1.5)"] = cdef(0.3, 1.5)
    num["custom FIXED"] = cfix()
    num["custom TWOQ(0.7)"] = c2(0.7)
    sym["custom ROT(alpha, 2*beta)"] = cdef(a, 2 * b)
    sym["custom ROT(gamma, beta)"] = cdef(g1, b)
    sym["custom TWOQ(x[3])"] = c2(x3)
    return num, sym


def _chains(symbolic, depth):
    ws = [w for w in WRAPS if not (symbolic and (w.startswith("p") or w == "exp"))]
    for d in range(0, depth + 1):
        for ch in itertools.product(ws, repeat=d):
            if sum(int(w[1]) for w in ch if w[0] == "c") > 3:
                continue
            yield ch


def _shape(g):
    """wrapper nesting, outermost first"""
    from orquestra.quantum.circuits import _gates as G
    out = []
    while True:
        if isinstance(g, G.ControlledGate):
            out.append(("controlled", g.num_control_qubits))
        elif isinstance(g, G.Dagger):
            out.append(("dagger",))
        elif isinstance(g, G.Power):
            out.append(("power", g.exponent))
        elif isinstance(g, G.Exponential):
            out.append(("exp",))
        else:
            out.append(("base", g.name, g.num_qubits))
            return out
        g = g.wrapped_gate


def _params_equal(p, q):
    import sympy
    if len(p) != len(q):
        return False
    for x, y in zip(p, q):
        if isinstance(x, sympy.Expr) or isinstance(y, sympy.Expr):
            d = sympy.simplify(sympy.sympify(x) - sympy.sympify(y))
            if d != 0:
                try:
                    if abs(complex(d)) > 1e-12:
                        return False
                except TypeError:
                    return False
        elif x != y:
            return False
    return True


def _check_gate(case):
    import json
    from orquestra.quantum.circuits import Circuit, circuit_from_dict, to_dict
    name, symbolic, depth = case
    num, sym = _pool()
    base = (sym if symbolic else num)[name]
    for ch in _chains(symbolic, depth):
        g = base
        try:
            for w in ch:
                g = WRAPS[w](g)
        except ValueError:
            continue
        qs = tuple(range(g.num_qubits))[::-1]
        circ = Circuit([g(*qs)], n_qubits=g.num_qubits + 1)
        text = json.dumps(to_dict(circ))
        back = circuit_from_dict(json.loads(text))
        if back.n_qubits != circ.n_qubits or len(back.operations) != 1:
            return False, f"{name} wrapped by {ch}: width / operation count changed"
        op = back.operations[0]
        if op.qubit_indices != qs or not isinstance(op.qubit_indices, tuple):
            return False, f"{name} wrapped by {ch}: qubit indices {op.qubit_indices} expected {qs}"
        if _shape(op.gate) != _shape(g):
            return False, f"{name} wrapped by {ch}: nesting {_shape(g)} came back as {_shape(op.gate)}"
        if not _params_equal(tuple(op.gate.params), tuple(g.params)):
            return False, f"{name} wrapped by {ch}: parameters {g.params} came back as {op.gate.params}"
        if sorted(map(str, op.gate.free_symbols)) != sorted(map(str, g.free_symbols)):
            return False, f"{name} wrapped by {ch}: free symbols changed"
        if back != circ:
            return False, f"{name} wrapped by {ch}: deserialised circuit compares unequal to the original"
        again = circuit_from_dict(json.loads(json.dumps(to_dict(back))))
        if again != circ:
            return False, f"{name} wrapped by {ch}: a second round trip changes the circuit"
    return True, "ok"


def _direct_wraps():
    """wrappers built with the wrapper classes themselves (no normalisation by the .controlled / .dagger / .power helpers)"""
    from orquestra.quantum.circuits import _gates as G
    return {"C1": lambda g: G.ControlledGate(g, 1), "C2": lambda g: G.ControlledGate(g, 2), "DAG": lambda g: G.Dagger(g), "P2": lambda g: G.Power(g, 2),
            "P0.5": lambda g: G.Power(g, 0.5), "P-1": lambda g: G.Power(g, -1), "EXP": lambda g: G.Exponential(g)}


def _check_direct(case):
    """every nesting of directly constructed wrappers (a controlled gate around a controlled gate, a dagger around a hermitian gate, around a
    power, ...) comes back with exactly the same nesting, and as an equal object"""
    import json
    from orquestra.quantum.circuits import Circuit, circuit_from_dict, to_dict
    name, depth = case
    num, sym = _pool()
    base = num.get(name) or sym[name]
    W = _direct_wraps()
    symbolic = name in sym
    ws = [w for w in W if not (symbolic and (w.startswith("P") or w == "EXP"))]
    for d in range(1, depth + 1):
        for ch in itertools.product(ws, repeat=d):
            if sum(int(w[1]) for w in ch if w[0] == "C") > 3:
                continue
            g = base
            for w in ch:
                g = W[w](g)
            qs = tuple(range(g.num_qubits))[::-1]
            circ = Circuit([g(*qs)], n_qubits=g.num_qubits)
            back = circuit_from_dict(json.loads(json.dumps(to_dict(circ))))
            op = back.operations[0]
            if _shape(op.gate) != _shape(g):
                return False, f"{name} wrapped directly by {ch}: nesting {_shape(g)} came back as {_shape(op.gate)}"
            if back != circ or op.qubit_indices != qs or not _params_equal(tuple(op.gate.params), tuple(g.params)):
                return False, f"{name} wrapped directly by {ch}: deserialised circuit differs from the original"
    return True, "ok"


def _check_name_clash(i):
    """two DIFFERENT definitions under one gate name in one circuit are refused wherever they sit (adjacent, separated by built-in gates, separated by
    other custom gates, under wrappers); the same definition used many times is fine"""
    import sympy
    from orquestra.quantum.circuits import Circuit, CustomGateDefinition, X, H, to_dict, circuit_from_dict
    import json
    t = sympy.Symbol("t")
    d1 = CustomGateDefinition("U", sympy.Matrix([[0, 1], [1, 0]]), ())
    d2 = CustomGateDefinition("U", sympy.Matrix([[1, 0], [0, sympy.I]]), ())
    v = CustomGateDefinition("V", sympy.Matrix([[1, 0], [0, -1]]), ())
    w = CustomGateDefinition("W", sympy.Matrix([[sympy.cos(t), -sympy.sin(t)], [sympy.sin(t), sympy.cos(t)]]), (t,))
    fillers = [[], [X(1)], [v()(1)], [v()(1), w(0.3)(0)], [H(0), v()(1), X(0)], [w(0.1)(1), v()(0), w(0.2)(1)]]
    wraps = [lambda g: g, lambda g: g.controlled(1), lambda g: g.dagger]
    for mid in fillers:
        for wa, wb in itertools.product(range(3), repeat=2):
            ga, gb = wraps[wa](d1()), wraps[wb](d2())
            ops = [ga(*range(ga.num_qubits))] + mid + [gb(*range(gb.num_qubits))]
            for order in (ops, ops[::-1]):
                try:
                    data = to_dict(Circuit(order))
                except ValueError:
                    continue
                back = circuit_from_dict(json.loads(json.dumps(data)))
                return False, f"a circuit holding two different definitions named 'U' ({len(mid)} operations between them) was serialised; it comes back as {back}"
            same = [ga(*range(ga.num_qubits))] + mid + [wraps[wb](d1())(*range(gb.num_qubits))]
            back = circuit_from_dict(json.loads(json.dumps(to_dict(Circuit(same)))))
            if back != Circuit(same):
                return False, "a circuit using one definition several times does not round-trip"
    return True, "ok"


def _gate_cases(tier):
    num, sym = _pool()
    depth = 2 if tier == "quick" else 3
    cases = []
    for n in num:
        cases.append((n, False, depth if (tier != "quick" or len(cases) % 4 == 0) else 1))
    for n in sym:
        cases.append((n, True, depth))
    return cases


def _check_circuits(i):
    import io
    import json
    import os
    import tempfile
    import numpy as np
    import sympy
    from orquestra.quantum.circuits import Circuit, CustomGateDefinition, CNOT, H, RX, U3, X, T, circuit_from_dict, circuitset_from_dict, to_dict, \
        save_circuit, load_circuit, save_circuitset, load_circuitset
    t = sympy.Symbol("t")
    a = sympy.Symbol("alpha")

    def rot(m):
        return CustomGateDefinition("ROT", sympy.Matrix(m), (t,))
    d1 = rot([[sympy.cos(t), -sympy.sin(t)], [sympy.sin(t), sympy.cos(t)]])
    d2 = rot([[sympy.cos(t), sympy.I * sympy.sin(t)], [sympy.I * sympy.sin(t), sympy.cos(t)]])
    other = CustomGateDefinition("AAA", sympy.Matrix([[1, 0], [0, sympy.exp(sympy.I * t)]]), (t,))
    circs = [
        Circuit(), Circuit(n_qubits=3), Circuit([X(0)], n_qubits=5),
        Circuit([H(0), CNOT(0, 2), RX(a)(1), U3(0.1, a, 2 * a)(2), T.dagger(0), X.controlled(2)(3, 1, 0), RX(0.5).power(3)(2)], n_qubits=6),
        Circuit([d1(0.3)(0), other(a)(1), d1(a).controlled(1)(2, 0), other(0.25).dagger(1)]),
        Circuit([d2(0.3)(1), X(0)]),
    ]
    for c in circs:
        back = circuit_from_dict(json.loads(json.dumps(to_dict(c))))
        if back != c or back.n_qubits != c.n_qubits or [o.qubit_indices for o in back.operations] != [o.qubit_indices for o in c.operations]:
            return False, f"circuit {c} does not round-trip"
        if sorted(d.gate_name for d in back.collect_custom_gate_definitions()) != sorted(d.gate_name for d in c.collect_custom_gate_definitions()):
            return False, "custom gate definitions changed"
        for db, dc in zip(back.collect_custom_gate_definitions(), c.collect_custom_gate_definitions()):
            if db != dc:
                return False, f"custom definition {dc.gate_name} changed"
        if back.free_symbols != c.free_symbols:
            return False, "circuit free symbols changed"
    # a list of circuits whose members each bring their own definition of a gate named ROT
    cs = [circs[4], circs[5], circs[3], circs[4]]
    back = circuitset_from_dict(json.loads(json.dumps(to_dict(cs))))
    if back != cs:
        return False, "circuit list does not round-trip"
    m = lambda g: np.array(g.matrix.tolist(), dtype=complex)
    if not np.allclose(m(back[1].operations[0].gate), m(cs[1].operations[0].gate)) or not np.allclose(m(back[0].operations[0].gate), m(cs[0].operations[0].gate)):
        return False, "a circuit of the list came back with another circuit's custom gate matrix"
    try:
        to_dict(Circuit([d1(0.1)(0), d2(0.1)(1)]))
        return False, "two different definitions with one name in one circuit accepted"
    except ValueError:
        pass
    tmp = tempfile.mkdtemp()
    try:
        p = os.path.join(tmp, "c.json")
        save_circuit(circs[3], p)
        if load_circuit(p) != circs[3]:
            return False, "save_circuit / load_circuit (path)"
        with open(p) as fh:
            if load_circuit(fh) != circs[3]:
                return False, "load_circuit from an open file"
        buf = io.StringIO()
        save_circuitset(cs, buf)
        buf.seek(0)
        if load_circuitset(buf) != cs:
            return False, "save_circuitset / load_circuitset through a file object"
    finally:
        import shutil
        shutil.rmtree(tmp, ignore_errors=True)
    return True, "ok"


INDUCTION_ASSUMES = [
    "the wrapped gate is opaque: the (de)serialisers can read its `name`, `free_symbols`, `params`, `num_qubits` and nothing else (any other access ends the run as undecided); "
    "by parametricity the step then holds for every wrapped gate whose name falls in one of the enumerated name shapes",
    "name shapes of the wrapped gate: plain, looking like each wrapper kind (Control, Exponential, X_Dagger, X^2, Exponential^2_Dagger), ending in 'Dagger' / containing '^' without being a wrapper",
    "control counts / exponents / qubit indices are only stored and read back: representative values (incl. 10**6, negative and fractional exponents, tuples of length 0..5) stand for all",
    "json.dumps / json.loads are the real library functions (the placeholder of the wrapped gate's dictionary is passed through them)",
]


_CONCRETE = {"G": "custom('G')", "Control": "G.ControlledGate(B.X, 1)", "Exponential": "G.Exponential(B.X)", "X_Dagger": "G.Dagger(B.X)", "X^2": "G.Power(B.X, 2)",
             "Exponential^2_Dagger": "G.Dagger(G.Power(G.Exponential(B.X), 2))", "Control_Dagger^0.5": "G.Power(G.Dagger(G.ControlledGate(B.X, 1)), 0.5)", "fooDagger": "custom('fooDagger')",
             "a^b": "custom('a^b')", "Dagger": "custom('Dagger')", "^": "custom('^')"}
_WRAP = {"controlled": "G.ControlledGate(g, 2)", "dagger": "G.Dagger(g)", "exponential": "G.Exponential(g)", "power": "G.Power(g, 0.5)"}


def _induction_replay(kind, name):
    """a concrete instance of the failing induction step: the wrapper around a real gate whose name has the same shape"""
    return f"""
import json, sympy
from orquestra.quantum.circuits import _gates as G, _builtin_gates as B, Circuit, CustomGateDefinition, circuit_from_dict, to_dict
custom = lambda n: CustomGateDefinition(n, sympy.Matrix([[0, 1], [1, 0]]), ())()
g = {_CONCRETE[name]}
w = {_WRAP[kind]}
c = Circuit([w(*range(w.num_qubits))])
try:
    back = circuit_from_dict(json.loads(json.dumps(to_dict(c))))
    OK = bool(back == c and type(back.operations[0].gate) is type(w))
    OBSERVED = f"{{w!r}} came back as {{back.operations[0].gate!r}}"
except Exception as e:
    OK = False
    OBSERVED = f"round trip of {{w!r}} raised {{type(e).__name__}}: {{e}}"
"""


_BASE_REPLAY = """
import inspect, json, sympy
from orquestra.quantum.circuits import _builtin_gates as B, _gates as G, Circuit, CustomGateDefinition, circuit_from_dict, to_dict
ops, width = [], 3
for n, v in vars(B).items():
    if n.startswith("_") or not (isinstance(v, G.MatrixFactoryGate) or (callable(v) and getattr(v, "__module__", "") == B.__name__ and n[0].isupper())):
        continue
    g = v if isinstance(v, G.MatrixFactoryGate) else v(*[0.25 + 0.5 * i for i in range(len(inspect.signature(v().matrix_factory).parameters))])
    if isinstance(g, G.MatrixFactoryGate):
        ops.append(g(*range(g.num_qubits)))
bad = []
for arity in range(0, 4):
    syms = sympy.symbols(f"p0:{arity}") if arity else ()
    wanted = CustomGateDefinition("MyGate", sympy.Matrix([[1, 0], [0, sum(syms, sympy.Integer(1))]]), tuple(syms))
    others = [CustomGateDefinition(nm, sympy.Matrix([[0, 1], [1, 0]]), ()) for nm in ("MyGat", "MyGate2", "X2")]
    for pos in range(4):
        order = others[:pos] + [wanted] + others[pos:]
        c = Circuit([d(*([0.5 + i for i in range(arity)] if d is wanted else []))(0) for d in order] + ops, n_qubits=width)
        try:
            back = circuit_from_dict(json.loads(json.dumps(to_dict(c))))
            if back != c or [type(o.gate) for o in back.operations] != [type(o.gate) for o in c.operations] or any(
                    [float(x) for x in b.params] != [float(x) for x in o.params] for b, o in zip(back.operations, c.operations)):
                bad.append(f"arity {arity}, definition at {pos}: {[str(o) for o in back.operations if str(o) not in [str(x) for x in c.operations]][:3]}")
        except Exception as e:
            bad.append(f"arity {arity}, definition at {pos}: {type(e).__name__}: {e}")
OK = not bad
OBSERVED = "; ".join(bad[:3]) or "every built-in gate with distinct numeric parameters and the custom instances round-trip"
"""


def _shadow_refuted(backend, detail, cex=None, replay=None):
    """a failure of the opaque-object protocol (placeholder gates / parameters) is a counterexample only if its concrete twin fails on the real code: when the
    native replay of the same shape passes, the text merely left the fragment the placeholders can follow (e.g. it serialises a parameter without calling
    serialize_expr) - undecided, the enumerations over real gates decide"""
    if replay is not None and replay.get("reproduced") is False and "timed out" not in str(replay.get("observed")) and "no verdict" not in str(replay.get("observed")):
        return core.undecided(backend, f"{detail} - but the concrete twin of this case round-trips on the real code ({str(replay.get('observed'))[:160]}): outside the placeholder protocol")
    return core.refuted(backend, detail, cex=cex, replay=replay)


class _AbsGate:
    """an arbitrary gate the (de)serialisers must treat as a black box; equality is identity"""
    free_symbols = ()
    params = ()
    num_qubits = 1

    def __init__(self, name):
        self.name = name

    def __repr__(self):
        return f"<arbitrary gate named {self.name!r}>"


class _AbsDict(dict):
    """what to_dict returned for the arbitrary gate; the induction hypothesis says _gate_from_dict maps it back to that very gate"""


def _induction_obs():
    """Structural induction over wrapper nesting: for each wrapper kind W and an ARBITRARY wrapped gate g for which the round trip is the identity (hypothesis),
    _gate_from_dict(json(to_dict(W(g, extra)))) == W(g, extra) with the same wrapper class, the same g and the same extra - the real text of _serde.py is executed
    on an opaque g.  Together with the base cases (C05.gates.enum: every built-in / custom gate) this covers every nesting depth."""
    import json as _json
    from vfw import src as _src

    def load():
        serde = _src.shadow_load(S, {})
        ns = serde.__ns__
        registry = {}

        def abs_to_dict(g):
            d = _AbsDict({"name": g.name, "__placeholder__": len(registry)})
            registry[len(registry)] = g
            return d
        ns["to_dict"].register(_AbsGate)(abs_to_dict)
        real = ns["_gate_from_dict"]

        def gate_from_dict(d, defs):
            if isinstance(d, dict) and "__placeholder__" in d:
                return registry[d["__placeholder__"]]          # induction hypothesis
            return real(d, defs)
        ns["_gate_from_dict"] = gate_from_dict
        return ns, gate_from_dict

    NAMES = ["G", "Control", "Exponential", "X_Dagger", "X^2", "Exponential^2_Dagger", "Control_Dagger^0.5", "fooDagger", "a^b", "Dagger", "^"]

    def step(kind):
        def run():
            import time
            from orquestra.quantum.circuits import _gates as G
            t0 = time.time()
            ns, gfd = load()
            mk = {"controlled": [lambda g, v=v: G.ControlledGate(g, v) for v in (1, 2, 7, 10 ** 6)], "dagger": [lambda g: G.Dagger(g)], "exponential": [lambda g: G.Exponential(g)],
                  "power": [lambda g, v=v: G.Power(g, v) for v in (2, -1, 0, 0.5, 1e-3, 3.75, -2.5, 10 ** 6)]}[kind]
            q = 0
            for name in NAMES:
                for make in mk:
                    g = _AbsGate(name)
                    try:
                        w = make(g)
                        d = ns["to_dict"](w)
                        text = _json.dumps(d)
                        back = gfd(_json.loads(text), [])
                    except (AttributeError, TypeError) as e:
                        if "_AbsGate" in str(e):
                            return core.undecided("shadow-execution", f"the code reads more of the wrapped gate than name / free_symbols / params / num_qubits: {e}")
                        return _shadow_refuted("shadow-execution", f"{kind} wrapper around an arbitrary gate named {name!r}: the round trip raises {type(e).__name__}: {e}",
                                            cex={"wrapper": kind, "wrapped_gate_name": name}, replay=rp.replay_dict(_induction_replay(kind, name), "round trip is the identity"))
                    except Exception as e:
                        return _shadow_refuted("shadow-execution", f"{kind} wrapper around an arbitrary gate named {name!r}: the round trip raises {type(e).__name__}: {e}",
                                            cex={"wrapper": kind, "wrapped_gate_name": name}, replay=rp.replay_dict(_induction_replay(kind, name), "round trip is the identity"))
                    q += 1
                    if type(back) is not type(w) or back != w or back.wrapped_gate is not g:
                        return _shadow_refuted("shadow-execution", f"{kind} wrapper around an arbitrary gate named {name!r}: {w!r} serialises to {text} and comes back as {back!r}",
                                            cex={"wrapper": kind, "wrapped_gate_name": name}, replay=rp.replay_dict(_induction_replay(kind, name), "round trip is the identity"))
                    if isinstance(back, G.ControlledGate) and back.num_control_qubits != w.num_control_qubits or isinstance(back, G.Power) and back.exponent != w.exponent:
                        return _shadow_refuted("shadow-execution", f"{kind}: control count / exponent changed")
            return core.discharged("shadow-execution", time.time() - t0, queries=q, sample={"wrapped_gate_name_shapes": NAMES, "cases": q})
        return Ob(f"C05.induction[{kind}]", "proof", [S + ":_special_gate_from_dict", S + ":_gate_from_dict", S + ":to_dict"], run,
                  f"induction step: a {kind} wrapper around an ARBITRARY gate that round-trips comes back as the same wrapper (class, control count / exponent) around the same gate, "
                  "through real JSON text; with the base cases this covers every nesting depth", timeout=300, assumes=INDUCTION_ASSUMES)

    def op_step():
        import time
        from orquestra.quantum.circuits import _gates as G, Circuit
        t0 = time.time()
        ns, gfd = load()
        q = 0
        for qs in ((), (0,), (3, 1), (5, 0, 2), (10 ** 6, 7, 0, 1), (4, 3, 2, 1, 0)):
            g = _AbsGate("G")
            op = G.GateOperation(g, qs)
            back = ns["_gate_operation_from_dict"](_json.loads(_json.dumps(ns["to_dict"](op))), [])
            q += 1
            if type(back) is not G.GateOperation or back.gate is not g or back.qubit_indices != qs or not isinstance(back.qubit_indices, tuple):
                return _shadow_refuted("shadow-execution", f"operation of an arbitrary gate on qubits {qs} comes back as {back!r}", cex={"qubits": list(qs)})
        # circuits: any sequence of operations that round-trip individually, any declared width
        for L in range(0, 6):
            for extra in (0, 1, 3):
                ops = [G.GateOperation(_AbsGate(f"G{i}"), ((i * 2) % 5, (i * 2 + 1) % 5 + 5)) for i in range(L)]
                width = (max([q_ for o in ops for q_ in o.qubit_indices], default=-1) + 1) + extra
                c = Circuit(ops, n_qubits=width)
                back = ns["circuit_from_dict"](_json.loads(_json.dumps(ns["to_dict"](c))))
                q += 1
                if back.n_qubits != width or len(back.operations) != L or any(b.gate is not o.gate or b.qubit_indices != o.qubit_indices for b, o in zip(back.operations, ops)):
                    return _shadow_refuted("shadow-execution", f"circuit of {L} arbitrary operations, width {width}: comes back with width {back.n_qubits} and {len(back.operations)} operations "
                                                            f"(order / qubits / gates changed)", cex={"length": L, "width": width})
        return core.discharged("shadow-execution", time.time() - t0, queries=q)
    class _AbsParam:
        """an arbitrary parameter expression the (de)serialisers must treat as a black box"""
        free_symbols = frozenset()

        def __init__(self, i):
            self.i = i

        def __repr__(self):
            return f"<arbitrary parameter #{self.i}>"

    def base_step():
        """base cases with ABSTRACT parameters: for every built-in gate factory and for custom gate definitions, a gate whose parameters are arbitrary
        expressions that survive the text format (hypothesis: deserialize_expr(serialize_expr(p)) is p) comes back as the same factory applied to the same
        parameters in the same order - the real text of _basic_gate_to_dict / _builtin_gate_from_dict / _custom_gate_instance_from_dict on opaque parameters"""
        import inspect
        import time
        import sympy
        from orquestra.quantum.circuits import _builtin_gates as B, _gates as G
        t0 = time.time()
        ns, gfd = load()
        reg = {}

        def ser(p):
            if isinstance(p, _AbsParam):
                reg[f"@@{p.i}"] = p
                return f"@@{p.i}"
            return ns["__real_serialize_expr"](p)

        def de(text, names):
            if isinstance(text, str) and text.startswith("@@"):
                return reg[text]          # hypothesis: the text format returns the expression it was given
            return ns["__real_deserialize_expr"](text, names)
        ns["__real_serialize_expr"], ns["__real_deserialize_expr"] = ns["serialize_expr"], ns["deserialize_expr"]
        ns["serialize_expr"], ns["deserialize_expr"] = ser, de
        q = 0
        max_arity = 0
        names = [n for n, v in vars(B).items() if not n.startswith("_") and (isinstance(v, G.MatrixFactoryGate) or (callable(v) and getattr(v, "__module__", "") == B.__name__ and n[0].isupper()))]
        if len(names) < 20:
            return core.undecided("shadow-execution", f"only {len(names)} built-in gate factories found")
        for n in names:
            ref = getattr(B, n)
            if isinstance(ref, G.MatrixFactoryGate):
                g = ref
            else:
                try:
                    arity = len(inspect.signature(ref().matrix_factory).parameters)      # the prototype takes *parameters; the matrix function names them
                    g = ref(*[_AbsParam(i) for i in range(arity)])
                    max_arity = max(max_arity, arity)
                except Exception as e:
                    return core.undecided("shadow-execution", f"built-in factory {n} could not be applied to abstract parameters: {type(e).__name__}: {e}")
            if not isinstance(g, G.MatrixFactoryGate):
                continue
            try:
                d = ns["to_dict"](g)
                back = gfd(_json.loads(_json.dumps(d)), [])
            except Exception as e:
                return _shadow_refuted("shadow-execution", f"built-in gate {n} with arbitrary parameters: the round trip raises {type(e).__name__}: {e}", cex={"gate": n},
                                    replay=rp.replay_dict(_BASE_REPLAY, "round trip is the identity"))
            q += 1
            if type(back) is not type(g) or back.name != g.name or back.matrix_factory is not g.matrix_factory or len(back.params) != len(g.params) or \
                    any(a is not b for a, b in zip(back.params, g.params)) or back.num_qubits != g.num_qubits or back.is_hermitian != g.is_hermitian:
                return _shadow_refuted("shadow-execution", f"built-in gate {n} with arbitrary parameters {g.params} serialises to {d} and comes back as {back.name}{back.params}",
                                    cex={"gate": n})
        if max_arity < 2:
            return core.undecided("shadow-execution", "no built-in factory with two or more parameters was exercised (order of parameters not covered)")
        # custom gates: definitions with 0..3 parameters, instances with abstract arguments, several definitions in the list, the wanted one anywhere
        for arity in range(0, 4):
            syms = sympy.symbols(f"p0:{arity}") if arity else ()
            mats = sympy.Matrix([[1, 0], [0, sum(syms, sympy.Integer(1))]])
            wanted = G.CustomGateDefinition("MyGate", mats, tuple(syms))
            other = [G.CustomGateDefinition(nm, sympy.Matrix([[0, 1], [1, 0]]), ()) for nm in ("MyGat", "MyGate2", "X2")]
            for pos in range(len(other) + 1):
                defs = other[:pos] + [wanted] + other[pos:]
                args = [_AbsParam(100 + i) for i in range(arity)]
                inst_dict = {"name": "MyGate", **({"params": [ser(a) for a in args]} if args else {})}
                try:
                    back = ns["_custom_gate_instance_from_dict"](_json.loads(_json.dumps(inst_dict)), defs)
                except TypeError as e:
                    if "_AbsParam" in str(e) or "sympify" in str(e).lower():
                        # the factory substitutes the arguments into the matrix only when the matrix is asked for; anything that needs the VALUE of an abstract
                        # parameter is outside this obligation
                        return core.undecided("shadow-execution", f"custom gate instance needs the value of an abstract parameter: {e}")
                    return _shadow_refuted("shadow-execution", f"custom gate instance with {arity} arbitrary arguments, definition at position {pos}: raises {e}")
                except Exception as e:
                    return _shadow_refuted("shadow-execution", f"custom gate instance with {arity} arbitrary arguments, definition at position {pos}: raises {type(e).__name__}: {e}",
                                        replay=rp.replay_dict(_BASE_REPLAY, "round trip is the identity"))
                q += 1
                if back.name != "MyGate" or len(back.params) != arity or any(a is not b for a, b in zip(back.params, args)) or back.matrix_factory.gate_definition is not wanted:
                    return _shadow_refuted("shadow-execution", f"custom gate instance with arguments {args}, definition at position {pos} of {len(defs)}: comes back as {back.name}{back.params}",
                                        replay=rp.replay_dict(_BASE_REPLAY, "round trip is the identity"))
        return core.discharged("shadow-execution", time.time() - t0, queries=q, sample={"builtin_factories": names, "cases": q})
    out = [step(k) for k in ("controlled", "dagger", "exponential", "power")]
    out.append(Ob("C05.base[builtin,custom]", "proof", [S + ":_basic_gate_to_dict", S + ":_builtin_gate_from_dict", S + ":_custom_gate_instance_from_dict", S + ":_gate_from_dict"], base_step,
                  "base cases with ARBITRARY parameter expressions (hypothesis: the expression text format returns the expression it was given): every built-in gate factory and custom gate "
                  "instances (0..3 arguments, the definition anywhere among look-alike names) come back as the same factory applied to the same parameters in the same order, "
                  "through real JSON text", timeout=300, assumes=INDUCTION_ASSUMES + ["parameters are opaque: only their serialised text is produced and consumed"]))
    out.append(Ob("C05.induction[operation,circuit]", "proof", [S + ":_gate_operation_to_dict", S + ":_gate_operation_from_dict", S + ":_circuit_to_dict", S + ":circuit_from_dict"], op_step,
                  "an operation of an ARBITRARY gate that round-trips keeps its gate and qubit tuple; a circuit of 0..5 such operations with 0 / 1 / 3 idle qubits above keeps its width, "
                  "length and order (through real JSON text)", timeout=300, assumes=INDUCTION_ASSUMES))
    return out


def build(tier, seed):
    obs = []
    fb = vprop.enum_ob("x", [], lambda: [0], _check_circuits, "").run
    fbg = vprop.enum_ob("x", [], lambda: _gate_cases("quick")[:6], _check_gate, "").run
    for o in _induction_obs():
        o.fallback = fbg
        obs.append(o)

    def frame_ob(key):
        def run():
            st, finds, summ = frame.frame_outcome(key)
            txt = "; ".join(f"{f.kind} at {f.where}: {f.what} [{f.target}]" for f in finds[:4])
            if st == "discharged":
                return core.discharged("engine-F")
            if st == "refuted":
                rep = None
                try:
                    o = fb()
                    rep = o.replay if o.status == "bounded-fail" else None
                except Exception:
                    pass
                return core.refuted("engine-F", f"{key.split(':')[1]} writes through an argument / keeps state between calls: {txt}", cex=[f.__dict__ for f in finds[:5]], replay=rep)
            return core.undecided("engine-F", txt)
        return Ob(f"C05.frame[{key.split(':')[1]}]", "proof", [key], run, f"{key.split(':')[1]} modifies neither its argument nor module state (no state shared between calls)", fallback=fb)
    for k in F_OPS:
        obs.append(frame_ob(k))
    obs.append(vprop.enum_ob("C05.gates.enum", F_OPS[:10], lambda: _gate_cases(tier), _check_gate,
                             "every gate of the pool (all built-ins with numeric / integer / symbolic / indexed-symbol / expression parameters, custom gates) x every wrapper nesting up to the "
                             "depth bound: dict -> JSON text -> dict -> gate keeps nesting, control counts, exponents, parameters, free symbols, qubit tuple; equal object; second round trip equal", timeout=1500))
    dd = 2 if tier == "quick" else 3
    obs.append(vprop.enum_ob("C05.direct_nesting.enum", F_OPS[:10], lambda: [(n, dd) for n in ("X", "Z", "CNOT", "RX(numeric)", "custom FIXED", "custom ROT(0.3, 1.5)", "RX(symbols)", "custom ROT(alpha, 2*beta)")],
                             _check_direct, "wrappers constructed directly with the wrapper classes (no normalisation), every nesting up to the depth bound on 8 base gates: same nesting, "
                             "control counts, exponents and parameters after dict -> JSON -> dict -> gate; equal object", timeout=1500))
    obs.append(vprop.enum_ob("C05.name_clash.enum", ["orquestra.quantum.circuits._circuit:Circuit.collect_custom_gate_definitions", S + ":to_dict"], lambda: [0], _check_name_clash,
                             "two different custom definitions under one name in one circuit are refused wherever they sit (6 kinds of operations between them, under wrappers, both orders)"))
    obs.append(vprop.enum_ob("C05.circuits.enum", F_OPS[:4] + [S + ":save_circuit", S + ":load_circuit", S + ":save_circuitset", S + ":load_circuitset"], lambda: [0], _check_circuits,
                             "empty circuits, idle qubits, custom definitions, circuit lists whose members define same-named custom gates differently, clashing names in one circuit rejected, files"))

    def known():
        code = """
import json, sympy
from orquestra.quantum.circuits import Circuit, U3, circuit_from_dict, to_dict
x, x3 = sympy.Symbol("x"), sympy.Symbol("x[3]")
c = Circuit([U3(x, x3, 0.5)(0)])
back = circuit_from_dict(json.loads(json.dumps(to_dict(c))))
OK = bool(back == c)
OBSERVED = "round trip ok"
"""
        r = rp.replay_dict(code, "a gate using x and x[3] round-trips")
        if r["reproduced"]:
            return core.bounded_fail("a gate whose parameters use both the plain symbol x and the indexed symbol x[3] cannot be deserialised: " + str(r["observed"])[:200],
                                     cex={"params": ["x", "x[3]"]}, replay=r, finding_key=FK)
        return core.bounded_pass("plain + indexed symbol of the same name round-trips", 1)
    def keyword_known():
        code = """
import json, sympy
from orquestra.quantum.circuits import Circuit, U3, circuit_from_dict, to_dict
lam = sympy.Symbol("lambda")
c = Circuit([U3(sympy.Symbol("theta"), sympy.Symbol("phi"), lam)(0)])
back = circuit_from_dict(json.loads(json.dumps(to_dict(c))))
OK = bool(back == c)
OBSERVED = "round trip ok"
"""
        r = rp.replay_dict(code, "a gate with a symbol named lambda round-trips")
        if r["reproduced"]:
            return core.bounded_fail("a gate parameter over a symbol named like a Python keyword (lambda) cannot be deserialised: " + str(r["observed"])[:200],
                                     cex={"symbol": "lambda"}, replay=r, finding_key=FK_KW)
        return core.bounded_pass("a symbol named lambda round-trips", 1)
    obs.append(Ob("C05.symbols.python_keyword", "bounded", [S + ":deserialize_expr"], keyword_known,
                  "a gate whose parameter uses a symbol named like a Python keyword (lambda, in, is, ...) survives the round trip"))
    obs.append(Ob("C05.symbols.plain_and_indexed", "bounded", [S + ":_make_symbols_map", S + ":deserialize_expr"], known,
                  "a gate using both a plain symbol x and an indexed symbol x[k] survives the round trip"))
    return obs
