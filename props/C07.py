"""C07 - gate modifiers (dagger, controlled, power, exp) mean what they say.

Deductive part (Engine M: real text of _gates.py / _builtin_gates.py / _matrices.py over the exact domain, all real
parameters): for representative base gates (self-adjoint, non-self-adjoint, 1-3 parameters, one- and two-qubit, and
a custom gate with a fully generic complex 2x2 matrix) and EVERY chain of modifiers {dagger, controlled(1),
controlled(2), power(2), power(3)} up to length 3 (total controls <= 3): the modified gate's matrix equals the
specification applied in the same order (explicit conjugate transpose / block placement / repeated product), its
qubit count and parameters are the implied ones, and replacing parameters commutes with modifying - also when the
base gate was first built at special parameter values (0) and re-parametrised.  For every built-in gate
dagger(G).matrix * G.matrix = I.
Bounded part (native sympy, time-boxed): fractional powers, matrix exponential, negative powers, numeric paths.
Known finding: Power.dagger with a non-integer exponent at eigenvalue -1 (pinned by the integer-exponent proofs and
by native checks of fractional exponents away from the branch cut).
"""
from __future__ import annotations

import itertools

from vfw import core, trig, mcheck, circ_m, gates_m, vprop, replay as rp
from vfw.core import Ob

LEVEL = "proof"
G = "orquestra.quantum.circuits._gates"
MANIFEST = {
    "engine": "engine-M",
    "category": "proof",
    "technique": "contract-based deductive verification: (i) the INDUCTION STEP over modifier nesting for ALL wrapped gates, control counts and exponents (Engine V, the real text of the wrapper classes on an opaque wrapped gate whose own modifiers mean what they say - the hypothesis): width, parameters and matrix of every wrapper, and of every modifier applied to a wrapper, stated on the observable attributes of the result (never on its structure, so equivalent re-associations verify), relative to an abstract matrix algebra (adjoint / power / nested identity blocks of a block-diagonal matrix, adjoint of exp and of an integer power); (ii) postconditions 'matrix / qubit count / params of the modified gate == specification applied in the same order' generated from the real text of the wrapper classes (ControlledGate, Dagger, Power and their re-association rules) by shadow execution over an exact domain, decided for all real parameters and a generic custom matrix, exhaustively over modifier chains up to length 3; sympy's fractional power / matrix exponential by bounded native checks",
    "text": "Each re-association rule (Dagger.controlled, Power.controlled, ControlledGate.power/dagger, ...) is exercised by every chain up to length 3 and decided as a matrix identity for all parameters - a universal statement over parameters that tests sample at one value. Chains longer than 3 follow from the same rules but are not enumerated (bound stated). Fractional powers and exp depend on sympy numerics: bounded, time-boxed.",
    "note": "Trusted: exact domain reading of sympy Matrix ops (adjoint, diag, **int, subs), floats-as-reals. Bounds: chain length 3, total controls 3, listed base gates. Not decided: sympy's Matrix**(1/q) and Matrix.exp() (bounded native only).",
}
TRUSTED = ["abstract matrix algebra of props/C07struct.py (block-diagonal laws, adj(adj m) = m, adj(exp m) = exp(adj m), adj(m^e) = adj(m)^e for integer e; uninterpreted diag / eye / adjoint / exp / **)", "vfw/trig.py exact domain as the meaning of sympy.Matrix.adjoint/diag/eye/**n/subs", "shadow execution of the real _gates.py text", "z3 nlsat second opinion (<= 4x4)"]
ASSUMPTIONS = ["bounded in modifier-chain length (3) and total control count (3); base gates: X, S, RX, U3, CNOT, XY, custom generic 2x2",
               "sympy Matrix ** fraction and Matrix.exp() are library numerics: checked natively on small gates only",
               "machine arithmetic treated as mathematical in the symbolic part"]
EXTRA = {"explanation": "matrix identities for every modifier chain generated from the current text of _gates.py via Engine M"}
FK_POWDAG = "Power.dagger with non-integer exponent and eigenvalue -1"

MODS = ["dagger", "c1", "c2", "p2", "p3"]


def _apply_real(g, mod):
    if mod == "dagger":
        return g.dagger
    if mod == "c1":
        return g.controlled(1)
    if mod == "c2":
        return g.controlled(2)
    if mod == "p2":
        return g.power(2)
    if mod == "p3":
        return g.power(3)
    raise ValueError(mod)


def _spec_adjoint(M):
    return trig.SMat(data=[[M.m[j][i].conjugate() for j in range(M.rows)] for i in range(M.cols)])


def _spec_controlled(M, k):
    n = M.rows
    N = n * 2 ** k
    out = trig.zeros(N, N)
    for i in range(N - n):
        out[i, i] = 1
    for i in range(n):
        for j in range(n):
            out[N - n + i, N - n + j] = M.m[i][j]
    return out


def _apply_spec(state, mod):
    M, nq = state
    if mod == "dagger":
        return _spec_adjoint(M), nq
    if mod in ("c1", "c2"):
        k = int(mod[1])
        return _spec_controlled(M, k), nq + k
    p = int(mod[1])
    out = trig.eye(M.rows)
    for _ in range(p):
        out = out @ M
    return out, nq


def _chains(maxlen=3, max_controls=3):
    for L in range(1, maxlen + 1):
        for ch in itertools.product(MODS, repeat=L):
            if sum(int(m[1]) for m in ch if m[0] == "c") > max_controls:
                continue
            if sum(1 for m in ch if m[0] == "p") > 1:
                continue   # power of symbolic gates is rejected by the library (free symbols); numeric bases handle one power
            yield ch


def _bases(L):
    """name -> (builder(params) -> gate, n_params, num_qubits)"""
    th, ph, la = trig.Poly.var("theta"), trig.Poly.var("phi"), trig.Poly.var("lam")
    out = {}
    for name in ("X", "S", "CNOT"):
        out[name] = (lambda ps, name=name: L.gate(name), 0)
    out["RX"] = (lambda ps: L.gate("RX", *ps), 1)
    out["XY"] = (lambda ps: L.gate("XY", *ps), 1)
    out["U3"] = (lambda ps: L.gate("U3", *ps), 3)
    # custom gate: generic complex 2x2 matrix with two formal parameters mixed in
    a, b = trig.Poly.var("a"), trig.Poly.var("b")
    i = trig.Poly.const(1j)
    m = trig.SMat([[trig.Poly.var("m00r") + i * trig.Poly.var("m00i") + a, trig.Poly.var("m01r") + i * trig.Poly.var("m01i")],
                   [trig.Poly.var("m10r") + i * trig.Poly.var("m10i") * b, trig.Poly.var("m11r") + i * trig.Poly.var("m11i") + a * b]])
    cdef = L.gates.CustomGateDefinition("generic", m, (a, b))
    out["custom"] = (lambda ps: cdef(*ps), 2)
    return out


def _sym_params(k, tag=""):
    return tuple(trig.Poly.var(n + tag) for n in ("theta", "phi", "lam")[:k])


def _native_chain_replay(base, chain):
    expr = {"X": "B.X", "S": "B.S", "CNOT": "B.CNOT", "RX": "B.RX(0.37)", "XY": "B.XY(0.37)", "U3": "B.U3(0.37, 1.1, -0.4)",
            "custom": "CustomGateDefinition('generic', sympy.Matrix([[a, 0.3 - 0.2j], [1j * b, a * b + 0.5]]), (a, b))(0.4, -1.2)"}[base]
    steps = []
    for m in chain:
        steps.append({"dagger": "g = g.dagger; M = M.conj().T",
                      "c1": "g = g.controlled(1); M = ctrl(M, 1)", "c2": "g = g.controlled(2); M = ctrl(M, 2)",
                      "p2": "g = g.power(2); M = M @ M", "p3": "g = g.power(3); M = M @ M @ M"}[m])
    return lambda env: f"""
import numpy as np, sympy
from orquestra.quantum.circuits import _builtin_gates as B
from orquestra.quantum.circuits import CustomGateDefinition
a, b = sympy.symbols('a b')
def ctrl(M, k):
    n = M.shape[0]; N = n * 2 ** k
    out = np.eye(N, dtype=complex); out[N - n:, N - n:] = M
    return out
g = {expr}
M = np.array(g.matrix.tolist(), dtype=complex)
{chr(10).join(steps)}
R = np.array(g.matrix.tolist(), dtype=complex)
OK = bool(R.shape == M.shape and np.allclose(R, M, atol=1e-9))
OBSERVED = f"modifier chain {chain!r} on {base}: |matrix - spec|max = {{abs(R - M).max() if R.shape == M.shape else (R.shape, M.shape)}}"
"""


def build(tier, seed):
    obs = []
    FN = [G + ":ControlledGate.matrix", G + ":Dagger.matrix", G + ":Power.matrix", G + ":Dagger.controlled", G + ":Power.controlled",
          G + ":ControlledGate.dagger", G + ":ControlledGate.power", G + ":Power.dagger", G + ":MatrixFactoryGate.dagger",
          G + ":ControlledGate.replace_params", G + ":Dagger.replace_params", G + ":Power.replace_params", G + ":MatrixFactoryGate.replace_params",
          G + ":CustomGateMatrixFactory.__call__"]
    base_names = ["X", "S", "CNOT", "RX", "XY", "U3", "custom"]
    maxlen = 3 if tier == "quick" else 3

    def chain_ob(base, chain):
        def run():
            L = circ_m.Layer()
            build_g, k = _bases(L)[base]
            has_power = any(m[0] == "p" for m in chain)
            # a gate with free symbols cannot be raised to a power (library rule): use exact numeric parameters there
            if has_power:
                ps = tuple(trig.Poly.const(x) for x in (0.5, -1.25, 2.0)[:k])
            else:
                ps = _sym_params(k) if base != "custom" else (trig.Poly.var("pa"), trig.Poly.var("pb"))
            zero = tuple(trig.Poly.const(0) for _ in range(k))
            g_direct = build_g(ps)
            variants = {"direct": g_direct}
            if k:
                variants["built-at-0-then-replace_params"] = build_g(zero).replace_params(ps)
            queries = 0
            for vname, g in variants.items():
                spec = (build_g(ps).matrix, build_g(ps).num_qubits)
                gg = g
                for m in chain:
                    gg = _apply_real(gg, m)
                    spec = _apply_spec(spec, m)
                if gg.num_qubits != spec[1]:
                    return core.refuted("shadow-execution", f"{base}.{'.'.join(chain)} ({vname}): num_qubits {gg.num_qubits}, implied {spec[1]}",
                                        replay=rp.replay_dict(_native_chain_replay(base, chain)({}), "num_qubits"))
                if tuple(gg.params) != tuple(ps):
                    return core.refuted("shadow-execution", f"{base}.{'.'.join(chain)} ({vname}): params {gg.params} != {ps}")
                out = mcheck.identity_outcome(lambda: (gg.matrix, spec[0]), _native_chain_replay(base, chain),
                                              "matrix of the modified gate == specification applied in the same order")
                queries += out.queries
                if out.status != "discharged":
                    out.detail = f"{vname}: " + out.detail
                    return out
                # replacing parameters of the modified gate == modifying the gate built with the new parameters
                if k and not has_power:
                    newp = tuple(trig.Poly.const(x) for x in (0.25, -0.75, 1.5)[:k])
                    lhs = gg.replace_params(newp)
                    rhs = build_g(newp)
                    for m in chain:
                        rhs = _apply_real(rhs, m)
                    v, info = mcheck.decide_equal(lhs.matrix, rhs.matrix)
                    queries += 1
                    if v != "equal" or type(lhs) is not type(rhs) or lhs.num_qubits != rhs.num_qubits or tuple(lhs.params) != tuple(rhs.params):
                        return core.refuted("shadow-execution", f"{base}.{'.'.join(chain)} ({vname}): replace_params does not commute with the modifiers: "
                                            f"{lhs} vs {rhs} {info}", replay=rp.replay_dict(_native_replace_replay(base, chain), "replace_params commutes"))
            return core.discharged("ring-normal-form+z3-nlsat", queries=max(1, queries), sample={"chain": list(chain), "variants": list(variants)})
        return run

    for base in base_names:
        for chain in _chains(maxlen):
            if base in ("CNOT", "XY") and sum(int(m[1]) for m in chain if m[0] == "c") > 2:
                continue
            obs.append(Ob(f"C07.chain[{base}.{'.'.join(chain)}]", "proof", FN, chain_ob(base, chain),
                          f"{base} modified by {'.'.join(chain)}: matrix, qubit count, params as implied; replace_params commutes; all real parameters", timeout=300))

    def dagger_all():
        L = circ_m.Layer()
        n = 0
        for name, entry in L.table.items():
            g, ps = gates_m.instantiate(entry)
            d = g.dagger
            v, info = mcheck.decide_equal(d.matrix @ g.matrix, trig.eye(g.matrix.rows))
            n += 1
            if v != "equal":
                return core.refuted("ring-normal-form", f"{name}.dagger.matrix * {name}.matrix != I: {info}",
                                    replay=rp.replay_dict(f"""
import numpy as np
from orquestra.quantum.circuits import _builtin_gates as B
g = B.{name}{'' if not ps else '(' + ', '.join(['0.37', '1.1', '-0.4'][:len(ps)]) + ')'}
M = np.array(g.matrix.tolist(), dtype=complex); D = np.array(g.dagger.matrix.tolist(), dtype=complex)
OK = bool(np.allclose(D @ M, np.eye(len(M)), atol=1e-9)); OBSERVED = f"|D M - I|max = {{abs(D @ M - np.eye(len(M))).max()}}"
""", "dagger * gate = I"))
        return core.discharged("ring-normal-form", queries=n)
    obs.append(Ob("C07.builtin.dagger", "proof", FN[:2] + [G + ":MatrixFactoryGate.dagger"], dagger_all,
                  "for every built-in gate and all real parameters dagger(G).matrix * G.matrix = I (flagged-self-adjoint gates return themselves)"))

    def ctrl_bad():
        L = circ_m.Layer()
        for k in (0, -1):
            try:
                L.gate("X").controlled(k)
                return core.refuted("shadow-execution", f"controlled({k}) accepted")
            except ValueError:
                pass
        return core.discharged("shadow-execution", queries=2)
    obs.append(Ob("C07.controlled.args", "finite", [G + ":ControlledGate.__post_init__"], ctrl_bad, "a control count below 1 is rejected with ValueError"))

    from vfw import lean
    obs.append(lean.prelude_ob('C07', 'adjoint twice, adjoint of an integer power / of an exponential, adjoint and power of a block-diagonal matrix'))
    from props import C07struct
    obs.extend(C07struct.build(vprop.enum_ob("x", [], lambda: range(6), _check_native, "").run))
    obs.append(vprop.enum_ob("C07.native.enum", FN, lambda: range(6), _check_native,
                             "bounded (time-boxed sympy): unit-fraction powers (q-th power of the root is the original), negative integer powers, matrix exponential "
                             "vs scipy.expm incl. several exp-wrapped gates evaluated one after the other, numeric modifier chains, Power.dagger for fractional "
                             "exponents away from eigenvalue -1; integer powers incl. 0 and negatives, dagger and controlled in every order (length <= 2) on a non-unitary gate and on 3-qubit gates", exhaustive=False, timeout=600))

    def powdag():
        code = """
import numpy as np
from orquestra.quantum.circuits import Z
g = Z.power(0.5)
A = np.array(g.matrix.tolist(), dtype=complex); D = np.array(g.dagger.matrix.tolist(), dtype=complex)
OK = bool(np.allclose(D, A.conj().T, atol=1e-9))
OBSERVED = f"Z.power(0.5).dagger.matrix = {D.tolist()} but the adjoint of Z.power(0.5).matrix is {A.conj().T.tolist()}"
"""
        r = rp.replay_dict(code, "dagger of a power is its adjoint")
        if r["reproduced"]:
            return core.bounded_fail("Power.dagger = wrapped.dagger.power(e) is not the adjoint for e=0.5 on Z (eigenvalue -1, branch cut)", cex={"gate": "Z", "exponent": 0.5},
                                     replay=r, finding_key=FK_POWDAG)
        return core.bounded_pass("Z.power(0.5).dagger is the adjoint", 1)
    obs.append(Ob("C07.power.dagger.fractional", "bounded", [G + ":Power.dagger"], powdag,
                  "dagger of a fractional power is the conjugate transpose, also when -1 is an eigenvalue"))
    return obs


def _native_replace_replay(base, chain):
    return _native_chain_replay(base, chain)({})


def _check_native(mode):
    import numpy as np
    import scipy.linalg
    import sympy
    from orquestra.quantum.circuits import X, Y, Z, S, T, RX, RY, RZ, CNOT, SWAP, PHASE, CustomGateDefinition

    def m(g):
        return np.array(g.matrix.tolist(), dtype=complex)
    if mode == 0:
        for g in (X, S, T, RX(0.4), RZ(1.3), PHASE(0.7), SWAP):
            for q in (2, 3):
                R = m(g.power(1 / q))
                if not np.allclose(np.linalg.matrix_power(R, q), m(g), atol=1e-8):
                    return False, f"{g}.power(1/{q}) to the {q}-th power is not the original"
                if g.power(1 / q).num_qubits != g.num_qubits or g.power(1 / q).params != g.params:
                    return False, "num_qubits / params of a power"
        return True, "ok"
    if mode == 1:
        for g in (S, T, RX(0.4), CNOT, RY(-2.2)):
            for p in (-1, -2, 0, 1, 4):
                if not np.allclose(m(g.power(p)), np.linalg.matrix_power(m(g), p), atol=1e-8):
                    return False, f"{g}.power({p}) is not the repeated product / inverse"
            if not np.allclose(m(g.power(-1).controlled(1)), scipy.linalg.block_diag(np.eye(len(m(g))), np.linalg.inv(m(g))), atol=1e-8):
                return False, f"{g}.power(-1).controlled(1)"
        return True, "ok"
    if mode == 2:
        # several exp / exp.power gates evaluated one after the other (hidden shared state between evaluations would show here)
        gates = [X, Z, Y, RX(0.4), RY(0.4), RZ(0.4), S]
        for rnd in range(2):
            for g in gates:
                E = scipy.linalg.expm(m(g))
                if not np.allclose(m(g.exp), E, atol=1e-8):
                    return False, f"{g}.exp is not the matrix exponential"
                if not np.allclose(m(g.exp.power(2)), E @ E, atol=1e-8):
                    return False, f"{g}.exp.power(2) is not the square of the matrix exponential (evaluated after other exp gates)"
                if not np.allclose(m(g.exp.dagger), E.conj().T, atol=1e-8):
                    return False, f"{g}.exp.dagger is not the adjoint"
                if g.exp.num_qubits != g.num_qubits:
                    return False, "num_qubits of exp"
        for g2 in (CNOT, SWAP):
            if m(g2.exp.power(2)).shape != (4, 4):
                return False, f"{g2}.exp.power(2) has the wrong dimension"
        return True, "ok"
    if mode == 3:
        # custom gates whose matrix is self-adjoint only at special parameter values
        t, u = sympy.symbols("t u")
        d = CustomGateDefinition("crx", sympy.Matrix([[sympy.cos(t / 2), -sympy.I * sympy.sin(t / 2)], [-sympy.I * sympy.sin(t / 2), sympy.cos(t / 2)]]), (t,))
        for start in (0, 0.0, 2 * sympy.pi, 0.3):
            g = d(start).replace_params((0.9,))
            direct = d(0.9)
            for name, f in (("dagger", lambda x: x.dagger), ("controlled.dagger", lambda x: x.controlled(1).dagger), ("dagger.controlled", lambda x: x.dagger.controlled(2))):
                A, B = m(f(g)), m(f(direct))
                if not np.allclose(A, B, atol=1e-9):
                    return False, f"custom gate built at {start} then replace_params(0.9): {name} differs from the gate built directly at 0.9"
                if f(g) != f(direct):
                    return False, f"custom gate built at {start} then replace_params(0.9): {name} is not equal to modifying the directly built gate"
            if not np.allclose(m(g.dagger) @ m(g), np.eye(2), atol=1e-9):
                return False, f"dagger of a re-parametrised custom gate (built at {start}) is not its inverse"
        return True, "ok"
    if mode == 5:
        # integer powers (negative, zero, positive), dagger and controlled in every order on a NON-UNITARY invertible gate and on gates of 3 qubits:
        # controlled(k) = diag(I, M), dagger = M^H, power(p) = M^p (inverse for negative p, identity of the gate's own dimension for p = 0)
        import itertools as it
        nonunit = CustomGateDefinition("nonunitary", sympy.Matrix([[1, 0.5], [0.25j, 2]]), ())()
        wide = CustomGateDefinition("threeq", sympy.Matrix(np.diag([1, 1j, -1, 1, 1, -1j, 1, np.exp(0.3j)]).tolist()), ())()
        # complex entries written without an explicit I ((-1)**(1/4), roots of -1), complex-SYMMETRIC but not hermitian matrices (diag(1, i), sqrt X, iSWAP-like)
        implicit = CustomGateDefinition("implicit", sympy.Matrix([[1, 0], [0, (-1) ** sympy.Rational(1, 4)]]), ())()
        clock = CustomGateDefinition("clock", sympy.Matrix(sympy.diag(1, sympy.root(-1, 3) ** 2)), ())()
        my_s = CustomGateDefinition("myS", sympy.Matrix([[1, 0], [0, sympy.I]]), ())()
        my_sx = CustomGateDefinition("mySX", sympy.Matrix([[1 + sympy.I, 1 - sympy.I], [1 - sympy.I, 1 + sympy.I]]) / 2, ())()
        my_iswap = CustomGateDefinition("myISWAP", sympy.Matrix([[1, 0, 0, 0], [0, 0, sympy.I, 0], [0, sympy.I, 0, 0], [0, 0, 0, 1]]), ())()
        tpar = sympy.Symbol("t")
        ph = CustomGateDefinition("PH", sympy.Matrix([[1, 0], [0, (-1) ** tpar]]), (tpar,))(sympy.Rational(1, 5))
        bases = [("nonunitary 1-qubit gate", nonunit, 2), ("3-qubit diagonal gate", wide, 2), ("X.controlled(2)", X.controlled(2), 2), ("RX(0.4)", RX(0.4), 3),
                 ("custom diag(1, (-1)**(1/4))", implicit, 2), ("custom clock gate from root(-1, 3)", clock, 2), ("custom diag(1, i)", my_s, 2), ("custom sqrt-X", my_sx, 2),
                 ("custom iSWAP-like", my_iswap, 2), ("custom diag(1, (-1)**t) at t = 1/5", ph, 2)]
        mods = {"dagger": (lambda g: g.dagger, lambda M: M.conj().T), "c1": (lambda g: g.controlled(1), lambda M: scipy.linalg.block_diag(np.eye(len(M)), M)),
                "p-1": (lambda g: g.power(-1), lambda M: np.linalg.inv(M)), "p0": (lambda g: g.power(0), lambda M: np.eye(len(M))),
                "p2": (lambda g: g.power(2), lambda M: M @ M), "p-2": (lambda g: g.power(-2), lambda M: np.linalg.inv(M @ M))}
        for name, base, depth in bases:
            for L in range(1, depth + 1):
                for ch in it.product(mods, repeat=L):
                    if sum(1 for c in ch if c == "c1") > 1:
                        continue
                    g, M = base, m(base)
                    for c in ch:
                        g, M = mods[c][0](g), mods[c][1](M)
                    got = m(g)
                    if got.shape != M.shape or got.shape != (2 ** g.num_qubits,) * 2:
                        return False, f"{name} modified by {ch}: matrix shape {got.shape}, expected {M.shape} (num_qubits = {g.num_qubits})"
                    if not np.allclose(got, M, atol=1e-8):
                        return False, f"{name} modified by {ch}: matrix differs from the meaning of the modifiers (max deviation {abs(got - M).max():.3g})"
        return True, "ok"
    for g, e in ((S, 0.5), (T, 0.5), (RZ(0.3), 0.5), (RX(1.1), 1 / 3), (PHASE(0.9), 0.5)):
        A, D = m(g.power(e)), m(g.power(e).dagger)
        if not np.allclose(D, A.conj().T, atol=1e-8):
            return False, f"{g}.power({e}).dagger is not the adjoint (no eigenvalue -1 involved)"
    return True, "ok"
