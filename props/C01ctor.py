"""C01, `Circuit.__init__` under contract (Engine V, abstract circuit model): for ANY operation list the circuit holds the operations in the given order and its width is
the declared one when a positive integer is given, and otherwise (None or 0) the implied width of `_circuit_size_by_operations` (callee by its contract
C01.circuit_size_by_operations.contract); a negative declared width raises ValueError."""
from __future__ import annotations

import z3

from vfw import cmodel, sym, vcontract as vc, vprop, vtypes
from vfw.sym import Obj, SObj, SSeq, SInt

SIZE = z3.Function("circuit_size_by_operations", z3.ArraySort(z3.IntSort(), Obj), z3.IntSort(), z3.IntSort())


def _size_of(ops):
    s = SSeq.of(ops)
    arr, _ = sym.node_to_array(s.node)
    return sym.wrap_expr(SIZE(arr, sym.lift(s.length())))


def build(fb=None):
    cmodel.install()
    obs = []
    for given in (True, False):
        def setup(args, ns, given=given):
            C = ns["Circuit"]
            args["self"] = C.__new__(C)
            if not given:
                args["n_qubits"] = None
        same_ops = "len(self._operations) == len(operations) and all(self._operations[j] == operations[j] for j in range(len(operations)))"
        if given:
            c = vc.Contract(key=cmodel.CIRC + ":Circuit.__init__", params={"self": "Any", "operations": "Seq[Obj:GateOp]", "n_qubits": "Int"},
                            raises={"ValueError": "n_qubits < 0"},
                            ensures=same_ops + " and self._n_qubits == (n_qubits if n_qubits > 0 else SIZE_OF(operations))", spec={"SIZE_OF": _size_of},
                            doc="declared width: kept when positive, the implied width for 0, ValueError when negative; operations in the given order")
        else:
            c = vc.Contract(key=cmodel.CIRC + ":Circuit.__init__", params={"self": "Any", "operations": "Seq[Obj:GateOp]", "n_qubits": "Any"},
                            ensures=same_ops + " and self._n_qubits == SIZE_OF(operations)", spec={"SIZE_OF": _size_of},
                            doc="no declared width: the implied width of the operations; operations in the given order")
        obs.append(vprop.fn_ob("C01", c, {}, call=lambda ns, a: ns["Circuit"].__init__(a["self"], a["operations"], a["n_qubits"]), setup=setup, fallback=fb,
                               obid=f"C01.Circuit.ctor[{'declared width' if given else 'implied width'}].contract", desc=c.doc,
                               extra_stubs=lambda: {"_circuit_size_by_operations": _size_of}))
    return obs
