"""C01 - a circuit acts as the ordered product of its gates on the named qubits.

Deductive part (Engine M: the real text of _unitary_tools.py, _gates.py, _circuit.py, api/wavefunction_simulator.py,
runners/symbolic_simulator.py, _wavefunction_operations.py executed over exact symbolic matrices):
  * embedding: for every register width n <= 4 (thorough 5) and EVERY ordered tuple of distinct qubit indices
    (arity 1..4) the matrix returned by both embedding adapters for a FULLY GENERIC 2^k x 2^k matrix (symbolic
    entries) equals the element-wise definition (qubit 0 = most significant bit) - complete in the gate matrix
    by linearity, exhaustive in the index tuples for that width;
  * order: to_unitary of circuits of generic non-commuting gates equals the right-to-left product of the embedded
    matrices; apply(v) equals embedded matrix times a generic vector; concatenation composes and keeps the larger
    width; idle qubits are kept;
  * simulators: SymbolicSimulator and base-class simulators with different native subsets, with phase-only
    operations interleaved, return that same matrix applied to a generic initial state.
Bounded: the quantifier over widths / circuit lengths (stated), numeric path natively.
"""
from __future__ import annotations

import itertools

from vfw import core, trig, mcheck, circ_m, src, vprop, replay as rp
from vfw.core import Ob

LEVEL = "proof"
UT, G, C = circ_m.UT, "orquestra.quantum.circuits._gates", circ_m.CIRC
WS = "orquestra.quantum.api.wavefunction_simulator"
SS = "orquestra.quantum.runners.symbolic_simulator"
WO = "orquestra.quantum.circuits._wavefunction_operations"
MANIFEST = {
    "engine": "engine-M",
    "category": "proof",
    "technique": "contract-based deductive verification: the postcondition 'returned matrix == element-wise embedding definition' of _lift_matrix (both adapters) and 'to_unitary / apply / simulator state == ordered product of embeddings' generated from the real text by shadow execution over exact symbolic matrices with fully generic entries (complete in the matrices by linearity), exhaustive over all ordered index tuples for each register width up to the bound; numeric paths by bounded native comparison",
    "text": "For a fixed width and index tuple the embedding is linear in the gate matrix, so equality on a generic symbolic matrix is a complete proof for all gates; all ordered tuples of distinct indices are enumerated for every width up to 4 (5 thorough). Product order and simulator threading are decided on circuits of generic non-commuting matrices, for which any reordering changes the result. Unbounded width / length is not reached (bound stated).",
    "note": "Trusted: the exact domain's reading of numpy/sympy kron, @, eye, zeros, transpose, column assignment; bin/zfill as executed by CPython. Bound: register width <= 4 (5), circuits of <= 4 operations.",
}
TRUSTED = ["props/C01append.py, C01ctor.py: abstract circuit model of vfw/cmodel.py (operations as opaque objects with uninterpreted qubit tuples); max / min over a nested generator read as: bounds every element and is one of them", "vfw/trig.py exact matrices as the meaning of numpy/sympy matrix code", "shadow execution of the real module text", "itertools.groupby / functools.reduce executed natively"]
ASSUMPTIONS = ["bounded in register width (4 quick / 5 thorough) and circuit length; complete in the gate matrices (generic symbolic entries) and index tuples",
               "numeric (float) arithmetic treated as exact in the symbolic part; the float path is compared natively"]
EXTRA = {"explanation": "matrix identities generated from the current text of _unitary_tools.py/_gates.py/_circuit.py and the simulators via Engine M"}


def generic(name, dim):
    i = trig.Poly.const(1j)
    return trig.SMat(data=[[trig.Poly.var(f"{name}{r}_{c}r") + i * trig.Poly.var(f"{name}{r}_{c}i") for c in range(dim)] for r in range(dim)])


def generic_vec(name, dim):
    i = trig.Poly.const(1j)
    return trig.SMat(data=[[trig.Poly.var(f"{name}{r}r") + i * trig.Poly.var(f"{name}{r}i")] for r in range(dim)])


def _tuples(n, tier):
    for k in range(1, min(n, 4) + 1):
        for qs in itertools.permutations(range(n), k):
            yield qs


def _native_lift(n, qs):
    return f"""
import numpy as np
from orquestra.quantum.circuits import CustomGateDefinition, Circuit
import sympy
rng = np.random.default_rng(7)
k = {len(qs)}
M = rng.normal(size=(2 ** k, 2 ** k)) + 1j * rng.normal(size=(2 ** k, 2 ** k))
g = CustomGateDefinition("g", sympy.Matrix(M.tolist()), ())()
n, qs = {n}, {tuple(qs)!r}
L = np.array(g(*qs).lifted_matrix(n), dtype=complex)
bit = lambda i, q: (i >> (n - 1 - q)) & 1
E = np.zeros((2 ** n, 2 ** n), dtype=complex)
for r in range(2 ** n):
    for c in range(2 ** n):
        if all(bit(r, q) == bit(c, q) for q in range(n) if q not in qs):
            sr = sum(bit(r, q) << (k - 1 - t) for t, q in enumerate(qs)); sc = sum(bit(c, q) << (k - 1 - t) for t, q in enumerate(qs))
            E[r, c] = M[sr, sc]
OK = bool(np.allclose(L, E, atol=1e-9))
OBSERVED = f"embedding of a random {{k}}-qubit matrix on qubits {{qs}} of {{n}}: |lifted - definition|max = {{abs(L - E).max()}}"
"""


def build(tier, seed):
    obs = []
    maxn = 4 if tier == "quick" else 5
    FNL = [UT + ":_lift_matrix", UT + ":_lift_matrix_numpy", UT + ":_lift_matrix_sympy", UT + ":_permutation_matrix",
           UT + ":_permutation_making_qubits_adjacent", UT + ":_basis_bitstring", UT + ":_permute"]

    def lift_ob(n, k):
        def run():
            L = circ_m.Layer()
            M = generic("m", 2 ** k)
            q = 0
            for qs in itertools.permutations(range(n), k):
                spec = circ_m.embed_spec(M, list(qs), n)
                for adapter in ("_lift_matrix_numpy", "_lift_matrix_sympy"):
                    got = getattr(L.ut, adapter)(M, qs, n)
                    v, info = mcheck.decide_equal(got, spec, use_z3=False)
                    q += 1
                    if v != "equal":
                        return core.refuted("ring-normal-form", f"{adapter}(generic {2**k}x{2**k}, qubits {qs}, n={n}) != element-wise embedding: {info.get('reason')} entry {info.get('entry')}",
                                            cex={"n": n, "qubits": list(qs)}, replay=rp.replay_dict(_native_lift(n, qs), "lifted matrix == definition"), queries=q)
                # the dispatching method on a real gate object (custom gate with that generic matrix)
                gdef = L.gates.CustomGateDefinition("gen", M, ())
                got = gdef()(*qs).lifted_matrix(n)
                v, info = mcheck.decide_equal(got, spec, use_z3=False)
                q += 1
                if v != "equal":
                    return core.refuted("ring-normal-form", f"GateOperation.lifted_matrix on qubits {qs}, n={n} != embedding", cex={"n": n, "qubits": list(qs)},
                                        replay=rp.replay_dict(_native_lift(n, qs), "lifted matrix == definition"), queries=q)
            return core.discharged("ring-normal-form", queries=q, sample={"n": n, "arity": k, "tuples": q // 3})
        return run
    for n in range(1, maxn + 1):
        for k in range(1, min(n, 4) + 1):
            if n == 5 and k == 4:
                continue
            obs.append(Ob(f"C01.lift[n={n},k={k}]", "proof", FNL + [G + ":GateOperation.lifted_matrix"], lift_ob(n, k),
                          f"embedding of a generic {2**k}x{2**k} matrix on EVERY ordered {k}-tuple of distinct qubits of a {n}-qubit register equals the element-wise "
                          f"definition (both adapters and GateOperation.lifted_matrix)", timeout=600,
                          fallback=vprop.enum_ob("x", [], lambda: [0, 7], _check_native, "").run))

    FNC = [C + ":Circuit.to_unitary", C + ":Circuit.__init__", C + ":_circuit_size_by_operations", C + ":_append_operation", C + ":_append_circuit",
           G + ":GateOperation.apply", G + ":GateOperation.lifted_matrix"]

    def mk_ops(L, layout):
        ops, mats = [], []
        for i, qs in enumerate(layout):
            M = generic(f"g{i}_", 2 ** len(qs))
            ops.append(L.gates.CustomGateDefinition(f"g{i}", M, ())()(*qs))
            mats.append((M, qs))
        return ops, mats

    def product_spec(mats, n):
        U = trig.eye(2 ** n)
        for M, qs in mats:
            U = circ_m.embed_spec(M, list(qs), n) @ U
        return U

    LAYOUTS = [((0,), (0,)), ((1,), (0, 1), (1,)), ((2, 0), (1,), (0, 2)), ((0,), (2,)), ((1, 0), (0, 1))]
    if tier != "quick":
        LAYOUTS += [((0, 1, 2), (2,), (1, 0)), ((3,), (0, 2), (1,), (2, 3))]

    def order_ob(layout, pad):
        def run():
            def b():
                L = circ_m.Layer()
                ops, mats = mk_ops(L, layout)
                n0 = max(q for qs in layout for q in qs) + 1
                n = n0 + pad
                circ = L.Circuit(ops, n_qubits=n) if pad else L.Circuit(ops)
                if circ.n_qubits != n:
                    return trig.zeros(1, 1), trig.eye(1)
                return circ.to_unitary(), product_spec(mats, n)
            return mcheck.identity_outcome(b, None, "to_unitary == product in program order of the embedded matrices")
        return run
    for li, layout in enumerate(LAYOUTS):
        for pad in (0, 1):
            obs.append(Ob(f"C01.order[{layout},idle={pad}]", "proof", FNC, order_ob(layout, pad),
                          f"to_unitary of generic non-commuting gates on {layout} (+{pad} idle qubit): right-to-left product of embeddings", timeout=300))

    def apply_ob():
        L = circ_m.Layer()
        q = 0
        for n, qs in [(2, (1,)), (3, (2, 0)), (3, (1, 2, 0))]:
            M = generic("m", 2 ** len(qs))
            op = L.gates.CustomGateDefinition("g", M, ())()(*qs)
            v = generic_vec("v", 2 ** n)
            got = op.apply(v)
            v2, info = mcheck.decide_equal(got, circ_m.embed_spec(M, list(qs), n) @ v, use_z3=False)
            q += 1
            if v2 != "equal":
                return core.refuted("ring-normal-form", f"apply on qubits {qs} of {n}: {info}")
            try:
                op.apply(generic_vec("w", 2 ** n + 1))
                return core.refuted("shadow-execution", "apply accepted a vector whose length is not a power of two")
            except ValueError:
                pass
        return core.discharged("ring-normal-form", queries=q)
    obs.append(Ob("C01.apply", "proof", FNC[-2:], apply_ob, "GateOperation.apply(v) = embedded matrix times v for a generic state vector; bad lengths raise ValueError"))

    def concat_ob():
        L = circ_m.Layer()
        q = 0
        for la, lb in [(((0,), (1, 0)), ((2,), (0, 2))), (((2, 1),), ((0,),)), (((0,),), ())]:
            opsa, matsa = mk_ops(L, la)
            opsb, matsb = mk_ops(L, lb)
            # rename second family so that the entries are independent
            opsb, matsb = [], []
            for i, qs in enumerate(lb):
                M = generic(f"h{i}_", 2 ** len(qs))
                opsb.append(L.gates.CustomGateDefinition(f"h{i}", M, ())()(*qs))
                matsb.append((M, qs))
            ca, cb = L.Circuit(opsa), L.Circuit(opsb)
            cc = ca + cb
            n = max(ca.n_qubits, cb.n_qubits)
            if cc.n_qubits != n or list(cc.operations) != opsa + opsb or list(ca.operations) != opsa:
                return core.refuted("shadow-execution", f"concatenation of {la} and {lb}: width {cc.n_qubits} (expected {n}) / operations not concatenated in order")
            v, info = mcheck.decide_equal(cc.to_unitary(), product_spec(matsa + matsb, n), use_z3=False)
            q += 1
            if v != "equal":
                return core.refuted("ring-normal-form", f"(c1 + c2).to_unitary != U(c2) U(c1): {info}")
            c3 = ca + opsb[0] if opsb else ca
            if opsb and (list(c3.operations) != opsa + opsb[:1] or c3.n_qubits != max(ca.n_qubits, max(lb[0]) + 1)):
                return core.refuted("shadow-execution", "circuit + operation: order / width")
        return core.discharged("ring-normal-form", queries=q)
    obs.append(Ob("C01.concat", "proof", FNC[:5], concat_ob, "c1 + c2 composes the actions (U(c2) U(c1)), keeps operation order and the larger register width"))

    def sim_ob(kind):
        def run():
            L = circ_m.Layer()
            gmod = circ_m._mod(L.gates)
            import sympy as _real_sympy
            sy = trig._NS("sympy", **{k: v for k, v in trig.SYMPY.__dict__.items() if k != "_name"}, Number=_real_sympy.Number)
            wo = src.shadow_load(WO, {"np": trig.NUMPY, "sympy": sy}, rebind=L.shadows())
            ws = src.shadow_load(WS, {"np": trig.NUMPY, "split_circuit": L.circ.split_circuit, "Wavefunction": (lambda s: s),
                                      "GateOperation": L.gates.GateOperation, "Circuit": L.Circuit})
            ss = src.shadow_load(SS, {"BaseWavefunctionSimulator": ws.BaseWavefunctionSimulator})
            Base = ws.BaseWavefunctionSimulator
            log = []

            class OnlyQubit0Native(Base):
                def is_natively_supported(self, op):
                    return isinstance(op, L.gates.GateOperation) and op.qubit_indices[0] == 0

                def _get_wavefunction_from_native_circuit(self, circuit, initial_state):
                    log.append(len(circuit.operations))
                    st = initial_state
                    for op in circuit.operations:
                        st = op.apply(st)
                    return st

            class NothingNative(OnlyQubit0Native):
                def is_natively_supported(self, op):
                    return False

            class DefaultNative(OnlyQubit0Native):
                is_natively_supported = Base.is_natively_supported
            sim = {"symbolic": ss.SymbolicSimulator, "qubit0-native": OnlyQubit0Native, "nothing-native": NothingNative, "gates-native": DefaultNative}[kind]()
            n = 3
            layout = ((0,), (1, 2), (0, 1), (2,), (2, 0))
            ops, mats = mk_ops(L, layout)
            phases = tuple(trig.Poly.var(f"ph{i}") for i in range(2 ** n))
            mp = wo.MultiPhaseOperation(phases)
            seq = ops[:2] + [mp] + ops[2:4] + [mp] + ops[4:]
            circ = L.Circuit(seq, n_qubits=n)
            v0 = generic_vec("v", 2 ** n)
            D = trig.zeros(2 ** n, 2 ** n)
            for i in range(2 ** n):
                D[i, i] = trig.exp(trig.Poly.const(1j) * phases[i])
            U = trig.eye(2 ** n)
            for item in seq:
                U = (D if item is mp else circ_m.embed_spec(item.gate.matrix, list(item.qubit_indices), n)) @ U
            q = 0
            for init, vec in (("given", v0), ("default", None)):
                got = sim.get_wavefunction(circ, vec) if vec is not None else sim.get_wavefunction(circ)
                if vec is None:
                    e0 = trig.zeros(2 ** n, 1)
                    e0[0, 0] = 1
                    want = U @ e0
                else:
                    want = U @ v0
                v, info = mcheck.decide_equal(trig.SMat(got) if not isinstance(got, trig.SMat) else got, want, use_z3=False)
                q += 1
                if v != "equal":
                    return core.refuted("ring-normal-form", f"{kind} simulator, initial state {init}: final state != ordered product applied to the initial state: {info.get('reason')}")
            if v0.free_symbols != generic_vec("v", 2 ** n).free_symbols:
                return core.refuted("shadow-execution", "initial state modified")
            return core.discharged("ring-normal-form", queries=q, sample={"native_segments": list(log)})
        return run
    for kind in ("symbolic", "qubit0-native", "nothing-native", "gates-native"):
        obs.append(Ob(f"C01.sim[{kind}]", "proof", [WS + ":BaseWavefunctionSimulator.get_wavefunction", SS + ":SymbolicSimulator._get_wavefunction_from_native_circuit",
                                                     C + ":split_circuit", WO + ":MultiPhaseOperation.apply"], sim_ob(kind),
                      f"{kind} simulator: final state of a 3-qubit circuit of generic gates with phase-only operations interleaved equals the ordered product "
                      f"applied to a generic / the default initial state", timeout=300,
                      fallback=vprop.enum_ob("x", [], lambda: [2, 4, 5], _check_native, "").run))

    # ---- all circuit lengths / widths: structure of to_unitary and concatenation over the abstract gate model (Engine V)
    from vfw import cmodel, vcontract as vc
    cs = cmodel.contracts()
    fbn = vprop.enum_ob("x", [], lambda: range(8), _check_native, "").run

    def setup_self(args, ns):
        args["self"] = cmodel.mk_circuit(ns, "self")
        cmodel.axioms()

    def setup_two(args, ns):
        args["other"] = cmodel.mk_circuit(ns, "other")
        args["circuit"] = cmodel.mk_circuit(ns, "circuit")
        cmodel.axioms()
    obs.append(vprop.fn_ob("C01", cs["to_unitary"], {}, call=lambda ns, a: a["self"].to_unitary(), setup=setup_self, overrides=cmodel.overrides(), fallback=fbn,
                           obid="C01.to_unitary.all_lengths.contract", replay_code=cmodel.replay("to_unitary"), timeout_ms=30000,
                           desc="for circuits of ANY length and width: to_unitary = reduce(matmul) over [lift(op_{m-1}), ..., lift(op_0)] on the circuit's own width (loop invariant), "
                                "identity for the empty circuit, ValueError iff some operation is not a gate operation"))
    obs.append(vprop.fn_ob("C01", cs["append"], {}, call=lambda ns, a: ns["_append_circuit"](a["other"], a["circuit"]), setup=setup_two, overrides=cmodel.overrides(), fallback=fbn,
                           obid="C01.append_circuit.all_lengths.contract", replay_code=cmodel.replay("append"), timeout_ms=30000,
                           desc="for circuits of ANY length: c1 + c2 has the operations of c1 followed by those of c2 and the larger register width"))
    from props import C01append
    obs.extend(C01append.build(fbn))
    obs.extend(C01append.build_size(fbn))
    from props import C01ctor
    obs.extend(C01ctor.build(fbn))
    obs.append(vprop.enum_ob("C01.native.enum", FNL + FNC, lambda: range(8), _check_native,
                             "bounded: native numeric path - random gates on random placements vs the element-wise definition (n<=5, arity<=4), built-in circuits incl. H, "
                             "the same wrapped gates with equal parameters used twice in one process, SymbolicSimulator vs to_unitary; concatenation of all pairs from a pool incl. operation-less "
                             "circuits with declared widths; explicit complex initial states reused across calls; base-class simulators with six kinds of native sets and phase operations anywhere; "
                             "circuits of 15..257 operations; free-symbol gates on every ordered tuple (n <= 4)", exhaustive=False, timeout=900))
    return obs


def _check_native(mode):
    import numpy as np
    import sympy
    from orquestra.quantum.circuits import Circuit, CustomGateDefinition, X, Z, H, RX, RY, CNOT, SWAP, T
    from orquestra.quantum.runners.symbolic_simulator import SymbolicSimulator
    rng = np.random.default_rng(11 + mode)

    def embed(M, qs, n):
        k = len(qs)
        bit = lambda i, q: (i >> (n - 1 - q)) & 1
        E = np.zeros((2 ** n, 2 ** n), dtype=complex)
        for r in range(2 ** n):
            for c in range(2 ** n):
                if all(bit(r, q) == bit(c, q) for q in range(n) if q not in qs):
                    sr = sum(bit(r, q) << (k - 1 - t) for t, q in enumerate(qs))
                    sc = sum(bit(c, q) << (k - 1 - t) for t, q in enumerate(qs))
                    E[r, c] = M[sr, sc]
        return E
    if mode == 0:
        for n in range(1, 6):
            for k in range(1, min(n, 4) + 1):
                for _ in range(3):
                    qs = tuple(int(x) for x in rng.permutation(n)[:k])
                    M = rng.normal(size=(2 ** k, 2 ** k)) + 1j * rng.normal(size=(2 ** k, 2 ** k))
                    g = CustomGateDefinition("g", sympy.Matrix(M.tolist()), ())()
                    if not np.allclose(np.array(g(*qs).lifted_matrix(n), dtype=complex), embed(M, qs, n), atol=1e-9):
                        return False, f"numeric embedding on {qs} of {n} differs from the definition"
        return True, "ok"
    if mode == 1:
        # the same kind of wrapped gate with equal parameters, used one after the other in one process
        mats = lambda g: np.array(g.matrix.tolist(), dtype=complex)
        pairs = [(X.controlled(1), Z.controlled(1)), (RX(0.3).controlled(1), RY(0.3).controlled(1)), (T.dagger, T), (SWAP.controlled(1), CNOT.controlled(1))]
        for rnd in range(2):
            for a, b in pairs:
                for g in (a, b):
                    qs = tuple(range(g.num_qubits))[::-1]
                    n = g.num_qubits + 1
                    c = Circuit([g(*qs)], n_qubits=n)
                    if not np.allclose(np.array(c.to_unitary(), dtype=complex), embed(mats(g), qs, n), atol=1e-9):
                        return False, f"{g} on {qs}: to_unitary differs from the embedding of its own matrix (after other gates were evaluated)"
                    v = rng.normal(size=2 ** n) + 1j * rng.normal(size=2 ** n)
                    if not np.allclose(np.array(g(*qs).apply(v), dtype=complex).ravel(), embed(mats(g), qs, n) @ v, atol=1e-9):
                        return False, f"{g} on {qs}: apply differs from the embedding"
        return True, "ok"
    if mode == 3:
        # concatenation keeps the operations in order and the larger width, also when an operand has no operations but a declared width;
        # the matrix of the sum is the product (second operand applied last) on that width
        pool = [[], [X(0)], [CNOT(0, 1), T(1)], [RX(0.4)(2)]]
        for ops1, ops2 in itertools.product(pool, repeat=2):
            for e1, e2 in itertools.product((0, 1, 2), repeat=2):
                w1 = max([q for o in ops1 for q in o.qubit_indices], default=-1) + 1 + e1
                w2 = max([q for o in ops2 for q in o.qubit_indices], default=-1) + 1 + e2
                c1, c2 = Circuit(ops1, n_qubits=w1), Circuit(ops2, n_qubits=w2)
                s_ = c1 + c2
                if s_.n_qubits != max(w1, w2) or list(s_.operations) != list(ops1) + list(ops2):
                    return False, f"Circuit({len(ops1)} ops, n_qubits={w1}) + Circuit({len(ops2)} ops, n_qubits={w2}): width {s_.n_qubits} (expected {max(w1, w2)}), {len(s_.operations)} operations"
                if c1.n_qubits != w1 or c2.n_qubits != w2 or list(c1.operations) != list(ops1) or list(c2.operations) != list(ops2):
                    return False, "an operand of + was modified"
                n = max(w1, w2)
                if 0 < n <= 4:
                    W = np.eye(2 ** n, dtype=complex)
                    for op in list(ops1) + list(ops2):
                        W = embed(np.array(op.gate.matrix.tolist(), dtype=complex), op.qubit_indices, n) @ W
                    U = np.array(s_.to_unitary(), dtype=complex)
                    if U.shape != W.shape or not np.allclose(U, W, atol=1e-9):
                        return False, f"to_unitary of Circuit(n_qubits={w1}) + Circuit(n_qubits={w2}) has shape {U.shape}, expected the product on {n} qubits"
                for op in ops2[:1]:
                    s2 = c1 + op
                    if list(s2.operations) != list(ops1) + [op] or s2.n_qubits != max(w1, max(op.qubit_indices) + 1):
                        return False, "circuit + operation"
        return True, "ok"
    if mode == 4:
        # simulators: an explicit initial state (complex ndarray) is not modified and the same call twice gives the same state,
        # whatever kind of operation comes first (phase-only operation, diagonal gate, ordinary gate)
        from orquestra.quantum.circuits import MultiPhaseOperation, RZ, S
        firsts = [MultiPhaseOperation(tuple(0.1 * (i + 1) for i in range(8))), T(1), RZ(0.7)(2), S(0), Z(0), H(0), X(2)]
        for first in firsts:
            c = Circuit([first, H(0), CNOT(0, 2), RX(0.4)(1)], n_qubits=3)
            for dtype in (complex, np.complex128):
                v0 = (rng.normal(size=8) + 1j * rng.normal(size=8)).astype(dtype)
                v0 /= np.linalg.norm(v0)
                keep = v0.copy()
                a1 = np.array(SymbolicSimulator().get_wavefunction(c, initial_state=v0).amplitudes, dtype=complex)
                if not np.array_equal(v0, keep):
                    return False, f"get_wavefunction modified the caller's initial state (first operation {first})"
                a2 = np.array(SymbolicSimulator().get_wavefunction(c, initial_state=v0).amplitudes, dtype=complex)
                W = np.eye(8, dtype=complex)
                for op in c.operations:
                    if hasattr(op, "gate"):
                        W = embed(np.array(op.gate.matrix.tolist(), dtype=complex), op.qubit_indices, 3) @ W
                    else:
                        W = np.diag(np.exp(1j * np.array(op.params, dtype=float))) @ W
                if not np.allclose(a1, W @ keep, atol=1e-9) or not np.allclose(a2, a1, atol=1e-12):
                    return False, f"state from an explicit initial state differs from the ordered product / between two identical calls (first operation {first})"
                for op in c.operations:
                    w0 = keep.copy()
                    op.apply(w0)
                    if not np.array_equal(w0, keep):
                        return False, f"{op}.apply modified the vector it was given"
        return True, "ok"
    if mode == 5:
        # base-class simulators with every kind of native set, phase-only operations anywhere (first, last, adjacent, between non-commuting gates):
        # the state is the ordered product; the circuits counter grows by the number of native segments actually run
        from orquestra.quantum.api.wavefunction_simulator import BaseWavefunctionSimulator
        from orquestra.quantum.circuits import MultiPhaseOperation, GateOperation
        from orquestra.quantum.wavefunction import Wavefunction

        def make(native):
            class Sim(BaseWavefunctionSimulator):
                runs = 0

                def is_natively_supported(self, op):
                    return native(op)

                def _get_wavefunction_from_native_circuit(self, circuit, initial_state):
                    Sim.runs += 1
                    st = np.array(initial_state, dtype=complex)
                    for op in circuit.operations:
                        st = np.array(op.apply(st), dtype=complex).ravel()
                    return Wavefunction(st)
            return Sim
        natives = {"gates": lambda op: isinstance(op, GateOperation), "nothing": lambda op: False, "everything": lambda op: True,
                   "one-qubit gates": lambda op: isinstance(op, GateOperation) and len(op.qubit_indices) == 1,
                   "two-qubit gates": lambda op: isinstance(op, GateOperation) and len(op.qubit_indices) == 2,
                   "phases only": lambda op: isinstance(op, MultiPhaseOperation)}
        mp = lambda k: MultiPhaseOperation(tuple(0.1 * (i + 1) * (k + 1) for i in range(8)))
        mpa = lambda k: MultiPhaseOperation(np.array([0.1 * (i + 1) * (k + 1) for i in range(8)]))        # the same angles held in a float array
        ma0 = mpa(0)
        circuits = [[mp(0), CNOT(0, 1), mp(1)], [mp(0)], [mp(0), mp(1), H(0)], [mpa(0), mpa(1), H(0), mpa(2), mp(0), mpa(1)], [ma0, mp(1), H(1), ma0, mpa(2), ma0], [H(0), mp(0), CNOT(0, 2), RX(0.3)(1), mp(1), SWAP(1, 2), mp(2)],
                    [H(1), CNOT(1, 0), mp(0), H(2), mp(1), mp(2), T(0), CNOT(2, 1)], [RX(0.4)(0), mp(0), RY(0.7)(0), mp(1), CNOT(0, 1), mp(0), H(1)]]
        for name, native in natives.items():
            for ops in circuits:
                c = Circuit(ops, n_qubits=3)
                W = np.eye(8, dtype=complex)
                for op in ops:
                    W = (embed(np.array(op.gate.matrix.tolist(), dtype=complex), op.qubit_indices, 3) if hasattr(op, "gate") else np.diag(np.exp(1j * np.array(op.params, dtype=float)))) @ W
                Sim = make(native)
                sim = Sim()
                params0 = [np.array(op.params, dtype=float).copy() for op in ops if not hasattr(op, "gate")]
                for call in range(3):        # the same circuit evaluated again gives the same state: evaluating never rewrites an operation
                    a = np.array(sim.get_wavefunction(c).amplitudes, dtype=complex).ravel()
                    if not np.allclose(a, W[:, 0], atol=1e-9):
                        return False, f"simulator whose native set is '{name}', circuit {c}, call #{call + 1}: state differs from the ordered product (max deviation {abs(a - W[:, 0]).max():.3g})"
                if any(not np.array_equal(p0, np.array(op.params, dtype=float)) for p0, op in zip(params0, [op for op in ops if not hasattr(op, "gate")])):
                    return False, f"simulator whose native set is '{name}': evaluating {c} changed the angles of one of its phase operations"
                if sim.n_circuits_executed != Sim.runs:
                    return False, f"simulator whose native set is '{name}', circuit {c}: n_circuits_executed = {sim.n_circuits_executed} but {Sim.runs} native segments were run"
        return True, "ok"
    if mode == 6:
        # long circuits (lengths around powers of two and 100): to_unitary equals the ordered product
        pool = [H(0), CNOT(0, 1), RX(0.37)(2), T(1), CNOT(1, 2), RY(1.1)(0), SWAP(0, 2), S(2)] if False else None
        from orquestra.quantum.circuits import S
        pool = [H(0), CNOT(0, 1), RX(0.37)(2), T(1), CNOT(1, 2), RY(1.1)(0), SWAP(0, 2), S(2)]
        for L_ in (15, 16, 17, 31, 33, 63, 64, 65, 100, 129, 257):
            ops = [pool[(j * 5 + j // 7) % len(pool)] for j in range(L_)]
            c = Circuit(ops, n_qubits=3)
            W = np.eye(8, dtype=complex)
            for op in ops:
                W = embed(np.array(op.gate.matrix.tolist(), dtype=complex), op.qubit_indices, 3) @ W
            U = np.array(c.to_unitary(), dtype=complex)
            if not np.allclose(U, W, atol=1e-8):
                return False, f"to_unitary of a circuit of {L_} operations differs from the ordered product (max deviation {abs(U - W).max():.3g})"
            st = np.zeros(8, dtype=complex)
            st[0] = 1
            if L_ in (65, 129) and not np.allclose(np.array(SymbolicSimulator().get_wavefunction(c).amplitudes, dtype=complex).ravel(), W[:, 0], atol=1e-8):
                return False, f"SymbolicSimulator on a circuit of {L_} operations differs from the ordered product"
        return True, "ok"
    if mode == 7:
        # gates that still carry a free symbol go through the symbolic embedding: every ordered tuple, 2- and 3-qubit gates
        th = sympy.Symbol("theta")
        from orquestra.quantum.circuits import XX, CPHASE
        for n in (2, 3, 4):
            for mk in (lambda t: RY(t).controlled(1), XX, CPHASE, lambda t: RX(t).controlled(2)):
                k = mk(0.1).num_qubits
                if k > n:
                    continue
                for qs in itertools.permutations(range(n), k):
                    Ls = np.array(sympy.Matrix(mk(th)(*qs).lifted_matrix(n)).subs({th: 0.7}).evalf().tolist(), dtype=complex)
                    Ln = embed(np.array(mk(0.7).matrix.tolist(), dtype=complex), qs, n)
                    if Ls.shape != Ln.shape or not np.allclose(Ls, Ln, atol=1e-9):
                        return False, f"symbolic embedding of {mk(th)} on qubits {qs} of {n} differs from the definition after substituting theta"
        # circuits made ONLY of gates with free symbols (consecutive non-commuting ones, same and different qubits): to_unitary, then substitute
        a_, b_, c_ = sympy.symbols("a b c")
        vals = {a_: 0.37, b_: -1.1, c_: 2.3}
        from orquestra.quantum.circuits import RZ
        for ops in ([RX(a_)(0), RY(b_)(0)], [RX(a_)(0), RY(b_)(0), RZ(c_)(0), RX(b_)(0)], [RX(a_)(0), RY(b_)(1), XX(c_)(0, 1), RY(a_)(0), RX(c_)(1)],
                    [XX(a_)(0, 2), RY(b_)(2), RX(c_)(2), CPHASE(a_)(2, 1), RY(c_)(1)]):
            c = Circuit(ops)
            Us = np.array(sympy.Matrix(c.to_unitary()).subs(vals).evalf().tolist(), dtype=complex)
            W = np.eye(2 ** c.n_qubits, dtype=complex)
            for op in ops:
                W = embed(np.array(op.gate.bind(vals).matrix.tolist(), dtype=complex), op.qubit_indices, c.n_qubits) @ W
            Ub = np.array(c.bind(vals).to_unitary(), dtype=complex)
            if not np.allclose(Us, W, atol=1e-9) or not np.allclose(Ub, W, atol=1e-9):
                return False, f"all-symbolic circuit {c}: to_unitary (substituted afterwards / bound first) differs from the ordered product " \
                              f"(deviations {abs(Us - W).max():.3g} / {abs(Ub - W).max():.3g})"
        return True, "ok"
    c = Circuit([H(0), CNOT(0, 2), RX(0.4)(1), SWAP(2, 1), T(0), CNOT(2, 0)], n_qubits=4)
    U = np.array(c.to_unitary(), dtype=complex)
    W = np.eye(16, dtype=complex)
    for op in c.operations:
        W = embed(np.array(op.gate.matrix.tolist(), dtype=complex), op.qubit_indices, 4) @ W
    if not np.allclose(U, W, atol=1e-9):
        return False, "to_unitary of a built-in circuit differs from the ordered product"
    wf = SymbolicSimulator().get_wavefunction(c)
    if not np.allclose(np.array(wf.amplitudes, dtype=complex), W[:, 0], atol=1e-9):
        return False, "SymbolicSimulator state differs from the matrix applied to |0..0>"
    return True, "ok"
