"""C01, `_append_operation` under contract (Engine V, abstract circuit model of vfw/cmodel.py): for circuits of ANY length and an operation on ANY qubit tuple,
`circuit + operation` holds the circuit's operations in order followed by the operation, and its register width is the larger of the circuit's width and
(largest qubit index of the operation) + 1 - so it covers every qubit the new operation touches and never shrinks."""
from __future__ import annotations

import z3

from vfw import cmodel, sym, vcontract as vc, vprop, vtypes
from vfw.sym import SObj, SSeq, SInt


def build(fb=None):
    cmodel.install()
    spec = dict(cmodel.SPEC)

    def width_ok(w, circuit, other):
        """w = max(circuit width, max qubit of `other` + 1): at least both, and equal to one of them"""
        c = sym.cur()
        c.n += 1
        t = z3.Int(f"t!wo{c.n}")
        o = sym.lift(other)
        n = sym.lift(circuit._n_qubits)
        ww = sym.lift(w)
        ql = cmodel.QS_LEN(o)
        covers = z3.ForAll([t], z3.Implies(z3.And(0 <= t, t < ql), cmodel.QS_AT(o, t) + 1 <= ww), patterns=[cmodel.QS_AT(o, t)])
        attained = z3.Or(ww == n, z3.Exists([t], z3.And(0 <= t, t < ql, cmodel.QS_AT(o, t) + 1 == ww)))
        return sym.wrap_expr(z3.And(ww >= n, covers, attained))
    spec["WIDTH_OK"] = width_ok
    c = vc.Contract(key=cmodel.CIRC + ":_append_operation", params={"other": "Obj:GateOp", "circuit": "Any"},
                    requires="circuit._n_qubits >= 1 and QLEN(other) >= 1",
                    ensures="WIDTH_OK(result.n_qubits, circuit, other) and len(result.operations) == len(circuit._operations) + 1 and "
                            "all(result.operations[j] == circuit._operations[j] for j in range(len(circuit._operations))) and result.operations[len(circuit._operations)] == other",
                    spec=spec, doc="circuit + operation: the circuit's operations in order followed by the operation; width = max(circuit width, largest qubit of the operation + 1)")

    def setup(args, ns):
        args["circuit"] = cmodel.mk_circuit(ns, "circuit")
        cmodel.axioms()
    return [vprop.fn_ob("C01", c, {}, call=lambda ns, a: ns["_append_operation"](a["other"], a["circuit"]), setup=setup, overrides=cmodel.overrides(), fallback=fb,
                        obid="C01.append_operation.all_lengths.contract", desc=c.doc, timeout_ms=30000)]


def build_size(fb=None):
    """`_circuit_size_by_operations(ops)`: 0 for no operations, otherwise (largest qubit index over ALL operations) + 1"""
    cmodel.install()

    def size_ok(r, ops):
        s = SSeq.of(ops)
        c = sym.cur()
        c.n += 1
        j, t = z3.Int(f"j!sz{c.n}"), z3.Int(f"t!sz{c.n}")
        n = sym.lift(s.length())
        c.nofork += 1
        try:
            oj = sym.lift(s.get(SInt(j)))
        finally:
            c.nofork -= 1
        rr = sym.lift(r)
        inr = z3.And(0 <= j, j < n, 0 <= t, t < cmodel.QS_LEN(oj))
        return sym.wrap_expr(z3.If(n == 0, rr == 0, z3.And(z3.ForAll([j, t], z3.Implies(inr, cmodel.QS_AT(oj, t) + 1 <= rr)),
                                                           z3.Exists([j, t], z3.And(inr, cmodel.QS_AT(oj, t) + 1 == rr)))))
    c = vc.Contract(key=cmodel.CIRC + ":_circuit_size_by_operations", params={"operations": "Seq[Obj:GateOp]"}, result="Int",
                    requires="all(QLEN(o) >= 1 for o in operations)", ensures="SIZE_OK(result, operations)", spec=dict(cmodel.SPEC, SIZE_OK=size_ok),
                    doc="the implied register width: 0 without operations, otherwise the largest qubit index used by any operation plus one")
    return [vprop.fn_ob("C01", c, {}, fallback=fb, obid="C01.circuit_size_by_operations.contract", desc=c.doc, timeout_ms=30000)]
