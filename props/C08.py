"""C08 - circuit-level constructions: inverse, controlled, gate layers, ancillas.

Deductive part (Engine M: real text of _circuit.py, _gates.py, _generators.py, _unitary_tools.py, _matrices.py over the
exact domain, all real parameters, generic custom matrices):
  * inverse: for circuits mixing self-adjoint, parametric, wrapped (controlled / dagger / power) and custom gates on
    non-adjacent qubits with idle qubits: U(c.inverse()) = U(c)^dagger, c + c.inverse() = identity for unitary
    gates, inverse twice has the original action, register width kept;
  * controlled: for every control position k = 0..n the matrix of c.controlled(k) equals
    P0(k) (x) I + P1(k) (x) U(c) on the remaining qubits in order (element-wise specification), register width n+1,
    including circuits whose top qubits are idle and the empty circuit;
  * generators (structure, symbolic parameter rows): layers, apply_gate_to_qubits on unordered collections with
    duplicates, ancilla registers.
Bounded: CPython's ascending iteration of set(range(n)) ("i-th row on qubit i") is an implementation fact, exercised
for n <= 2000; numeric path natively.
"""
from __future__ import annotations

import itertools

from vfw import core, trig, mcheck, circ_m, src, vprop, replay as rp
from vfw.core import Ob
from props.C01 import generic

LEVEL = "proof"
C = circ_m.CIRC
GEN = "orquestra.quantum.circuits._generators"
MANIFEST = {
    "engine": "engine-M",
    "category": "proof",
    "technique": "contract-based deductive verification: postconditions 'U(inverse(c)) = U(c)^dagger', 'U(controlled_k(c)) = P0 (x) I + P1 (x) U(c)' and the structural postconditions of the generator functions generated from the real text by shadow execution over exact symbolic matrices (all real gate parameters, generic custom matrices), exhaustive over control positions; set-iteration order and the float path by bounded native checks",
    "text": "Inverse and controlled are decided as matrix identities for all parameters on circuits that mix every gate kind (self-adjoint, parametric, wrapped, custom) with idle and non-adjacent qubits and for every control position; the generator contracts are decided on symbolic parameter rows for unordered / duplicated qubit collections. Circuit shapes are a fixed representative family (bound stated).",
    "note": "Trusted: exact domain, shadow execution. Bounds: circuits of <= 5 operations on <= 3 (+1 control) qubits. CPython set iteration order assumed for 'i-th row on qubit i' (checked natively).",
}
TRUSTED = ["props/C08ancilla.py: circuit + operation by the contract of _append_operation (C01.append_operation.all_lengths.contract)", "vfw/trig.py exact domain", "shadow execution of the real module text", "CPython iterates set(range(n)) in ascending order (assumed, exercised natively)"]
ASSUMPTIONS = ["bounded to the listed circuit family (complete in gate parameters and custom matrix entries)", "machine arithmetic treated as mathematical in the symbolic part"]
EXTRA = {"explanation": "matrix / structural identities generated from the current text of _circuit.py, _gates.py, _generators.py via Engine M"}


def _circuits(L):
    th, ph = trig.Poly.var("theta"), trig.Poly.var("phi")
    g = L.gate
    cust = L.gates.CustomGateDefinition("gen", generic("m", 2), ())()
    half = trig.Poly.const(0.5)
    out = {
        "mixed": (L.Circuit([g("H")(0), g("RX", th)(2), g("CNOT")(2, 0), g("S")(1), g("U3", th, ph, half)(0)], n_qubits=3), True),
        "wrapped": (L.Circuit([g("T").dagger(1), g("RY", th).controlled(1)(2, 0), g("S").power(3)(0), g("XY", ph)(0, 2), g("RZ", th).dagger.controlled(1)(1, 2)], n_qubits=3), True),
        "idle-top": (L.Circuit([g("X")(0), g("RX", th)(1), g("CNOT")(0, 1)], n_qubits=3), True),
        "custom-generic": (L.Circuit([cust(1), g("CNOT")(0, 1), cust(0)], n_qubits=2), False),
        "single": (L.Circuit([g("SX")(1)], n_qubits=2), True),
        "empty": (L.Circuit([], n_qubits=2), True),
    }
    return out


def controlled_spec(U, n, k):
    """(n+1)-qubit matrix: identity when qubit k is 0, U on the other qubits (in order) when it is 1"""
    N = 2 ** (n + 1)
    out = trig.zeros(N, N)
    rest = [q for q in range(n + 1) if q != k]
    bit = lambda i, q: (i >> (n - q)) & 1
    sub = lambda i: sum(bit(i, q) << (n - 1 - t) for t, q in enumerate(rest))
    for r in range(N):
        for c in range(N):
            if bit(r, k) != bit(c, k):
                continue
            if bit(r, k) == 0:
                if r == c:
                    out[r, c] = 1
            else:
                out[r, c] = U[sub(r), sub(c)]
    return out


def _native(kind):
    return f"""
import numpy as np
from orquestra.quantum.circuits import Circuit, H, RX, RY, RZ, CNOT, S, T, U3, XY, X, SX
c = Circuit([H(0), RX(0.37)(2), CNOT(2, 0), S(1), U3(0.37, 1.1, 0.5)(0), T.dagger(1), RY(0.3).controlled(1)(2, 0), XY(1.1)(0, 2)], n_qubits=4)
U = np.array(c.to_unitary(), dtype=complex)
if {kind!r} == "inverse":
    V = np.array(c.inverse().to_unitary(), dtype=complex)
    OK = bool(np.allclose(V, U.conj().T, atol=1e-9) and c.inverse().n_qubits == 4)
    OBSERVED = f"|U(inverse) - U^dagger|max = {{abs(V - U.conj().T).max()}}"
else:
    ok = True; worst = 0
    n = 4
    for k in range(n + 1):
        cc = c.controlled(k)
        W = np.array(cc.to_unitary(), dtype=complex) if cc.n_qubits == n + 1 else np.zeros((2 ** (n + 1),) * 2)
        rest = [q for q in range(n + 1) if q != k]
        bit = lambda i, q: (i >> (n - q)) & 1
        sub = lambda i: sum(bit(i, q) << (n - 1 - t) for t, q in enumerate(rest))
        E = np.zeros_like(W)
        for r in range(2 ** (n + 1)):
            for cidx in range(2 ** (n + 1)):
                if bit(r, k) == bit(cidx, k):
                    E[r, cidx] = (1.0 if r == cidx else 0.0) if bit(r, k) == 0 else U[sub(r), sub(cidx)]
        worst = max(worst, abs(W - E).max()); ok = ok and np.allclose(W, E, atol=1e-9)
    OK = bool(ok); OBSERVED = f"max deviation of controlled(k) from P0(x)I + P1(x)U over k = {{worst}}"
"""


def build(tier, seed):
    obs = []
    FNI = [C + ":Circuit.inverse", "orquestra.quantum.circuits._gates:MatrixFactoryGate.dagger", "orquestra.quantum.circuits._gates:ControlledGate.dagger",
           "orquestra.quantum.circuits._gates:Dagger.dagger", "orquestra.quantum.circuits._gates:Power.dagger"]
    FNC = [C + ":Circuit.controlled", "orquestra.quantum.circuits._gates:MatrixFactoryGate.controlled", "orquestra.quantum.circuits._gates:ControlledGate.controlled",
           "orquestra.quantum.circuits._gates:Dagger.controlled", "orquestra.quantum.circuits._gates:Power.controlled"]
    names = ["mixed", "wrapped", "idle-top", "custom-generic", "single", "empty"]

    def inverse_ob(name):
        def run():
            L = circ_m.Layer()
            circ, unitary = _circuits(L)[name]
            inv = circ.inverse()
            if inv.n_qubits != circ.n_qubits or len(inv.operations) != len(circ.operations):
                return core.refuted("shadow-execution", f"{name}: inverse has width {inv.n_qubits} / {len(inv.operations)} operations",
                                    replay=rp.replay_dict(_native("inverse"), "U(inverse) = U^dagger"))
            if [o.qubit_indices for o in inv.operations] != [o.qubit_indices for o in reversed(circ.operations)]:
                return core.refuted("shadow-execution", f"{name}: inverse does not reverse the operations on their qubits", replay=rp.replay_dict(_native("inverse"), "reverse order"))
            U = circ.to_unitary()
            q = 0
            for what, a, b in (("U(inverse) = U^dagger", inv.to_unitary(), U.adjoint()), ("inverse twice", inv.inverse().to_unitary(), U)):
                v, info = mcheck.decide_equal(a, b, use_z3=False)
                q += 1
                if v != "equal":
                    return core.refuted("ring-normal-form", f"{name}: {what} fails: {info.get('reason')} entry {info.get('entry')}", replay=rp.replay_dict(_native("inverse"), what), queries=q)
            if unitary and circ.operations:
                v, info = mcheck.decide_equal((circ + inv).to_unitary(), trig.eye(U.rows), use_z3=False)
                q += 1
                if v != "equal":
                    return core.refuted("ring-normal-form", f"{name}: circuit followed by its inverse is not the identity", replay=rp.replay_dict(_native("inverse"), "c + c.inverse() = I"), queries=q)
            return core.discharged("ring-normal-form", queries=q)
        return run
    for nm in names:
        obs.append(Ob(f"C08.inverse[{nm}]", "proof", FNI, inverse_ob(nm),
                      f"circuit '{nm}': U(inverse) = U^dagger, inverse twice = original action, c + c.inverse() = I (unitary gates), same width; all real parameters", timeout=600,
                      fallback=vprop.enum_ob("x", [], lambda: [0, 3], _check_native, "").run))

    def controlled_ob(name):
        def run():
            L = circ_m.Layer()
            circ, _ = _circuits(L)[name]
            n = circ.n_qubits
            U = circ.to_unitary()
            if not isinstance(U, trig.SMat):
                U = trig.eye(2 ** n)
            q = 0
            for k in range(n + 1):
                cc = circ.controlled(k)
                if cc.n_qubits != n + 1:
                    return core.refuted("shadow-execution", f"{name}: controlled({k}) has register width {cc.n_qubits}, expected {n + 1}",
                                        replay=rp.replay_dict(_native("controlled"), "width n+1"))
                W = cc.to_unitary()
                if not isinstance(W, trig.SMat):
                    W = trig.eye(2 ** (n + 1))
                v, info = mcheck.decide_equal(W, controlled_spec(U, n, k), use_z3=False)
                q += 1
                if v != "equal":
                    return core.refuted("ring-normal-form", f"{name}: controlled({k}) != P0 (x) I + P1 (x) U(c): {info.get('reason')} entry {info.get('entry')}",
                                        replay=rp.replay_dict(_native("controlled"), "controlled semantics"), queries=q)
            if len(circ.operations) != len(_circuits(L)[name][0].operations):
                return core.refuted("shadow-execution", "receiver modified")
            return core.discharged("ring-normal-form", queries=q, sample={"control_positions": n + 1})
        return run
    for nm in names:
        obs.append(Ob(f"C08.controlled[{nm}]", "proof", FNC, controlled_ob(nm),
                      f"circuit '{nm}': for every control position k, controlled(k) = identity when the control is 0 and the original circuit on the remaining qubits (shifted) when 1; width n+1", timeout=900,
                      fallback=vprop.enum_ob("x", [], lambda: [1], _check_native, "").run))

    def generators():
        L = circ_m.Layer()
        b = L.builtin
        gen = src.shadow_load(GEN, {"np": trig.NUMPY, "I": b.I, "Circuit": L.Circuit, "GatePrototype": object, "Gate": object, "warn": (lambda *a, **k: None)}, rebind=L.shadows())
        rows = lambda n, k: [tuple(trig.Poly.var(f"r{i}_{j}") for j in range(k)) for i in range(n)]
        # layers: one gate per qubit 0..n-1, i-th row on qubit i
        for n in (1, 3, 5):
            for proto, k in ((b.RX, 1), (b.U3, 3)):
                ps = rows(n, k)
                c = gen.create_layer_of_gates(n, proto, ps)
                got = sorted((op.qubit_indices, tuple(op.params)) for op in c.operations)
                if got != sorted(((i,), ps[i]) for i in range(n)) or c.n_qubits != n:
                    return core.refuted("shadow-execution", f"create_layer_of_gates({n}, {proto}) -> {[str(o) for o in c.operations]}")
            c = gen.create_layer_of_gates(n, b.H)
            if sorted(op.qubit_indices for op in c.operations) != [(i,) for i in range(n)] or any(op.gate.name != "H" for op in c.operations):
                return core.refuted("shadow-execution", "layer of a parameter-free gate")
        # apply_gate_to_qubits: unordered collections with duplicates; each parameter row used exactly once; existing operations kept
        base_ops = [b.X(0), b.CNOT(0, 3)]
        for coll in ((2, 2, 3), [5, 1, 1, 5, 0], (3,), (7, 2), [4, 4]):
            base = L.Circuit(list(base_ops), n_qubits=4)
            uniq = sorted(set(coll))
            ps = rows(len(uniq), 1)
            import warnings
            with warnings.catch_warnings():
                warnings.simplefilter("ignore")
                c = gen.apply_gate_to_qubits(base, coll, b.RZ, ps)
                c2 = gen.apply_gate_to_qubits(base, coll, b.H)
            if list(base.operations) != base_ops:
                return core.refuted("shadow-execution", "apply_gate_to_qubits modified the input circuit")
            for cc, withp in ((c, True), (c2, False)):
                if list(cc.operations[:2]) != base_ops:
                    return core.refuted("shadow-execution", f"existing operations not kept in place for {coll}")
                new = cc.operations[2:]
                if sorted(op.qubit_indices for op in new) != [(q,) for q in uniq]:
                    return core.refuted("shadow-execution", f"apply_gate_to_qubits({list(coll)}): new gates act on {[o.qubit_indices for o in new]}, expected one per distinct qubit {uniq}",
                                        replay=rp.replay_dict(_native_gen(list(coll)), "one gate per distinct qubit"))
                if withp and sorted(str(op.params) for op in new) != sorted(str(p) for p in ps):
                    return core.refuted("shadow-execution", f"parameter rows not used exactly once for {coll}")
            try:
                gen.apply_gate_to_qubits(L.Circuit(), coll, b.RZ, rows(len(uniq) + 1, 1))
                return core.refuted("shadow-execution", "wrong number of parameter rows accepted")
            except AssertionError:
                pass
        # ancillas
        th = trig.Poly.var("theta")
        c0 = L.Circuit([b.RX(th)(0), b.CNOT(0, 2)], n_qubits=4)
        U0 = c0.to_unitary()
        for a in (0, 1, 2):
            ca = gen.add_ancilla_register(c0, a)
            if ca.n_qubits != 4 + a or list(ca.operations[:2]) != list(c0.operations) or len(ca.operations) != 2 + a:
                return core.refuted("shadow-execution", f"add_ancilla_register(+{a}): width {ca.n_qubits}, {len(ca.operations)} operations")
            v, info = mcheck.decide_equal(ca.to_unitary(), trig.kron(U0, trig.eye(2 ** a)), use_z3=False)
            if v != "equal":
                return core.refuted("ring-normal-form", "ancilla register changes the action on the original qubits")
        return core.discharged("shadow-execution", queries=40)
    obs.append(Ob("C08.generators", "proof", [GEN + ":create_layer_of_gates", GEN + ":apply_gate_to_qubits", GEN + ":add_ancilla_register"], generators,
                  "layers hold one gate per qubit with its own parameter row; apply_gate_to_qubits adds one gate per DISTINCT qubit (unordered, duplicated collections), uses each row once, "
                  "keeps existing operations and the input circuit; ancilla registers widen by exactly a and keep the action (symbolic parameter rows)", timeout=600,
                  fallback=vprop.enum_ob("x", [], _gen_colls, _check_gen_coll, "").run))
    from props import C08ancilla, C08apply
    obs.extend(C08ancilla.build())
    obs.extend(C08apply.build(vprop.enum_ob("x", [], _gen_colls, _check_gen_coll, "").run))
    obs.append(vprop.enum_ob("C08.generators.enum", [GEN + ":apply_gate_to_qubits"], _gen_colls, _check_gen_coll,
                             "bounded-exhaustive: apply_gate_to_qubits on EVERY sequence of length <= 4 over three qubit indices (all duplicate patterns, adjacent or not, both container "
                             "kinds): one gate per distinct qubit, each parameter row used once, existing operations and input circuit untouched"))
    # ---- all circuit lengths / widths / control positions: structure over the abstract gate model (Engine V)
    from vfw import cmodel, vcontract as vc
    cs = cmodel.contracts()
    fbn = vprop.enum_ob("x", [], lambda: [0, 1, 3], _check_native, "").run

    def setup_self(args, ns):
        args["self"] = cmodel.mk_circuit(ns, "self")
        cmodel.axioms()
    obs.append(vprop.fn_ob("C08", cs["inverse"], {}, call=lambda ns, a: a["self"].inverse(), setup=setup_self, overrides=cmodel.overrides(), fallback=fbn,
                           obid="C08.inverse.all_lengths.contract", timeout_ms=30000, replay_code=cmodel.replay("inverse"),
                           desc="for circuits of ANY length: inverse keeps the width, operation j is the dagger of operation m-1-j on exactly the same qubit tuple; "
                                "a non-gate operation trips the assertion"))
    obs.append(vprop.fn_ob("C08", cs["controlled"], {}, call=lambda ns, a: a["self"].controlled(a["control_index"]), setup=setup_self, overrides=cmodel.overrides(), fallback=fbn,
                           obid="C08.controlled.all_lengths.contract", timeout_ms=30000, replay_code=cmodel.replay("controlled"),
                           desc="for circuits of ANY length and EVERY control index: width max(n,k)+1, operation j = gate_j.controlled(1) on (k, qubits of op j with indices >= k shifted by one), "
                                "same order; the shift never produces k (loop invariant)"))
    obs.append(vprop.enum_ob("C08.native.enum", FNI + FNC + [GEN + ":create_layer_of_gates"], lambda: range(4), _check_native,
                             "bounded: native numeric inverse / controlled on a 4-qubit circuit with every control position; i-th parameter row on qubit i for layers up to 2000 qubits "
                             "(CPython set order)", exhaustive=False, timeout=900))
    return obs


def _check_gen_coll(coll):
    """natively: apply_gate_to_qubits on an unordered collection with duplicates anywhere: exactly one new gate per DISTINCT qubit, every parameter row
    used exactly once, existing operations kept in place, input circuit untouched"""
    import warnings
    from orquestra.quantum.circuits import Circuit, RZ, H, X, CNOT, apply_gate_to_qubits
    coll = list(coll)
    uniq = sorted(set(coll))
    base_ops = [X(0), CNOT(0, 3)]
    base = Circuit(list(base_ops), n_qubits=4)
    rows = [[0.05 + 0.1 * i] for i in range(len(uniq))]
    for container in (list, tuple):
        with warnings.catch_warnings():
            warnings.simplefilter("ignore")
            c = apply_gate_to_qubits(base, container(coll), RZ, rows)
            c2 = apply_gate_to_qubits(base, container(coll), H)
        if list(base.operations) != base_ops or base.n_qubits != 4:
            return False, "apply_gate_to_qubits modified the input circuit"
        for cc, withp in ((c, True), (c2, False)):
            new = cc.operations[2:]
            if list(cc.operations[:2]) != base_ops or sorted(o.qubit_indices for o in new) != [(q,) for q in uniq]:
                return False, f"apply_gate_to_qubits({coll}): new gates act on {[o.qubit_indices for o in new]}, expected one per distinct qubit {uniq}"
            if withp and sorted(float(o.params[0]) for o in new) != sorted(r[0] for r in rows):
                return False, f"apply_gate_to_qubits({coll}): parameter rows {[o.params for o in new]} are not the given rows used once each"
    return True, "ok"


def _gen_colls():
    import itertools as it
    for L in range(1, 5):
        for coll in it.product((0, 2, 5), repeat=L):
            yield coll
    yield (4, 0, 1, 4, 0)
    yield (3, 1, 3, 1)
    yield tuple(range(6)) + (2,)


def _native_gen(coll):
    return f"""
import warnings
import numpy as np
from orquestra.quantum.circuits import Circuit, RZ, X, apply_gate_to_qubits
coll = {coll!r}
uniq = sorted(set(coll))
with warnings.catch_warnings():
    warnings.simplefilter("ignore")
    c = apply_gate_to_qubits(Circuit([X(0)]), coll, RZ, np.arange(len(uniq)).reshape(-1, 1) * 0.1 + 0.05)
new = c.operations[1:]
OK = bool(sorted(o.qubit_indices for o in new) == [(q,) for q in uniq])
OBSERVED = f"new gates act on {{[o.qubit_indices for o in new]}}, expected one per distinct qubit {{uniq}}"
"""


def _check_native(mode):
    import numpy as np
    from vfw import replay
    if mode == 0:
        ok, obs = replay.run_code(_native("inverse"))
        return ok is True, obs
    if mode == 1:
        ok, obs = replay.run_code(_native("controlled"))
        return ok is True, obs
    if mode == 3:
        # inverse gate by gate: every gate family with generic (pairwise different) angles, custom gates that are complex-symmetric / non-unitary / hermitian,
        # bare, inside a circuit and under a control: the inverse circuit's matrix is the conjugate transpose, circuit + inverse is the identity, twice is the original
        import sympy
        from orquestra.quantum.circuits import Circuit, CustomGateDefinition, _builtin_gates as B
        cust = lambda nm, rows: CustomGateDefinition(nm, sympy.Matrix(rows), ())()
        I_ = sympy.I
        gates = [B.U3(0.3, 0.5, 1.1), B.U3(2.2, -0.7, 0.4), B.RX(0.37), B.RY(-1.2), B.RZ(2.5), B.RH(0.8), B.PHASE(0.9), B.CPHASE(1.3), B.XX(0.6), B.YY(-0.4), B.ZZ(1.9), B.XY(0.77),
                 B.GPi(0.3), B.GPi2(1.2), B.MS(0.4, 1.1), B.S, B.T, B.SX, B.ISWAP, B.H, B.Y,
                 cust("myS", [[1, 0], [0, I_]]), cust("mySX", [[(1 + I_) / 2, (1 - I_) / 2], [(1 - I_) / 2, (1 + I_) / 2]]),
                 cust("myRX", [[sympy.cos(0.3), -I_ * sympy.sin(0.3)], [-I_ * sympy.sin(0.3), sympy.cos(0.3)]]),
                 cust("myISWAP", [[1, 0, 0, 0], [0, 0, I_, 0], [0, I_, 0, 0], [0, 0, 0, 1]]), cust("reflect", [[0, 1], [1, 0]]), cust("ylike", [[0, -I_], [I_, 0]]),
                 cust("rot", [[sympy.cos(0.3), -sympy.sin(0.3)], [sympy.sin(0.3), sympy.cos(0.3)]])]
        M = lambda c: np.array(c.to_unitary(), dtype=complex)
        for g in gates:
            k = g.num_qubits
            for wrap in (lambda x: x, lambda x: x.controlled(1), lambda x: x.dagger):
                w = wrap(g)
                qs = tuple(range(w.num_qubits))[::-1]
                c = Circuit([w(*qs)], n_qubits=w.num_qubits)
                U, V = M(c), M(c.inverse())
                if not np.allclose(V, U.conj().T, atol=1e-9):
                    return False, f"inverse of a circuit holding {w}: matrix differs from the conjugate transpose (max deviation {abs(V - U.conj().T).max():.3g})"
                if not np.allclose(M(c + c.inverse()), np.eye(len(U)), atol=1e-9) or not np.allclose(M(c.inverse().inverse()), U, atol=1e-9):
                    return False, f"circuit + inverse is not the identity / inverting twice is not the original for {w}"
        return True, "ok"
    from orquestra.quantum.circuits import RX, create_layer_of_gates
    for n in (1, 2, 7, 64, 257, 2000):
        ps = np.arange(n).reshape(-1, 1) * 1e-3
        c = create_layer_of_gates(n, RX, ps)
        for op in c.operations:
            if abs(op.params[0] - op.qubit_indices[0] * 1e-3) > 1e-12:
                return False, f"layer of {n}: qubit {op.qubit_indices[0]} got parameter row {op.params}"
        if len(c.operations) != n:
            return False, "layer size"
    return True, "ok"
