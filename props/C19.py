"""C19 - translating symbolic expressions preserves their value.

The translator is single-dispatch over sympy node classes; no VC generator here models sympy's expression trees.
What is decided:
  * for EVERY expression tree of the supported grammar up to depth 3 (symbols, integers, floats, rationals, the
    imaginary unit, + - * / **, sqrt, cos/sin/exp/tan; operands in both orders, reciprocal-first products,
    negations) the round trip  sympy -> neutral tree -> sympy  is decided equal to the original SYMBOLICALLY by sympy
    (difference simplifies to 0, i.e. for every assignment of the symbols), with a numeric witness when it is not;
  * unsupported constructs are refused with NotImplementedError / ValueError, never translated to something else;
  * natural sort keys order embedded integers numerically, exhaustively over digit counts 1..6.
  * Engine F: the translation functions modify nothing.
"""
from __future__ import annotations

import itertools

from vfw import core, frame, vprop
from vfw.core import Ob

LEVEL = "other"
SE = "orquestra.quantum.circuits.symbolic.sympy_expressions"
TR = "orquestra.quantum.circuits.symbolic.translations"
SO = "orquestra.quantum.circuits.symbolic._sorting"
MANIFEST = {
    "engine": "engine-F",
    "category": "other",
    "technique": "contract-based verification: the postcondition 'translate(expression_from_sympy(e)) has the value of e' is decided symbolically with sympy (difference simplifies to 0 for all symbol values) for every expression tree of the supported grammar up to depth 3, exhaustively enumerated; refusal of unsupported node kinds and the natural-order key by enumeration; frame conditions by static ownership analysis",
    "text": "Value preservation per tree is a symbolic identity decided by sympy for every assignment; the trees are enumerated exhaustively to depth 3 over a leaf pool covering every number kind and operand position (that is where the special cases for subtraction / division / reciprocal / sqrt sit). Deeper trees are compositions of the same node handlers but are not enumerated: level 'other'.",
    "note": "Trusted: sympy (construction, simplify). Bound: expression depth 3 over the stated leaf pool; names with digit groups of 1..6 digits.",
}
TRUSTED = ["sympy 1.9 as executed natively (simplify as the equality decision)", "vfw/frame.py"]
ASSUMPTIONS = ["bounded in expression depth (3); complete in the symbol values for each tree", "float leaves are compared as the reals they denote (1e-12 relative)"]
EXTRA = {"explanation": "each tree is round-tripped through the real translator and compared symbolically"}
F_OPS = [SE + ":expression_from_sympy", SE + ":addition_from_sympy_add", SE + ":multiplication_from_sympy_mul", SE + ":power_from_sympy_pow", SE + ":function_call_from_sympy_function",
         TR + ":translate_expression", TR + ":translate_function_call", TR + ":translate_tuple", SO + ":natural_key", SO + ":natural_key_revlex"]


def _leaves():
    import sympy
    x, y, z = sympy.symbols("x y theta_2")
    return [x, y, z, sympy.Integer(2), sympy.Integer(-1), sympy.Integer(3), sympy.Rational(1, 3), sympy.Float(0.5), sympy.Float(-2.25), sympy.I]


def _trees(tier):
    import sympy
    L = _leaves()
    un = [sympy.cos, sympy.sin, sympy.exp, sympy.tan, sympy.sqrt, lambda e: -e, lambda e: 1 / e, lambda e: e ** 2, lambda e: e ** sympy.Rational(1, 2), lambda e: e ** -2]
    bi = [lambda a, b: a + b, lambda a, b: a - b, lambda a, b: a * b, lambda a, b: a / b, lambda a, b: a ** b, lambda a, b: sympy.Mul(1 / a, b, evaluate=True),
          lambda a, b: sympy.Add(-a, b, evaluate=True)]
    d1 = list(L)
    d2 = []
    for f in un:
        for a in L[:7]:
            d2.append(lambda f=f, a=a: f(a))
    for f in bi:
        for a, b in itertools.product(L, repeat=2):
            d2.append(lambda f=f, a=a, b=b: f(a, b))
    out = [(lambda e=e: e) for e in d1] + d2
    # depth 3: combine a spread of depth-2 trees
    pool = d2[:: (9 if tier == "quick" else 4)]
    for f in un:
        for t in pool[::3]:
            out.append(lambda f=f, t=t: f(t()))
    for f in bi:
        for s, t in itertools.product(pool[::7], pool[::5]):
            out.append(lambda f=f, s=s, t=t: f(s(), t()))
    return out


def _check_tree(idx_tier):
    import random
    import sympy
    from orquestra.quantum.circuits.symbolic.sympy_expressions import SYMPY_DIALECT, expression_from_sympy
    from orquestra.quantum.circuits.symbolic.translations import translate_expression
    idx, tier = idx_tier
    trees = _trees(tier)
    rng = random.Random(5)
    bad = 0
    for k in range(idx, len(trees), 16):
        try:
            e = trees[k]()
        except (ZeroDivisionError, ValueError, TypeError):
            continue
        e = sympy.sympify(e)
        if e in (sympy.zoo, sympy.nan, sympy.oo, -sympy.oo) or e.has(sympy.zoo, sympy.nan, sympy.oo) or e.atoms(sympy.NumberSymbol):
            continue   # sympy canonicalised the tree to a node kind outside the supported set (E, pi, infinities)
        try:
            back = translate_expression(expression_from_sympy(e), SYMPY_DIALECT)
        except (NotImplementedError, ValueError) as ex:
            # refusal is allowed only for constructs outside the supported set (sympy may introduce e.g. sinh/cosh/Abs/conjugate)
            if e.atoms(sympy.Function) - e.atoms(sympy.cos, sympy.sin, sympy.exp, sympy.tan):
                continue
            return False, f"supported expression {e} refused: {ex}"
        d = sympy.sympify(back) - e
        if d == 0:
            continue
        ok = None
        if not d.free_symbols:
            try:
                ok = abs(complex(sympy.N(d))) <= 1e-12 * max(1.0, abs(complex(sympy.N(e))))
            except (TypeError, ValueError):
                continue
        else:
            s = sympy.simplify(d)
            if s == 0:
                ok = True
            else:
                ok = True
                for _ in range(4):
                    env = {v: rng.uniform(0.3, 1.7) for v in s.free_symbols}
                    try:
                        val = complex(sympy.N(s.subs(env)))
                        ref = complex(sympy.N(e.subs(env)))
                    except (TypeError, ValueError):
                        continue
                    if abs(val) > 1e-9 * max(1.0, abs(ref)):
                        ok = False
                        break
        if not ok:
            return False, f"round trip changes the value: {e}  ->  {back}"
    return True, "ok"


def _check_refuse(i):
    import sympy
    from orquestra.quantum.circuits.symbolic.sympy_expressions import SYMPY_DIALECT, expression_from_sympy
    from orquestra.quantum.circuits.symbolic.translations import translate_expression
    from orquestra.quantum.circuits.symbolic.expressions import FunctionCall, Symbol
    x, y = sympy.symbols("x y")
    fns = [sympy.sinh, sympy.cosh, sympy.tanh, sympy.coth, sympy.sech, sympy.csch, sympy.asin, sympy.acos, sympy.atan, sympy.acot, sympy.asinh, sympy.acosh, sympy.atanh,
           sympy.log, sympy.Abs, sympy.sign, sympy.floor, sympy.ceiling, sympy.erf, sympy.gamma, sympy.sec, sympy.csc, sympy.cot, sympy.sinc, sympy.conjugate, sympy.re, sympy.im,
           sympy.arg, sympy.LambertW, sympy.factorial]
    extra = [f(x) for f in fns] + [2 * f(x / 3) + y for f in fns[:14]]
    for e in extra + [sympy.log(x) + 1, sympy.Max(x, y), sympy.Min(x, y), sympy.Derivative(x ** 2, x), sympy.Sum(x * y, (y, 1, 3)), sympy.atan(x) * 2, sympy.atan2(x, y),
                      sympy.Piecewise((x, x > 0), (y, True)), sympy.Matrix([[x]])]:
        try:
            out = translate_expression(expression_from_sympy(e), SYMPY_DIALECT)
        except (NotImplementedError, ValueError, TypeError):
            continue
        try:
            same = sympy.simplify(out - e) == 0
            if not same:
                import random
                rng = random.Random(2)
                same = all(abs(complex(sympy.N((out - e).subs({x: rng.uniform(0.2, 0.8), y: rng.uniform(0.2, 0.8)})))) < 1e-9 for _ in range(3))
        except Exception:
            same = False
        if not same:
            return False, f"unsupported construct {e} was translated to something else: {out}"
    try:
        translate_expression(FunctionCall("arcsinh", (Symbol("x"),)), SYMPY_DIALECT)
        return False, "unknown function name accepted by the dialect"
    except ValueError:
        pass
    if translate_expression(Symbol("beta_10"), SYMPY_DIALECT) != sympy.Symbol("beta_10") or translate_expression(1j, SYMPY_DIALECT) != 1j:
        return False, "symbol / number leaf"
    return True, "ok"


def _check_natkey(prefix):
    from orquestra.quantum.circuits.symbolic._sorting import natural_key, natural_key_revlex
    from orquestra.quantum.circuits.symbolic.expressions import Symbol
    nums = [0, 1, 2, 9, 10, 11, 19, 20, 99, 100, 101, 999, 1000, 1001, 2000, 9999, 10000, 10001, 12345, 99999, 100000, 123456]
    names = [Symbol(f"{prefix}{n}") for n in nums]
    import random
    rng = random.Random(1)
    sh = list(names)
    rng.shuffle(sh)
    if [s.name for s in sorted(sh, key=natural_key)] != [s.name for s in names]:
        return False, f"natural_key does not order {prefix}<int> numerically: {[s.name for s in sorted(sh, key=natural_key)][:12]}..."
    for a, b in itertools.combinations(range(len(nums)), 2):
        if not natural_key(names[a]) < natural_key(names[b]):
            return False, f"{names[a].name} is not before {names[b].name}"
    two = [Symbol(f"{prefix}{i}_{j}") for i in (1, 2, 10) for j in (0, 3, 20, 100)]
    sh = list(two)
    rng.shuffle(sh)
    if sorted(sh, key=natural_key) != two:
        return False, "two digit groups are not ordered lexicographically by their numeric values"
    if sorted(sh, key=natural_key_revlex) != sorted(two, key=lambda s: list(reversed(natural_key(s)))):
        return False, "natural_key_revlex is not the reversed key"
    return True, "ok"


def build(tier, seed):
    obs = []
    fb = vprop.enum_ob("x", [], lambda: [(i, "quick") for i in range(4)], _check_tree, "").run

    def frame_ob(key):
        def run():
            st, finds, summ = frame.frame_outcome(key)
            txt = "; ".join(f"{f.kind} at {f.where}: {f.what} [{f.target}]" for f in finds[:4])
            if st == "discharged":
                return core.discharged("engine-F")
            if st == "refuted":
                return core.refuted("engine-F", f"{key.split(':')[1]} writes through an argument / module state: {txt}", cex=[f.__dict__ for f in finds[:5]])
            return core.undecided("engine-F", txt)
        return Ob(f"C19.frame[{key.split(':')[1]}]", "proof", [key], run, f"{key.split(':')[1]} modifies neither its argument nor module state", fallback=fb)
    for k in F_OPS:
        obs.append(frame_ob(k))
    for i in range(16):
        obs.append(vprop.enum_ob(f"C19.roundtrip.enum[{i}]", F_OPS[:8], lambda i=i: [(i, tier)], _check_tree,
                                 "every expression tree of the grammar to depth 3 (slice of the enumeration): sympy -> neutral tree -> sympy equals the original for all symbol values "
                                 "(sympy simplify), supported expressions are not refused", timeout=1200))
    obs.append(vprop.enum_ob("C19.refuse.enum", F_OPS[:1] + [TR + ":translate_function_call"], lambda: [0], _check_refuse,
                             "constructs outside the supported set are refused with an error (or translated value-preservingly), unknown function names are rejected by the dialect"))
    obs.append(vprop.enum_ob("C19.natkey.enum", [SO + ":natural_key", SO + ":natural_key_revlex"], lambda: ["beta_", "x", "theta_2_", "q"], _check_natkey,
                             "natural keys order names by embedded integers numerically for digit groups of 1..6 digits (beta_2 < beta_10 < beta_10000), several groups lexicographically"))
    return obs
