"""C19 - translating symbolic expressions preserves their value.

The translator is single-dispatch over sympy node classes.  Deductive part: structural induction over the expression grammar
(Engine V over the abstract sympy model vfw/exmodel.py, see _induction_obs).  Bounded part:
  * for EVERY expression tree of the supported grammar up to depth 3 (symbols, integers, floats, rationals, the
    imaginary unit, + - * / **, sqrt, cos/sin/exp/tan; operands in both orders, reciprocal-first products,
    negations) the round trip  sympy -> neutral tree -> sympy  is decided equal to the original SYMBOLICALLY by sympy
    (difference simplifies to 0, i.e. for every assignment of the symbols), with a numeric witness when it is not;
  * unsupported constructs are refused with NotImplementedError / ValueError, never translated to something else;
  * natural sort keys order embedded integers numerically, exhaustively over digit counts 1..6.
  * Engine F: the translation functions modify nothing.
"""
from __future__ import annotations

import itertools

from vfw import core, frame, vprop
from vfw.core import Ob

LEVEL = "proof"
SE = "orquestra.quantum.circuits.symbolic.sympy_expressions"
TR = "orquestra.quantum.circuits.symbolic.translations"
SO = "orquestra.quantum.circuits.symbolic._sorting"
MANIFEST = {
    "engine": "engine-V",
    "category": "proof",
    "technique": "contract-based deductive verification: the postcondition 'translate_expression(expression_from_sympy(e), SYMPY_DIALECT) denotes the number e denotes' proved by structural induction over the expression grammar - for Add / Mul nodes of ANY arity, Pow (reciprocal / square root / general), the supported functions and the tuple handler of any length, the real text of sympy_expressions.py / translations.py / expressions.py is executed symbolically (Engine V, z3) on an abstract node whose children satisfy the induction hypothesis; refusal of unknown node classes and function names by the same shadow execution; leaves, natural-order keys and the depth-3 cross-check by exhaustive enumeration decided symbolically with sympy; frame conditions by static ownership analysis",
    "text": "The induction step is discharged for every compound node kind and every arity, so value preservation holds for trees of any depth and width given the leaves; leaves (symbol / integer / float / rational / I conversions) and the natural sort keys are library / string behaviour and are decided by enumeration (bounded). The meaning of sympy's node classes and operators is the stated trusted base.",
    "note": "Trusted: meaning of sympy Add / Mul / Pow / function nodes and value-homomorphic operators (vfw/exmodel.py, listed in the evidence), z3, fold congruence (Lean twin). Bounded: leaves, natural keys (digit groups of 1..6 digits), depth-3 enumeration as cross-check.",
}
TRUSTED = ["sympy 1.9 as executed natively (simplify as the equality decision)", "vfw/frame.py"]
ASSUMPTIONS = ["bounded in expression depth (3); complete in the symbol values for each tree", "float leaves are compared as the reals they denote (1e-12 relative)"]
EXTRA = {"explanation": "each tree is round-tripped through the real translator and compared symbolically"}
F_OPS = [SE + ":expression_from_sympy", SE + ":addition_from_sympy_add", SE + ":multiplication_from_sympy_mul", SE + ":power_from_sympy_pow", SE + ":function_call_from_sympy_function",
         TR + ":translate_expression", TR + ":translate_function_call", TR + ":translate_tuple", SO + ":natural_key", SO + ":natural_key_revlex"]


def _leaves():
    import sympy
    x, y, z = sympy.symbols("x y theta_2")
    return [x, y, z, sympy.Integer(2), sympy.Integer(-1), sympy.Integer(3), sympy.Rational(1, 3), sympy.Float(0.5), sympy.Float(-2.25), sympy.I]


def _check_numbers(i):
    """number leaves of every kind and size: the translated-back constant denotes the same number (relative 1e-15 for floats / rationals, exactly for integers), alone and
    inside a sum, a product and a function argument (where an absolute change of the constant shows)"""
    import sympy
    from orquestra.quantum.circuits.symbolic.sympy_expressions import SYMPY_DIALECT, expression_from_sympy
    from orquestra.quantum.circuits.symbolic.translations import translate_expression
    x, y = sympy.symbols("x y")
    consts = [sympy.Float(1234567890.5), sympy.Float(2 ** 40 + 0.25), sympy.Float(5000000.004), sympy.Rational(2469135781, 2), sympy.Float(1e15 + 0.5), sympy.Float(123456.789), sympy.Float(1e-10),
              sympy.Float(-98765432.125), sympy.Float(1000000.25), sympy.Float(2.0), sympy.Float(1e300), sympy.Integer(2 ** 64 + 1), sympy.Integer(-10 ** 30), sympy.Rational(1, 10 ** 9),
              sympy.Rational(10 ** 12 + 1, 3), sympy.Float(0.1) + sympy.Float(0.2), sympy.Integer(0), sympy.Float(0.0)]
    for c in consts:
        for e in (c, c * x, c + x, sympy.cos(c * x), x ** 2 * c - c, c * x - (c - sympy.Rational(1, 2)) * y):
            e = sympy.sympify(e)
            try:
                back = sympy.sympify(translate_expression(expression_from_sympy(e), SYMPY_DIALECT))
            except (NotImplementedError, ValueError):
                if e.atoms(sympy.Function) - e.atoms(sympy.cos):
                    continue
                return False, f"supported expression {e} refused"
            for env in ({x: 1, y: 1}, {x: sympy.Rational(7, 10), y: sympy.Rational(-13, 10)}):
                a, b = sympy.N(e.subs(env), 40), sympy.N(back.subs(env), 40)
                scale = max(abs(complex(sympy.N(c, 40))), 1e-300) if e.has(sympy.cos) else max(abs(complex(a)), abs(complex(sympy.N(c, 40))) * 1e-3, 1e-300)
                if e.has(sympy.cos):
                    arg_err = abs(complex(sympy.N((back.args[0] if back.func == sympy.cos else back) - (e.args[0] if e.func == sympy.cos else e), 40).subs(env))) if back.func == e.func == sympy.cos else abs(complex(a - b))
                    if arg_err > 1e-15 * scale + 1e-300:
                        return False, f"{e}: the constant came back changed ({back}); argument differs by {arg_err:.3g}"
                elif abs(complex(a - b)) > 2e-15 * scale:
                    return False, f"{e} at {env}: value {a} became {b} after the round trip ({back})"
    return True, "ok"


def _trees(tier):
    import sympy
    L = _leaves()
    un = [sympy.cos, sympy.sin, sympy.exp, sympy.tan, sympy.sqrt, lambda e: -e, lambda e: 1 / e, lambda e: e ** 2, lambda e: e ** sympy.Rational(1, 2), lambda e: e ** -2,
          lambda e: e ** sympy.Rational(3, 2), lambda e: e ** sympy.Rational(-1, 2), lambda e: e ** sympy.Rational(5, 2), lambda e: e ** sympy.Rational(1, 3), lambda e: e ** 1.5,
          lambda e: e ** sympy.Float(0.5), lambda e: e ** -1.0, lambda e: e ** sympy.Rational(-3, 2)]
    bi = [lambda a, b: a + b, lambda a, b: a - b, lambda a, b: a * b, lambda a, b: a / b, lambda a, b: a ** b, lambda a, b: sympy.Mul(1 / a, b, evaluate=True),
          lambda a, b: sympy.Add(-a, b, evaluate=True)]
    d1 = list(L)
    d2 = []
    for f in un:
        for a in L[:7]:
            d2.append(lambda f=f, a=a: f(a))
    for f in bi:
        for a, b in itertools.product(L, repeat=2):
            d2.append(lambda f=f, a=a, b=b: f(a, b))
    out = [(lambda e=e: e) for e in d1] + d2
    # depth 3: combine a spread of depth-2 trees
    pool = d2[:: (9 if tier == "quick" else 4)]
    for f in un:
        for t in pool[::3]:
            out.append(lambda f=f, t=t: f(t()))
    for f in bi:
        for s, t in itertools.product(pool[::7], pool[::5]):
            out.append(lambda f=f, s=s, t=t: f(s(), t()))
    return out


def _check_tree(idx_tier):
    import random
    import sympy
    from orquestra.quantum.circuits.symbolic.sympy_expressions import SYMPY_DIALECT, expression_from_sympy
    from orquestra.quantum.circuits.symbolic.translations import translate_expression
    idx, tier = idx_tier
    trees = _trees(tier)
    rng = random.Random(5)
    bad = 0
    for k in range(idx, len(trees), 16):
        try:
            e = trees[k]()
        except (ZeroDivisionError, ValueError, TypeError):
            continue
        e = sympy.sympify(e)
        if e in (sympy.zoo, sympy.nan, sympy.oo, -sympy.oo) or e.has(sympy.zoo, sympy.nan, sympy.oo) or e.atoms(sympy.NumberSymbol):
            continue   # sympy canonicalised the tree to a node kind outside the supported set (E, pi, infinities)
        try:
            back = translate_expression(expression_from_sympy(e), SYMPY_DIALECT)
        except (NotImplementedError, ValueError) as ex:
            # refusal is allowed only for constructs outside the supported set (sympy may introduce e.g. sinh/cosh/Abs/conjugate)
            if e.atoms(sympy.Function) - e.atoms(sympy.cos, sympy.sin, sympy.exp, sympy.tan):
                continue
            return False, f"supported expression {e} refused: {ex}"
        d = sympy.sympify(back) - e
        if d == 0:
            continue
        ok = None
        if not d.free_symbols:
            try:
                ok = abs(complex(sympy.N(d))) <= 1e-12 * max(1.0, abs(complex(sympy.N(e))))
            except (TypeError, ValueError):
                continue
        else:
            s = sympy.simplify(d)
            if s == 0:
                ok = True
            else:
                ok = True
                for _ in range(4):
                    env = {v: rng.uniform(0.3, 1.7) for v in s.free_symbols}
                    try:
                        val = complex(sympy.N(s.subs(env)))
                        ref = complex(sympy.N(e.subs(env)))
                    except (TypeError, ValueError):
                        continue
                    if abs(val) > 1e-9 * max(1.0, abs(ref)):
                        ok = False
                        break
        if not ok:
            return False, f"round trip changes the value: {e}  ->  {back}"
    return True, "ok"


def _check_refuse(i):
    import sympy
    from orquestra.quantum.circuits.symbolic.sympy_expressions import SYMPY_DIALECT, expression_from_sympy
    from orquestra.quantum.circuits.symbolic.translations import translate_expression
    from orquestra.quantum.circuits.symbolic.expressions import FunctionCall, Symbol
    x, y = sympy.symbols("x y")
    fns = [sympy.sinh, sympy.cosh, sympy.tanh, sympy.coth, sympy.sech, sympy.csch, sympy.asin, sympy.acos, sympy.atan, sympy.acot, sympy.asinh, sympy.acosh, sympy.atanh,
           sympy.log, sympy.Abs, sympy.sign, sympy.floor, sympy.ceiling, sympy.erf, sympy.gamma, sympy.sec, sympy.csc, sympy.cot, sympy.sinc, sympy.conjugate, sympy.re, sympy.im,
           sympy.arg, sympy.LambertW, sympy.factorial]
    extra = [f(x) for f in fns] + [2 * f(x / 3) + y for f in fns[:14]]
    for e in extra + [sympy.log(x) + 1, sympy.Max(x, y), sympy.Min(x, y), sympy.Derivative(x ** 2, x), sympy.Sum(x * y, (y, 1, 3)), sympy.atan(x) * 2, sympy.atan2(x, y),
                      sympy.Piecewise((x, x > 0), (y, True)), sympy.Matrix([[x]])]:
        try:
            out = translate_expression(expression_from_sympy(e), SYMPY_DIALECT)
        except (NotImplementedError, ValueError, TypeError):
            continue
        try:
            same = sympy.simplify(out - e) == 0
            if not same:
                import random
                rng = random.Random(2)
                same = all(abs(complex(sympy.N((out - e).subs({x: rng.uniform(0.2, 0.8), y: rng.uniform(0.2, 0.8)})))) < 1e-9 for _ in range(3))
        except Exception:
            same = False
        if not same:
            return False, f"unsupported construct {e} was translated to something else: {out}"
    try:
        translate_expression(FunctionCall("arcsinh", (Symbol("x"),)), SYMPY_DIALECT)
        return False, "unknown function name accepted by the dialect"
    except ValueError:
        pass
    if translate_expression(Symbol("beta_10"), SYMPY_DIALECT) != sympy.Symbol("beta_10") or translate_expression(1j, SYMPY_DIALECT) != 1j:
        return False, "symbol / number leaf"
    return True, "ok"


def _check_natkey(prefix):
    from orquestra.quantum.circuits.symbolic._sorting import natural_key, natural_key_revlex
    from orquestra.quantum.circuits.symbolic.expressions import Symbol
    nums = [0, 1, 2, 9, 10, 11, 19, 20, 99, 100, 101, 999, 1000, 1001, 2000, 9999, 10000, 10001, 12345, 99999, 100000, 123456, 999999, 1000000, 1000001, 2000000, 9999999, 10000000,
            123456789, 2 ** 31 - 1, 2 ** 31, 10 ** 12, 10 ** 12 + 1, 2 ** 64 + 1, 10 ** 30]
    names = [Symbol(f"{prefix}{n}") for n in nums]
    import random
    rng = random.Random(1)
    sh = list(names)
    rng.shuffle(sh)
    if [s.name for s in sorted(sh, key=natural_key)] != [s.name for s in names]:
        return False, f"natural_key does not order {prefix}<int> numerically: {[s.name for s in sorted(sh, key=natural_key)][:12]}..."
    for a, b in itertools.combinations(range(len(nums)), 2):
        if not natural_key(names[a]) < natural_key(names[b]):
            return False, f"{names[a].name} is not before {names[b].name}"
    two = [Symbol(f"{prefix}{i}_{j}") for i in (1, 2, 10, 1000000, 20000000) for j in (0, 3, 20, 100, 3000000)]
    sh = list(two)
    rng.shuffle(sh)
    if sorted(sh, key=natural_key) != two:
        return False, "two digit groups are not ordered lexicographically by their numeric values"
    if sorted(sh, key=natural_key_revlex) != sorted(two, key=lambda s: list(reversed(natural_key(s)))):
        return False, "natural_key_revlex is not the reversed key"
    # digit groups are integers whatever separates them ('.', '-', letters): theta_1.10 comes after theta_1.2 and theta_1.9, and differs from theta_1.1
    for sep in (".", "-", "x", "_"):
        grp = [Symbol(f"{prefix}{i}{sep}{j}") for i in (1, 2, 10) for j in (1, 2, 9, 10, 11, 100)]
        sh2 = list(grp)
        rng.shuffle(sh2)
        if [s_.name for s_ in sorted(sh2, key=natural_key)] != [s_.name for s_ in grp]:
            return False, f"two digit groups separated by {sep!r} are not ordered by their integer values: {[s_.name for s_ in sorted(sh2, key=natural_key)][:8]}..."
        if natural_key(Symbol(f"{prefix}1{sep}10")) == natural_key(Symbol(f"{prefix}1{sep}1")):
            return False, f"{prefix}1{sep}10 and {prefix}1{sep}1 have the same key"
    return True, "ok"


EX = "orquestra.quantum.circuits.symbolic.expressions"
INDUCTION_ASSUMES = [
    "meaning of sympy nodes (vfw/exmodel.py): Add / Mul denote the sum / product of args, Pow(b,e) = pow(b,e) with pow(x,-1) = 1/x, sqrt(x) = pow(x,1/2), f(x) denotes f(value x)",
    "sympy operators and functions are value-homomorphic; `e == number` implies e denotes that number; e*(-1) denotes -e and, for a supported product with leading coefficient -1, is supported and no larger than e",
    "values are modelled as reals; only field identities are used (they hold over the complex numbers too)",
    "sum / product of point-wise equal sequences of equal length are equal (congruence of the fold)",
    "leaves (symbols, integers, floats, rationals, I) are checked natively (C19.roundtrip.enum), not by this induction",
]


def _induction_obs():
    """Structural induction over the sympy expression grammar: for every compound node kind, ANY arity and ANY (supported)
    children, translate_expression(expression_from_sympy(node), SYMPY_DIALECT) denotes the number the node denotes, assuming
    the same for the children (induction hypothesis).  The real text of the three modules is executed on an abstract node."""
    import z3
    from vfw import exmodel as ex, sym, vcontract as vc, vrt
    from vfw.sym import SObj, SSeq

    def make_ns():
        ex.install()
        exprs = vc.shadow_all(EX, {"reduce": ex.reduce_stub})
        se = vc.shadow_all(SE, {"sympy": ex.SHIM, "reduction": exprs["reduction"], "FunctionCall": exprs["FunctionCall"], "Symbol": exprs["Symbol"],
                                "ExpressionDialect": exprs["ExpressionDialect"]})
        tr = vc.shadow_all(TR, {"FunctionCall": exprs["FunctionCall"], "Symbol": exprs["Symbol"], "ExpressionDialect": exprs["ExpressionDialect"]})
        real_tuple_impl = se["expression_from_sympy"].dispatch(tuple)
        se["expression_from_sympy"].register(SObj)(ex.ih_from_sympy)
        se["expression_from_sympy"].register(SSeq)(ex.ih_from_sympy_tuple)
        tr["translate_expression"].register(SObj)(ex.ih_translate)
        return {"se": se, "tr": tr, "tuple_impl": real_tuple_impl, "FunctionCall": exprs["FunctionCall"]}

    def roundtrip(ns, node):
        tree = ns["se"]["expression_from_sympy"](node)
        return ns["tr"]["translate_expression"](tree, ns["se"]["SYMPY_DIALECT"])

    spec = {"SAME_VALUE": ex.same_value}

    def mk(kind):
        def setup(args, ns):
            ex.axioms()
            c = sym.cur()
            e = c.fresh("node", sym.Obj)
            if kind in ("add", "mul"):
                ch = ex.children("args", 2)
                node = (ex.FAdd if kind == "add" else ex.FMul)(e, ch)
                c.assume(sym.seq_forall(ch, lambda x: ex.SUPP(sym.lift(x))))
                c.inputs["arity"] = ch.length()
            elif kind == "pow":
                b, x = ex.child("base"), ex.child("exponent")
                node = ex.FPow(e, (b, x))
                c.assume(z3.And(ex.SUPP(b.e), ex.SUPP(x.e)))
            else:
                a = ex.child("argument")
                node = ex.FUNCS[kind](e, (a,))
                c.assume(ex.SUPP(a.e))
            args["node"] = node
        return setup

    out = []
    names = {"add": "Add", "mul": "Mul", "pow": "Pow"}
    for kind in ("add", "mul", "pow", "cos", "sin", "exp", "tan"):
        c = vc.Contract(key=SE + ":expression_from_sympy", params={}, requires="True", ensures="SAME_VALUE(result, node)", spec=dict(spec),
                        doc=f"round trip of a {names.get(kind, kind)} node of any arity over arbitrary supported children keeps the value (induction step)")

        def run(c=c, kind=kind):
            import time
            t0 = time.time()
            try:
                fr = vc.verify(c, lambda ns, a: roundtrip(ns, a["node"]), make_ns, max_paths=200, timeout_ms=30000, setup=mk(kind))
            except vc.Unsupported as e:
                return core.undecided("engine-V", str(e), time.time() - t0)
            return _fr_outcome(fr, f"{kind} node")
        out.append(Ob(f"C19.induction[{names.get(kind, kind)}]", "proof", [SE + ":expression_from_sympy", TR + ":translate_expression", TR + ":translate_function_call", TR + ":translate_tuple",
                                                                          EX + ":reduction"], run,
                      f"induction step: for a {names.get(kind, kind)} node of ANY arity whose children are arbitrary supported expressions, sympy -> neutral tree -> sympy denotes the same number "
                      "(all special cases: subtraction, division, reciprocal, square root), given the same for the children", timeout=600, assumes=INDUCTION_ASSUMES))

    # the tuple handler on a tuple of ANY length: element-wise, in order
    def run_tuple():
        import time
        t0 = time.time()
        c = vc.Contract(key=SE + ":expression_tuple_from_tuple_of_sympy_args", params={}, requires="True",
                        ensures="len(result) == len(xs) and all(result[i] == TREE(xs[i]) for i in range(len(xs)))",
                        spec={"TREE": lambda x: SObj("Tree", ex.NT(sym.lift(x)))})

        def setup(args, ns):
            ex.axioms()
            args["xs"] = ex.children("xs", 0)

        def call(ns, a):
            return ns["tuple_impl"](a["xs"])
        try:
            fr = vc.verify(c, call, make_ns, max_paths=50, timeout_ms=20000, setup=setup)
        except vc.Unsupported as e:
            return core.undecided("engine-V", str(e), time.time() - t0)
        return _fr_outcome(fr, "tuple handler")
    out.append(Ob("C19.induction[tuple]", "proof", [SE + ":expression_tuple_from_tuple_of_sympy_args"], run_tuple,
                  "the tuple handler maps expression_from_sympy over a tuple of ANY length, element-wise and in order (this is what the Add / Mul steps assume for their args)", timeout=300))

    # refusal: node classes the translator does not know, and function names the dialect does not know
    def run_refuse():
        import time
        t0 = time.time()
        q = 0
        try:
            ctx = sym.Ctx([])
            sym.set_cur(ctx)
            ns = make_ns()
            ex.axioms()
            try:
                roundtrip(ns, ex.FOther(ctx.fresh("node", sym.Obj), (ex.child("a"),)))
                return core.refuted("shadow-execution", "a node of a class the translator does not know was translated instead of refused")
            except NotImplementedError:
                q += 1
            for name in ("sinh", "log", "Abs", "atan", "sign"):
                try:
                    roundtrip(ns, ex.FUNCS[name](ctx.fresh("node", sym.Obj), (ex.child("a"),)))
                    return core.refuted("shadow-execution", f"a function the dialect does not know ({name}) was translated instead of refused")
                except (ValueError, NotImplementedError):
                    q += 1
            try:
                ns["tr"]["translate_expression"](ns["FunctionCall"]("arcsinh", (1,)), ns["se"]["SYMPY_DIALECT"])
                return core.refuted("shadow-execution", "unknown function name accepted by translate_function_call")
            except ValueError:
                q += 1
        except sym.Unsupported as e:
            return core.undecided("engine-V", str(e), time.time() - t0)
        finally:
            sym.set_cur(None)
        return core.discharged("shadow-execution", time.time() - t0, queries=q)
    out.append(Ob("C19.induction[refusal]", "proof", [SE + ":expression_from_sympy", TR + ":translate_function_call"], run_refuse,
                  "an abstract node of an unknown class is refused with NotImplementedError and a function node whose name the dialect does not know with ValueError, whatever the children", timeout=300))
    return out


def _fr_outcome(fr, what):
    names = sorted(fr.obligations)
    if fr.undecided_reason:
        return core.undecided("engine-V", f"{fr.undecided_reason} (after {fr.paths} paths, {fr.vcs} VCs)", fr.seconds)
    if not names:
        return core.undecided("engine-V", "no obligation generated (vacuity guard)", fr.seconds)
    if not fr.canary_ok:
        return core.undecided("engine-V", "canary: no normal exit reachable", fr.seconds)
    bad = [n for n in names if fr.obligations[n]["status"] == "refuted"]
    und = [n for n in names if fr.obligations[n]["status"] == "undecided"]
    if bad:
        d = fr.obligations[bad[0]]
        return core.refuted("z3", f"{what}: obligation {bad[0]} fails: {d.get('detail','')[:200]} | counter-model {d.get('model')} | {str(d.get('formula'))[:300]}",
                            cex={"obligation": bad[0], "model": d.get("model"), "all_failed": bad}, seconds=fr.seconds, queries=fr.vcs)
    if und:
        return core.undecided("z3", f"{und[0]}: {fr.obligations[und[0]].get('detail','')[:300]}", fr.seconds)
    return core.discharged("+".join(sorted({b for n in names for b in fr.obligations[n]["backends"]})), fr.seconds, queries=fr.vcs,
                           sample={"paths": fr.paths, "vcs": fr.vcs, "obligations": names[:20]})


def build(tier, seed):
    obs = []
    fb = vprop.enum_ob("x", [], lambda: [(i, "quick") for i in range(4)], _check_tree, "").run
    for o in _induction_obs():
        o.fallback = fb
        obs.append(o)

    def frame_ob(key):
        def run():
            st, finds, summ = frame.frame_outcome(key)
            txt = "; ".join(f"{f.kind} at {f.where}: {f.what} [{f.target}]" for f in finds[:4])
            if st == "discharged":
                return core.discharged("engine-F")
            if st == "refuted":
                return core.refuted("engine-F", f"{key.split(':')[1]} writes through an argument / module state: {txt}", cex=[f.__dict__ for f in finds[:5]])
            return core.undecided("engine-F", txt)
        return Ob(f"C19.frame[{key.split(':')[1]}]", "proof", [key], run, f"{key.split(':')[1]} modifies neither its argument nor module state", fallback=fb)
    for k in F_OPS:
        obs.append(frame_ob(k))
    for i in range(16):
        obs.append(vprop.enum_ob(f"C19.roundtrip.enum[{i}]", F_OPS[:8], lambda i=i: [(i, tier)], _check_tree,
                                 "every expression tree of the grammar to depth 3 (slice of the enumeration): sympy -> neutral tree -> sympy equals the original for all symbol values "
                                 "(sympy simplify), supported expressions are not refused", timeout=1200))
    obs.append(vprop.enum_ob("C19.numbers.enum", F_OPS[:1] + [TR + ":translate_expression", TR + ":translate_number"], lambda: [0], _check_numbers,
                             "bounded: number leaves of every kind and magnitude (floats with fractional parts at 1e6 .. 1e15, rationals, integers beyond 64 bits, tiny values) keep their value to "
                             "relative 1e-15 alone and inside sums / products / function arguments"))
    obs.append(vprop.enum_ob("C19.refuse.enum", F_OPS[:1] + [TR + ":translate_function_call"], lambda: [0], _check_refuse,
                             "constructs outside the supported set are refused with an error (or translated value-preservingly), unknown function names are rejected by the dialect"))
    from vfw import lean
    obs.append(lean.prelude_ob('C19', 'fold congruence and unfolding for sums / products, a / b = a * b^-1, x^(-1), a - (-b)'))
    obs.append(vprop.enum_ob("C19.natkey.enum", [SO + ":natural_key", SO + ":natural_key_revlex"], lambda: ["beta_", "x", "theta_2_", "q"], _check_natkey,
                             "natural keys order names by embedded integers numerically for digit groups of 1..6 digits (beta_2 < beta_10 < beta_10000), several groups lexicographically"))
    return obs
