"""C14 - runners validate requests, deliver enough shots and count their work correctly.

Deductive part (Engine V): the public methods of BaseCircuitRunner, BaseWavefunctionSimulator and
MeasurementTrackingBackend are executed symbolically on a runner object whose two counters hold ARBITRARY
non-negative integers (= the state after any history: the class invariant "counters >= 0, no method
decreases them" is established by __init__ and preserved by every method, hence by induction holds after
every interleaving of calls).  The abstract `_run_and_measure` obeys its documented contract.
Bounded part: native call histories (valid / invalid requests interleaved) on real runners.
"""
from __future__ import annotations

import itertools

import z3

from vfw import core, sym, vcontract as vc, vprop, vtypes, vrt
from vfw.sym import Obj, SObj, SInt

LEVEL = "proof"
MR = "orquestra.quantum.api.circuit_runner"
MW = "orquestra.quantum.api.wavefunction_simulator"
MT = "orquestra.quantum.runners.trackers"
MANIFEST = {
    "engine": "engine-V",
    "category": "proof",
    "technique": "contract-based deductive verification: class invariant (counters >= 0, monotone) plus pre/postconditions and exceptional postconditions on every public method of BaseCircuitRunner / BaseWavefunctionSimulator / MeasurementTrackingBackend, verified by symbolic execution of the current text from an arbitrary counter state (induction over call histories); comprehension and loop invariants for the batch and segment loops; abstract _run_and_measure and the wrapped runner replaced by their contracts; native call-history enumeration as bounded cross-check",
    "text": "Validation-before-execution and exact counter increments are statements about every call history; they are proved per method from an arbitrary invariant-satisfying state, which covers all interleavings by induction. Shot lengths and counts of the sampled results depend on numpy sampling code and are covered by the bounded histories.",
    "note": "Trusted: Engine V encoding, z3; the documented contract of the abstract _run_and_measure (does not touch the counters, returns the result for the request) and of the wrapped runner (rejects exactly invalid requests) is assumed for subclasses / inner runners and proved for the bundled ones.",
}
TRUSTED = ["vfw Engine V symbolic execution of the real method text on a real runner object with symbolic counters", "z3 5.1",
           "contract of abstract _run_and_measure / wrapped runner (assumed)", "itertools.groupby as used by split_circuit (segments form an arbitrary finite list)"]
ASSUMPTIONS = [
    "subclasses implement _run_and_measure per its docstring: counters untouched, one result for the request",
    "n_samples is an int or a sequence of ints (None for the distribution call is exercised natively)",
    "split_circuit returns a finite list of (is_native, subcircuit) segments; nothing about its content is assumed",
]
EXTRA = {"explanation": "each public method is verified from an arbitrary state satisfying the class invariant; the history property follows by induction"}

_RUN = z3.Function("run_result", Obj, z3.IntSort(), Obj)
_DIST = z3.Function("Measurements.get_distribution", Obj, Obj)
_WF = z3.Function("Wavefunction", Obj, Obj)
_SPEC = {"RUN": lambda c, n: SObj("Meas", _RUN(sym.lift(c), sym.lift(n))),
         "DIST": lambda m: SObj("Dist", _DIST(sym.lift(m)))}
sym.OBJ_SCHEMAS["Meas"] = dict(sym.OBJ_SCHEMAS.get("Meas", {}), get_distribution=lambda self: (lambda: SObj("Dist", _DIST(self.e))),
                               get_counts=lambda self: (lambda: SObj("Counts", z3.Function("Measurements.get_counts", Obj, Obj)(self.e))),
                               bitstrings="Seq[Obj:Bits]")
sym.OBJ_SCHEMAS.setdefault("Circuit", {})
sym.OBJ_SCHEMAS["Circuit"] = dict(sym.OBJ_SCHEMAS["Circuit"], free_symbols="Seq[Obj:Symbol]", n_qubits="Int", operations="Seq[Obj:Operation]")

GHOST = {"nc0": "self._n_circuits_executed", "nj0": "self._n_jobs_executed", "log0": "len(self.log)"}
UNCHANGED = "self._n_circuits_executed == nc0 and self._n_jobs_executed == nj0 and len(self.log) == log0"
INV = "self._n_circuits_executed >= 0 and self._n_jobs_executed >= 0"

C_RUN = vc.contract(
    MR + ":BaseCircuitRunner.run_and_measure",
    params={"self": "Any", "circuit": "Obj:Circuit", "n_samples": "Int"},
    requires=INV, ghost=GHOST,
    raises={"ValueError": "n_samples <= 0"},
    ensures="result == RUN(circuit, n_samples) and self._n_circuits_executed == nc0 + 1 and self._n_jobs_executed == nj0 + 1 "
            "and len(self.log) == log0 + 1",
    spec=dict(_SPEC, on_ValueError=UNCHANGED),
    modifies=["self._n_circuits_executed", "self._n_jobs_executed", "self.log"],
    modifies_types={"self.log": "List[Obj:Req]"},
    result="Obj:Meas",
    doc="non-positive n is rejected before anything runs (counters and execution log unchanged); otherwise exactly one execution, counters +1/+1")

C_BATCH_INNER = vc.contract(
    MR + ":BaseCircuitRunner._run_batch_and_measure",
    params={"self": "Any", "batch": "Seq[Obj:Circuit]", "samples_per_circuit": "Seq[Int]"},
    requires=INV + " and len(batch) == len(samples_per_circuit) and all(n > 0 for n in samples_per_circuit)", ghost=GHOST,
    ensures="len(result) == len(batch) and all(result[j] == RUN(batch[j], samples_per_circuit[j]) for j in range(len(batch))) "
            "and self._n_circuits_executed == nc0 + len(batch) and self._n_jobs_executed == nj0 + len(batch)",
    spec=_SPEC, result="List[Obj:Meas]",
    modifies=["self._n_circuits_executed", "self._n_jobs_executed", "self.log"], modifies_types={"self.log": "List[Obj:Req]"},
    loops={"comp#0": {"result": "res", "types": {"res": "List[Obj:Meas]", "self.log": "List[Obj:Req]"},
                      "modifies": ["self._n_circuits_executed", "self._n_jobs_executed", "self.log"],
                      "invariant": "len(res) == k and self._n_circuits_executed == nc0 + k and self._n_jobs_executed == nj0 + k "
                                   "and all(res[j] == RUN(batch[j], samples_per_circuit[j]) for j in range(k))"}},
    doc="default batch = one run_and_measure per circuit in order; counters grow by the number of circuits")

_BATCH_BAD_SEQ = "len(n_samples) != len(circuits_batch) or any(n <= 0 for n in n_samples)"
C_BATCH_SEQ = vc.contract(
    MR + ":BaseCircuitRunner.run_batch_and_measure",
    params={"self": "Any", "circuits_batch": "Seq[Obj:Circuit]", "n_samples": "Seq[Int]"},
    requires=INV, ghost=GHOST,
    raises={"ValueError": _BATCH_BAD_SEQ},
    ensures="len(result) == len(circuits_batch) and all(result[j] == RUN(circuits_batch[j], n_samples[j]) for j in range(len(circuits_batch))) "
            "and self._n_circuits_executed == nc0 + len(circuits_batch) and self._n_jobs_executed == nj0 + len(circuits_batch)",
    spec=dict(_SPEC, on_ValueError=UNCHANGED),
    doc="a per-circuit list of the wrong length or with a non-positive entry is rejected BEFORE anything is executed")
C_BATCH_INT = vc.contract(
    MR + ":BaseCircuitRunner.run_batch_and_measure#int",
    params={"self": "Any", "circuits_batch": "Seq[Obj:Circuit]", "n_samples": "Int"},
    requires=INV, ghost=GHOST,
    raises={"ValueError": "n_samples <= 0 and len(circuits_batch) > 0"},
    ensures="len(result) == len(circuits_batch) and all(result[j] == RUN(circuits_batch[j], n_samples) for j in range(len(circuits_batch))) "
            "and self._n_circuits_executed == nc0 + len(circuits_batch) and self._n_jobs_executed == nj0 + len(circuits_batch)",
    spec=dict(_SPEC, on_ValueError=UNCHANGED),
    doc="an integer request is broadcast; non-positive is rejected before execution (an empty batch has nothing to reject)")

C_DIST = vc.contract(
    MR + ":BaseCircuitRunner.get_measurement_outcome_distribution",
    params={"self": "Any", "circuit": "Obj:Circuit", "n_samples": "Int"},
    requires=INV, ghost=GHOST,
    raises={"ValueError": "n_samples <= 0"},
    ensures="result == DIST(RUN(circuit, n_samples)) and self._n_circuits_executed == nc0 + 1 and self._n_jobs_executed == nj0 + 1",
    spec=dict(_SPEC, on_ValueError=UNCHANGED))

# ---- wavefunction simulator -----------------------------------------------------------------
_SEGS = z3.Function("split_circuit", Obj, Obj)


def _count_native(segs, k):
    """number of native segments among the first k (spec function: prefix sum of the 0/1 indicator)"""
    j = z3.Int("j!cnt")
    c = sym.cur()
    c.nofork += 1
    try:
        ind = z3.Lambda([j], z3.If(sym.fml(segs.get(SInt(j))[0]), 1, 0))
    finally:
        c.nofork -= 1
    return sym.ssum_range(ind, z3.IntSort(), 0, k)


def _stub_split(circuit, predicate):
    return vtypes.wrap("Seq[Tuple[Bool,Obj:Circuit]]", _SEGS(sym.lift(circuit)))


C_GETWF = vc.contract(
    MW + ":BaseWavefunctionSimulator.get_wavefunction",
    params={"self": "Any", "circuit": "Obj:Circuit"},
    requires=INV, ghost=dict(GHOST, segs="SEGS(circuit)"),
    ensures="self._n_jobs_executed == nj0 + len(segs) and self._n_circuits_executed == nc0 + COUNT(segs, len(segs)) "
            "and self._n_circuits_executed >= nc0",
    spec={"SEGS": lambda c: vtypes.wrap("Seq[Tuple[Bool,Obj:Circuit]]", _SEGS(sym.lift(c))), "COUNT": _count_native},
    loops={"for#0": {"invariant": "self._n_jobs_executed == nj0 + k and self._n_circuits_executed == nc0 + COUNT(segs, k) "
                                  "and self._n_circuits_executed >= nc0",
                     "types": {"state": "Obj:State"}},
           "for#1": {"invariant": "True", "types": {"state": "Obj:State"}}},
    modifies=["self._n_circuits_executed", "self._n_jobs_executed"],
    result="Obj:Wavefunction",
    doc="one job per native/non-native segment, one circuit per native segment, nothing for an empty circuit")

C_SIM_RUN = vc.contract(
    MW + ":BaseWavefunctionSimulator.run_and_measure",
    params={"self": "Any", "circuit": "Obj:Circuit", "n_samples": "Int"},
    requires=INV, ghost=dict(GHOST, segs="SEGS(circuit)"),
    raises={"ValueError": "n_samples <= 0 or len(circuit.free_symbols) > 0"},
    ensures="self._n_jobs_executed == nj0 + len(segs) and self._n_circuits_executed == nc0 + COUNT(segs, len(segs))",
    spec={"SEGS": lambda c: vtypes.wrap("Seq[Tuple[Bool,Obj:Circuit]]", _SEGS(sym.lift(c))), "COUNT": _count_native,
          "on_ValueError": "self._n_circuits_executed == nc0 and self._n_jobs_executed == nj0"},
    doc="the simulator validates first; unbound symbols are rejected before the wavefunction is computed")

# ---- tracker ------------------------------------------------------------------------------------
_INNER_BATCH = z3.Function("inner.run_batch_and_measure", Obj, Obj, Obj)


def _inner_run(self):
    def run_and_measure(circuit, n):
        if sym.cur().decide(sym.lift(n) <= 0):
            raise ValueError("inner runner rejects")
        return SObj("Meas", _RUN(sym.lift(circuit), sym.lift(n)))
    return run_and_measure


def _inner_batch(self):
    def run_batch_and_measure(circuits, n_samples):
        c = sym.cur()
        if c.decide(sym.fml(c.inner_rejects)):
            raise ValueError("inner runner rejects the batch")
        res = vtypes.mk("List[Obj:Meas]", "inner_measurements")
        c.assume(sym.lift(res.length()) == sym.lift(vrt.v_len(circuits)))
        c.inner_batch_result = res
        return res
    return run_batch_and_measure


sym.OBJ_SCHEMAS["Operation"] = {"apply": lambda self: (lambda st: SObj("State", sym.cur().fresh("state", Obj)))}
sym.OBJ_SCHEMAS["Inner"] = {"run_and_measure": _inner_run, "run_batch_and_measure": _inner_batch}

C_TR_RUN = vc.contract(
    MT + ":MeasurementTrackingBackend._run_and_measure",
    params={"self": "Any", "circuit": "Obj:Circuit", "n_samples": "Int"},
    requires="n_samples > 0", ghost={"nc0": "self._n_circuits_executed", "nj0": "self._n_jobs_executed", "rec0": "len(self.recorded)"},
    ensures="result == RUN(circuit, n_samples) and self._n_circuits_executed == nc0 and self._n_jobs_executed == nj0 "
            "and len(self.recorded) == rec0 + 1 and self.recorded[rec0][0] == circuit and self.recorded[rec0][1] == result",
    spec=_SPEC,
    doc="the tracker returns the inner runner's result object itself, records (circuit, that result) once and leaves the counters to the base class")
C_TR_BATCH = vc.contract(
    MT + ":MeasurementTrackingBackend.run_batch_and_measure",
    params={"self": "Any", "circuits": "Seq[Obj:Circuit]", "n_samples": "Seq[Int]", "inner_rejects": "Bool"},
    requires=INV, ghost={"nc0": "self._n_circuits_executed", "nj0": "self._n_jobs_executed", "rec0": "len(self.recorded)"},
    raises={"ValueError": "inner_rejects"},
    ensures="SAME_AS_INNER(result) and self._n_circuits_executed == nc0 + len(circuits) and self._n_jobs_executed == nj0 + 1",
    spec={"SAME_AS_INNER": lambda r: r is sym.cur().inner_batch_result,
          "on_ValueError": "self._n_circuits_executed == nc0 and self._n_jobs_executed == nj0 and len(self.recorded) == rec0"},
    loops={"for#0": {"invariant": "True", "modifies": []}},
    doc="a batch the wrapped runner rejects leaves the tracker's counters and records unchanged; otherwise the wrapped runner's list is returned as is and counted")


# ------------------------------------------------------------------------------------------------ harness

def _mk_runner(kind):
    def setup(args, ns):
        c = sym.cur()
        if kind == "base":
            Base = ns["BaseCircuitRunner"]

            class R(Base):
                def _run_and_measure(self, circuit, n_samples):
                    self.log.append((circuit, n_samples))
                    return SObj("Meas", _RUN(sym.lift(circuit), sym.lift(n_samples)))
            r = R()
        elif kind == "sim":
            Base = ns["BaseWavefunctionSimulator"]

            class R(Base):
                def _get_wavefunction_from_native_circuit(self, circuit, initial_state):
                    return SObj("State", sym.cur().fresh("state", Obj))
            r = R()
        else:
            T = ns["MeasurementTrackingBackend"]
            r = T.__new__(T)
            ns["BaseCircuitRunner"].__init__(r)
            r.inner_backend = SObj("Inner", c.fresh("inner", Obj))
            r.recorded = []
            r.record_raw_measurement_data = lambda circuit, measurement: r.recorded.append((circuit, measurement))
            r.save_raw_data = lambda: None
        c.inner_rejects = args.get("inner_rejects", False)
        r.log = []
        r._n_circuits_executed = vtypes.mk("Int", "n_circuits_executed")
        r._n_jobs_executed = vtypes.mk("Int", "n_jobs_executed")
        c.inputs["n_circuits_executed"] = r._n_circuits_executed
        c.inputs["n_jobs_executed"] = r._n_jobs_executed
        args["self"] = r
    return setup


class _AbsState:
    def __setitem__(self, k, v):
        pass


class _NP:
    @staticmethod
    def zeros(n):
        return _AbsState()


def _call_method(name):
    def call(ns, a):
        args = [v for k, v in a.items() if k not in ("self", "inner_rejects")]
        return getattr(a["self"], name)(*args)
    return call


def _sim_overrides():
    def wavefunction(state):
        return SObj("Wavefunction", _WF(sym.lift(state) if isinstance(state, SObj) else sym.cur().fresh("st", Obj)))

    def sample(wf, n, seed=None):
        return SObj("Samples", sym.cur().fresh("samples", Obj))

    def measurements(x=None):
        return SObj("Meas", sym.cur().fresh("meas", Obj))
    return {"np": _NP, "split_circuit": _stub_split, "Wavefunction": wavefunction, "sample_from_wavefunction": sample,
            "Measurements": measurements}


# ------------------------------------------------------------------------------------------------ bounded

def _histories(tier):
    L = 3 if tier == "quick" else 4
    calls = ["run+", "run0", "run-", "batch+", "batch0", "batchlen", "batchlen1", "batchlen5", "batchtuple+", "batchint+", "batchint0", "dist+", "dist0", "empty"]
    return lambda: (h for n in range(1, L + 1) for h in itertools.product(calls, repeat=n)
                    if n < 3 or tier != "quick" or (hash(h) % 7 == 0))


def _check_history(h):
    import os
    import tempfile
    from orquestra.quantum.api.circuit_runner import BaseCircuitRunner
    from orquestra.quantum.circuits import Circuit, X, H
    from orquestra.quantum.measurements import Measurements
    from orquestra.quantum.runners.symbolic_simulator import SymbolicSimulator
    from orquestra.quantum.runners.trackers import MeasurementTrackingBackend

    class Dummy(BaseCircuitRunner):
        def __init__(self):
            super().__init__()
            self.executed = []

        def _run_and_measure(self, circuit, n):
            self.executed.append((circuit, n))
            return Measurements([(0,) * circuit.n_qubits] * n)
    c1, c2, c0 = Circuit([X(0), X(2)]), Circuit([X(1)], n_qubits=4), Circuit(n_qubits=2)
    tmp = tempfile.mkdtemp()
    runners = {"dummy": Dummy(), "sim": SymbolicSimulator(seed=3)}
    runners["tracker"] = MeasurementTrackingBackend(SymbolicSimulator(seed=3), os.path.join(tmp, "raw.json"))
    try:
        for rn, r in runners.items():
            for call in h:
                nc, nj = r.n_circuits_executed, r.n_jobs_executed
                ex0 = len(r.executed) if rn == "dummy" else None
                bad = call.endswith("0") or call.endswith("-") or call.startswith("batchlen")
                circs = [c1, c2, c0]
                try:
                    if call.startswith("run"):
                        out = [r.run_and_measure(c1, {"+": 5, "0": 0, "-": -2}[call[-1]])]
                        circs, req = [c1], [5]
                    elif call.startswith("batchint"):
                        out = r.run_batch_and_measure(circs, 4 if call[-1] == "+" else 0)
                        req = [4, 4, 4]
                    elif call == "batchlen":
                        out = r.run_batch_and_measure(circs, [3, 3])
                    elif call == "batchlen1":       # a per-circuit list of length ONE for three circuits is a wrong length, not a value to broadcast
                        out = r.run_batch_and_measure(circs, [5])
                    elif call == "batchlen5":
                        out = r.run_batch_and_measure(circs, (2, 2, 2, 2, 2))
                    elif call == "batchtuple+":
                        req = [3, 9, 2]
                        out = r.run_batch_and_measure(circs, (3, 9, 2))
                    elif call.startswith("batch"):
                        req = [3, 9, 2] if call[-1] == "+" else [3, 0, 2]
                        out = r.run_batch_and_measure(circs, req)
                    elif call.startswith("dist"):
                        d = r.get_measurement_outcome_distribution(c1, 6 if call[-1] == "+" else 0)
                        out, circs, req = None, [c1], [6]
                    else:
                        out = r.run_batch_and_measure([], [])
                        circs, req = [], []
                except ValueError:
                    if not bad:
                        return False, f"{rn}: valid call {call} rejected"
                    if (r.n_circuits_executed, r.n_jobs_executed) != (nc, nj):
                        return False, f"{rn}: rejected call {call} changed the counters {(nc, nj)} -> {(r.n_circuits_executed, r.n_jobs_executed)}"
                    if rn == "dummy" and len(r.executed) != ex0:
                        return False, f"{rn}: rejected call {call} executed something"
                    continue
                if bad:
                    return False, f"{rn}: invalid call {call} accepted"
                if r.n_circuits_executed < nc or r.n_jobs_executed < nj:
                    return False, f"{rn}: counters decreased"
                if rn == "dummy" and (r.n_circuits_executed - nc, r.n_jobs_executed - nj) != (len(circs), len(circs)):
                    return False, f"{rn}: {call} grew counters by {(r.n_circuits_executed - nc, r.n_jobs_executed - nj)} for {len(circs)} circuits"
                if rn == "sim":
                    segs = sum(1 for c in circs if c.operations)
                    if (r.n_circuits_executed - nc, r.n_jobs_executed - nj) != (segs, segs):
                        return False, f"{rn}: {call} grew counters by {(r.n_circuits_executed - nc, r.n_jobs_executed - nj)}, native segments run: {segs}"
                if out is not None:
                    if len(out) != len(circs):
                        return False, f"{rn}: {len(out)} results for {len(circs)} circuits"
                    for m, c, n in zip(out, circs, req):
                        if len(m.bitstrings) < n or any(len(b) != c.n_qubits for b in m.bitstrings):
                            return False, f"{rn}: result with {len(m.bitstrings)} shots (requested {n}) / wrong width"
                        if rn != "dummy" and c is c1 and any(tuple(b) != (1, 0, 1) for b in m.bitstrings):
                            return False, f"{rn}: wrong outcome for a basis-state circuit"
    finally:
        import shutil
        shutil.rmtree(tmp, ignore_errors=True)
    return True, "ok"


def _check_segments(i):
    """base-class simulators with different native sets on circuits whose first / last / only operations are not native: both counters grow by exactly the number of
    native segments handed to the simulator (jobs) / (circuits); zero for a circuit without native operations; rejected calls change nothing"""
    import numpy as np
    from orquestra.quantum.api.wavefunction_simulator import BaseWavefunctionSimulator
    from orquestra.quantum.circuits import Circuit, H, X, CNOT, MultiPhaseOperation, GateOperation
    from orquestra.quantum.wavefunction import Wavefunction

    def make(native):
        class Sim(BaseWavefunctionSimulator):
            def __init__(self):
                super().__init__()
                self.runs = 0

            def is_natively_supported(self, op):
                return native(op)

            def _get_wavefunction_from_native_circuit(self, circuit, initial_state):
                self.runs += 1
                st = np.array(initial_state, dtype=complex)
                for op in circuit.operations:
                    st = np.array(op.apply(st), dtype=complex).ravel()
                return Wavefunction(st)
        return Sim()
    mp = MultiPhaseOperation(tuple(0.1 * (k + 1) for k in range(4)))
    circuits = [[mp], [mp, H(0), mp], [H(0), mp], [mp, H(0)], [H(0), CNOT(0, 1)], [mp, mp], [H(0), mp, CNOT(0, 1), mp, X(1)], []]
    natives = {"gates (default)": None, "nothing": lambda op: False, "one-qubit gates": lambda op: isinstance(op, GateOperation) and len(op.qubit_indices) == 1,
               "phases only": lambda op: isinstance(op, MultiPhaseOperation)}
    for name, native in natives.items():
        for ops in circuits:
            sim = make(native if native is not None else (lambda op: isinstance(op, GateOperation)))
            if native is None:
                sim.is_natively_supported = lambda op, s=sim: BaseWavefunctionSimulator.is_natively_supported(s, op)
            c = Circuit(ops, n_qubits=2)
            for how in ("wavefunction", "run", "batch", "distribution"):
                nc, nj, r0 = sim.n_circuits_executed, sim.n_jobs_executed, sim.runs
                if how == "wavefunction":
                    sim.get_wavefunction(c)
                    k = 1
                elif how == "run":
                    sim.run_and_measure(c, 3)
                    k = 1
                elif how == "batch":
                    sim.run_batch_and_measure([c, c], [2, 4])
                    k = 2
                else:
                    sim.get_measurement_outcome_distribution(c, 5)
                    k = 1
                segs = sim.runs - r0
                flags = [bool(sim.is_natively_supported(op)) for op in ops]
                all_segments = k * sum(1 for j, f in enumerate(flags) if j == 0 or f != flags[j - 1])     # maximal runs of equal nativeness, per circuit
                if segs != k * sum(1 for j, f in enumerate(flags) if f and (j == 0 or not flags[j - 1])):
                    return False, f"native set '{name}', circuit {c}, {how}: {segs} native segments were handed to the simulator"
                if sim.n_circuits_executed - nc != segs or sim.n_jobs_executed - nj != all_segments:
                    return False, f"native set '{name}', circuit {c}, {how}: counters grew by (circuits {sim.n_circuits_executed - nc}, jobs {sim.n_jobs_executed - nj}) " \
                                  f"but {segs} native segments were run out of {all_segments} segments"
            nc, nj = sim.n_circuits_executed, sim.n_jobs_executed
            for bad in (lambda: sim.run_and_measure(c, 0), lambda: sim.run_batch_and_measure([c, c], [3]), lambda: sim.run_batch_and_measure([c, c], [2, -1])):
                try:
                    bad()
                    return False, f"native set '{name}': an invalid request was accepted"
                except ValueError:
                    pass
            if (sim.n_circuits_executed, sim.n_jobs_executed) != (nc, nj):
                return False, f"native set '{name}': a rejected request changed the counters"
        # an operation that fails in the middle of a run: what was counted is what was started - never the segments behind the failure
        bad_phase = MultiPhaseOperation((0.1, 0.2))          # two angles for a four-dimensional state: apply raises
        for ops, fail_at in (([H(0), bad_phase, X(1)], 1), ([H(0), bad_phase, X(1), mp, H(1)], 1), ([bad_phase, H(0)], 0), ([H(0), mp, X(1), bad_phase, H(0), mp, X(0)], 3)):
            sim = make(native if native is not None else (lambda op: isinstance(op, GateOperation)))
            flags = [bool(sim.is_natively_supported(op)) for op in ops]
            if flags[fail_at]:
                continue             # this simulator treats the phase operation as native: nothing fails in the base class
            seg_of = []
            k = -1
            for j, f in enumerate(flags):
                if j == 0 or f != flags[j - 1]:
                    k += 1
                seg_of.append(k)
            started = seg_of[fail_at] + 1
            native_before = sum(1 for j, f in enumerate(flags[:fail_at]) if f and (j == 0 or not flags[j - 1]))
            c = Circuit(ops, n_qubits=2)
            nc, nj, r0 = sim.n_circuits_executed, sim.n_jobs_executed, sim.runs
            try:
                sim.get_wavefunction(c)
                return False, f"native set '{name}': {c} ran although one of its operations cannot be applied"
            except Exception:
                pass
            if sim.runs - r0 != native_before or sim.n_circuits_executed - nc != native_before or not (started - 1 <= sim.n_jobs_executed - nj <= started):
                return False, f"native set '{name}', {c} failing at operation {fail_at}: counters grew by (circuits {sim.n_circuits_executed - nc}, jobs {sim.n_jobs_executed - nj}); " \
                              f"{native_before} native segments were run and {started} segments were started"
    return True, "ok"


def _check_tracker(case):
    import json
    import os
    import tempfile
    from orquestra.quantum.circuits import Circuit, X, to_dict
    from orquestra.quantum.runners.symbolic_simulator import SymbolicSimulator
    from orquestra.quantum.runners.trackers import MeasurementTrackingBackend
    record_bits, batch = case
    tmp = tempfile.mkdtemp()
    try:
        path = os.path.join(tmp, "raw.json")
        inner = SymbolicSimulator(seed=5)
        returned = []
        orig_run, orig_batch = inner.run_and_measure, inner.run_batch_and_measure
        if batch:
            inner.run_batch_and_measure = lambda cs, ns: (returned.extend(orig_batch(cs, ns)) or returned[-len(cs):])
        else:
            inner.run_and_measure = lambda c, n: (returned.append(orig_run(c, n)) or returned[-1])
        t = MeasurementTrackingBackend(inner, path, record_bits)
        circs = [Circuit([X(0)], n_qubits=2), Circuit([X(1), X(2)])]
        if batch:
            out = t.run_batch_and_measure(circs, [4, 7])
        else:
            out = [t.run_and_measure(c, n) for c, n in zip(circs, [4, 7])]
        if any(o is not r for o, r in zip(out, returned)) or len(out) != len(returned):
            return False, "tracker did not return the wrapped runner's result objects"
        data = json.load(open(path))["raw-data"]
        last = data[-len(circs):] if batch else data[-1:]
        pairs = list(zip(circs, out))[-len(last):]
        for rec, (c, m) in zip(last, pairs):
            if rec["counts"] != m.get_counts() or rec["number_of_shots"] != len(m.bitstrings) or rec["circuit"] != json.loads(json.dumps(to_dict(c))) \
                    or rec["number_of_gates"] != len(c.operations):
                return False, f"record {rec} does not match result/circuit"
            if record_bits and rec.get("bitstrings") != [list(b) for b in m.bitstrings]:
                return False, "recorded bitstrings differ"
        # many short-lived circuits (objects die between calls): every record must describe the circuit of ITS call
        t2 = MeasurementTrackingBackend(SymbolicSimulator(seed=6), path, record_bits)
        import gc
        from orquestra.quantum.circuits import RX
        for i in range(25):
            tmpc = Circuit([X(i % 3), RX(0.1 * i)((i + 1) % 3)] + [X(0)] * (i % 4), n_qubits=3)
            want = json.loads(json.dumps(to_dict(tmpc)))
            ngates = len(tmpc.operations)
            if batch:
                t2.run_batch_and_measure([tmpc], [3])
            else:
                t2.run_and_measure(tmpc, 3)
            rec = json.load(open(path))["raw-data"][-1]
            del tmpc
            gc.collect()
            if rec["circuit"] != want or rec["number_of_gates"] != ngates:
                return False, f"call {i}: the record describes another circuit than the one that was run"
        # circuits that compare EQUAL to their neighbour in the batch without being the same circuit (parameters 1e-9 apart, 1 vs 1.0): each record carries ITS circuit
        t3 = MeasurementTrackingBackend(SymbolicSimulator(seed=7), path, record_bits)
        near = [Circuit([RX(0.3)(0)]), Circuit([RX(0.3 + 1e-9)(0)]), Circuit([RX(0.3)(0)]), Circuit([RX(1)(0)]), Circuit([RX(1.0)(0)]), Circuit([RX(1.0)(0)], n_qubits=2), Circuit([RX(1.0 - 1e-10)(0)], n_qubits=2)]
        if batch:
            t3.run_batch_and_measure(near, 2)
            recs = json.load(open(path))["raw-data"]
        else:
            recs = []
            for c in near:
                t3.run_and_measure(c, 2)
                recs.append(json.load(open(path))["raw-data"][-1])
        if len(recs) != len(near):
            return False, f"{len(recs)} records for {len(near)} circuits"
        for i, (rec, c) in enumerate(zip(recs, near)):
            if json.dumps(rec["circuit"], sort_keys=True) != json.dumps(to_dict(c), sort_keys=True):
                return False, f"record {i} of a batch of nearly equal circuits carries {rec['circuit']['operations']} for the circuit {c}"
        # a call the wrapped runner refuses for its own reasons leaves no trace: the file written by the next successful call describes that call only
        from orquestra.quantum.api.circuit_runner import BaseCircuitRunner
        from orquestra.quantum.measurements import Measurements

        class Picky(BaseCircuitRunner):
            def _run_and_measure(self, circuit, n):
                if len(circuit.operations) == 3:
                    raise RuntimeError("device offline")
                return Measurements([(0,) * circuit.n_qubits] * n)

            def get_measurement_outcome_distribution(self, circuit, n_samples=None):
                if len(circuit.operations) == 3:
                    raise RuntimeError("device offline")
                return super().get_measurement_outcome_distribution(circuit, n_samples)
        t4 = MeasurementTrackingBackend(Picky(), path, record_bits)
        good, badc = Circuit([X(0)], n_qubits=2), Circuit([X(0), X(1), X(0)], n_qubits=2)
        for first in ("distribution", "run", "batch"):
            nc, nj = t4.n_circuits_executed, t4.n_jobs_executed
            try:
                if first == "distribution":
                    t4.get_measurement_outcome_distribution(badc, 5)
                elif first == "run":
                    t4.run_and_measure(badc, 5)
                else:
                    t4.run_batch_and_measure([good, badc], [2, 2])
                return False, "the wrapped runner's error was swallowed"
            except RuntimeError:
                pass
            for second in ("run", "distribution", "batch"):
                if second == "run":
                    t4.run_and_measure(good, 3)
                    k = 1
                elif second == "distribution":
                    t4.get_measurement_outcome_distribution(good, 4)
                    k = 1
                else:
                    t4.run_batch_and_measure([good, good], [2, 3])
                    k = 2
                recs = json.load(open(path))["raw-data"]
                if len(recs) != k or any(r_["number_of_gates"] != 1 for r_ in recs):
                    return False, f"after a {first} call the wrapped runner refused, the file written by a successful {second} call holds {len(recs)} records " \
                                  f"({[r_['number_of_gates'] for r_ in recs]} gates) for {k} results"
        return True, "ok"
    finally:
        import shutil
        shutil.rmtree(tmp, ignore_errors=True)


def build(tier, seed):
    obs = []
    fb = vprop.enum_ob("x", [], _histories("quick"), _check_history, "").run
    base = _mk_runner("base")
    post = lambda args, ns: {}
    obs.append(vprop.fn_ob("C14", C_RUN, {}, call=_call_method("run_and_measure"), setup=base, post_env=post, fallback=fb,
                           desc="BaseCircuitRunner.run_and_measure: rejects n<=0 before executing (counters, execution log unchanged), else one execution and +1/+1"))
    obs.append(vprop.fn_ob("C14", C_BATCH_INNER, {"BaseCircuitRunner.run_and_measure": C_RUN}, call=_call_method("_run_batch_and_measure"),
                           setup=base, post_env=post, fallback=fb,
                           desc="default _run_batch_and_measure: results in order, counters grow by the number of circuits (comprehension invariant)"))
    obs.append(vprop.fn_ob("C14", C_BATCH_SEQ, {"BaseCircuitRunner._run_batch_and_measure": C_BATCH_INNER}, call=_call_method("run_batch_and_measure"),
                           setup=base, post_env=post, fallback=fb, obid="C14.run_batch_and_measure.seq.contract",
                           desc="run_batch_and_measure with a per-circuit list: wrong length or any non-positive entry => ValueError before execution, state unchanged"))
    import copy
    cint = copy.copy(C_BATCH_INT)
    cint.key = C_BATCH_SEQ.key
    obs.append(vprop.fn_ob("C14", cint, {"BaseCircuitRunner._run_batch_and_measure": C_BATCH_INNER}, call=_call_method("run_batch_and_measure"),
                           setup=base, post_env=post, fallback=fb, obid="C14.run_batch_and_measure.int.contract",
                           desc="run_batch_and_measure with an integer: broadcast; non-positive rejected before execution"))
    obs.append(vprop.fn_ob("C14", C_DIST, {"BaseCircuitRunner.run_and_measure": C_RUN}, call=_call_method("get_measurement_outcome_distribution"),
                           setup=base, post_env=post, fallback=fb,
                           desc="get_measurement_outcome_distribution (base): as run_and_measure, returns the distribution of that result"))
    sim = _mk_runner("sim")
    obs.append(vprop.fn_ob("C14", C_GETWF, {}, call=_call_method("get_wavefunction"), setup=sim, overrides=_sim_overrides(), fallback=fb,
                           desc="get_wavefunction: one job per segment, one circuit per native segment (loop invariant with prefix count)"))
    obs.append(vprop.fn_ob("C14", C_SIM_RUN, {"BaseWavefunctionSimulator.get_wavefunction": C_GETWF}, call=_call_method("run_and_measure"),
                           setup=sim, overrides=_sim_overrides(), fallback=fb, obid="C14.simulator.run_and_measure.contract",
                           desc="simulator run_and_measure: validates n and free symbols before computing anything; counters as get_wavefunction"))
    tr = _mk_runner("tracker")
    fbt = vprop.enum_ob("x", [], lambda: itertools.product([False, True], [False, True]), _check_tracker, "").run
    obs.append(vprop.fn_ob("C14", C_TR_RUN, {}, call=_call_method("_run_and_measure"), setup=tr, fallback=fbt, obid="C14.tracker._run_and_measure.contract",
                           desc="tracker._run_and_measure returns the wrapped runner's result object, records it once, leaves counters alone"))
    obs.append(vprop.fn_ob("C14", C_TR_BATCH, {}, call=_call_method("run_batch_and_measure"), setup=tr, fallback=fb, obid="C14.tracker.run_batch_and_measure.contract",
                           desc="tracker.run_batch_and_measure: rejected batch leaves counters/records unchanged; accepted batch returned as is, counted"))
    obs.append(vprop.enum_ob("C14.histories.enum", [C_RUN.key, C_BATCH_SEQ.key, C_DIST.key, C_GETWF.key, C_TR_BATCH.key], _histories(tier), _check_history,
                             "bounded: call histories (valid and invalid single / batch / distribution calls) on a dummy base runner, SymbolicSimulator and a tracker: "
                             "rejections leave counters unchanged, counters never decrease and grow exactly, one result per circuit with >= n shots of register width",
                             timeout=900, time_budget=(None if tier == "quick" else 420), exhaustive=(tier == "quick")))
    obs.append(vprop.enum_ob("C14.segments.enum", [C_GETWF.key, C_SIM_RUN.key], lambda: [0], _check_segments,
                             "bounded: base-class simulators with four native sets x eight circuits whose first / last / only operations are not native x four entry points: circuits counter grows "
                             "by the native segments actually run, jobs counter by the segments processed; rejected requests (zero shots, wrong list length incl. length one, negative entry) change nothing"))
    obs.append(vprop.enum_ob("C14.tracker.enum", [C_TR_RUN.key, C_TR_BATCH.key], lambda: itertools.product([False, True], [False, True]), _check_tracker,
                             "bounded: the tracker returns the wrapped runner's objects and writes records whose counts / shots / circuit match them"))
    return obs
