"""C10, the vectorised statistics under contract (Engine V over an abstract numpy): for ALL shot tables, ALL marked-qubit lists, ALL frequencies.

  * `check_parity_of_vector(table, marked)`: entry k = (sum of the marked bits of row k + 1) mod 2, i.e. 1 iff row k has even parity on the marked
    qubits; no marked qubit -> all ones;
  * `check_parity(bitstring, marked)` (tuple or string form): True iff the number of marked positions holding a one is even (loop invariant);
  * `get_expectation_value_from_frequencies(marked, counts)`: sum_k counts_k (2 even_k - 1) / N with N the total count - the sample mean of the term's
    +-1 eigenvalue (callee `check_parity_of_vector` by its contract; `_convert_bitstrings_to_vector` assumed: entry (k, q) = digit q of the k-th key);
  * `get_parities_from_measurements`: for every term, [number of shots with even parity, number with odd parity] on the term's qubits (loop invariant).
The numpy operations used by this text (fancy column indexing, sum(axis=1), element-wise + - * / %, fromiter, ones, zeros, abs) are read by the shim
below - the trusted contract of numpy for these functions; floats are reals.
"""
from __future__ import annotations

import z3

from vfw import core, sym, vcontract as vc, vprop, vrt, vtypes
from vfw.sym import Obj, SSeq, SInt, SReal, SObj

M = "orquestra.quantum.measurements.measurements"
PA = "orquestra.quantum.measurements.parities"
I, R = z3.IntSort(), z3.RealSort()
BITOF = z3.Function("digit_of_bitstring", Obj, I, I)          # digit q (0 / 1) of a count key / a shot


def _e(x):
    """z3 term of a scalar"""
    if isinstance(x, NS):
        return x.e
    return sym.lift(x)


def _coerce(a, b):
    if a.sort() == b.sort():
        return a, b
    return (z3.ToReal(a) if a.sort() == I else a), (z3.ToReal(b) if b.sort() == I else b)


def _bin(op, a, b):
    a, b = _coerce(a, b)
    if op == "+":
        return a + b
    if op == "-":
        return a - b
    if op == "*":
        return a * b
    if op == "/":
        a, b = (z3.ToReal(a) if a.sort() == I else a), (z3.ToReal(b) if b.sort() == I else b)
        return a / b
    if op == "%":
        if a.sort() != I:
            raise sym.Unsupported("% on a non-integer array")
        return a % b
    raise sym.Unsupported(op)


def vsum(n, body_fn, depth=0):
    """sum_{j<n} body_fn(j) as an `ssum` term with a canonical bound-variable name per nesting depth (code and specification build identical terms)"""
    j = z3.Int(f"j!sum{depth}")
    c = sym.cur()
    c.nofork += 1
    try:
        body = body_fn(j)
    finally:
        c.nofork -= 1
    return sym.lift(sym.ssum_range(z3.Lambda([j], z3.simplify(body)), body.sort(), 0, z3.simplify(sym.lift(n))))


class NS:
    """numpy scalar"""

    def __init__(self, e):
        self.e = e

    def item(self):
        return sym.wrap_expr(self.e) if self.e.sort() == I else SReal(self.e)


class V1:
    """1-D array: length n, element function at(i) -> z3 term"""

    def __init__(self, n, fn):
        self.n, self.fn = n, fn

    def at(self, i):
        return self.fn(sym.lift(i))

    @property
    def shape(self):
        return (self.n,)

    def _ew(self, op, o, swap=False):
        if isinstance(o, V1):
            f = (lambda i: _bin(op, o.at(i), self.at(i))) if swap else (lambda i: _bin(op, self.at(i), o.at(i)))
        elif isinstance(o, (V2, V3)):
            return NotImplemented
        else:
            oe = _e(o)
            f = (lambda i: _bin(op, oe, self.at(i))) if swap else (lambda i: _bin(op, self.at(i), oe))
        return V1(self.n, f)

    def __add__(self, o): return self._ew("+", o)
    def __radd__(self, o): return self._ew("+", o, True)
    def __sub__(self, o): return self._ew("-", o)
    def __rsub__(self, o): return self._ew("-", o, True)
    def __mul__(self, o): return self._ew("*", o)
    def __rmul__(self, o): return self._ew("*", o, True)
    def __truediv__(self, o): return self._ew("/", o)
    def __mod__(self, o): return self._ew("%", o)

    def sum(self):
        return NS(vsum(self.n, self.at))


class V2:
    """2-D array: rows x cols, element function at(i, j)"""

    def __init__(self, rows, cols, fn):
        self.rows, self.cols, self.fn = rows, cols, fn

    def at(self, i, j):
        return self.fn(sym.lift(i), sym.lift(j))

    @property
    def shape(self):
        return (self.rows, self.cols)

    def __getitem__(self, idx):
        if isinstance(idx, tuple) and len(idx) == 2 and isinstance(idx[0], slice) and idx[0] == slice(None) and isinstance(idx[1], V1):
            cols = idx[1]
            return V2(self.rows, cols.n, lambda i, j: self.at(i, cols.at(j)))
        raise sym.Unsupported(f"array indexing {idx!r}")

    def sum(self, axis=None):
        if axis != 1:
            raise sym.Unsupported("sum over this axis")
        return V1(self.rows, lambda i: vsum(self.cols, lambda j: self.at(i, j), depth=1))


class V3:
    pass


class NP:
    @staticmethod
    def ones(n):
        return V1(n, lambda i: z3.RealVal(1))

    @staticmethod
    def fromiter(it, dtype=None):
        if dtype is not int and dtype is not vrt.v_int:
            raise sym.Unsupported("fromiter dtype")
        if isinstance(it, vrt.SDict):
            it = it.keys()
        s = SSeq.of(it)
        return V1(s.length(), lambda i: sym.lift(s.get(SInt(i) if not isinstance(i, int) else i)))

    @staticmethod
    def abs(x):
        if isinstance(x, V1):
            return V1(x.n, lambda i: z3.If(x.at(i) >= 0, x.at(i), -x.at(i)))
        raise sym.Unsupported("abs")

    @staticmethod
    def array(x, *a, **k):
        raise sym.Unsupported("np.array")


# ---- specification functions --------------------------------------------------------------------------------------------------------------------

def marked_sum(row_bit, marked):
    """sum over the marked qubits (in their iteration order) of the row's bit - z3 Int term"""
    m = SSeq.of(marked)
    return vsum(m.length(), lambda j: row_bit(sym.lift(m.get(SInt(j)))), depth=1)


def even_indicator(row_bit, marked):
    """1 iff the row has an even number of ones on the marked qubits"""
    return (marked_sum(row_bit, marked) + 1) % 2


def _real(e):
    return z3.ToReal(e) if e.sort() == I else e


def ssum_congr(t1, t2):
    """instance of `sum_congr_pointwise` (lean/Prelude.lean): two sums over the same range whose summands agree point-wise are equal"""
    if not (z3.is_app(t1) and z3.is_app(t2) and t1.decl().name().startswith("ssum_") and t1.decl().eq(t2.decl())):
        return
    a, lo, hi = t1.arg(0), t1.arg(1), t1.arg(2)
    b = t2.arg(0)
    i = z3.Int("i!cg")
    sym.cur().axioms.append(z3.Implies(z3.And(t2.arg(1) == lo, t2.arg(2) == hi, z3.ForAll([i], z3.Implies(z3.And(lo <= i, i < hi), z3.Select(a, i) == z3.Select(b, i)))), t1 == t2))


# ---- check_parity_of_vector -----------------------------------------------------------------------------------------------------------------------

TABLE = z3.Function("table_entry", Obj, I, I, I)       # an arbitrary integer table: (table, row, column) -> entry


def mk_table(name):
    c = sym.cur()
    t = c.fresh(name, Obj)
    rows = c.fresh(name + ".rows", I)
    cols = c.fresh(name + ".cols", I)
    c.assume(z3.And(rows >= 0, cols >= 0))
    return V2(SInt(rows), SInt(cols), lambda i, j: TABLE(t, i, j))


def _parvec_holds(result, table, marked):
    c = sym.cur()
    c.n += 1
    k = z3.Int(f"k!pv{c.n}")
    want = even_indicator(lambda q: table.at(k, q), marked)
    return sym.wrap_expr(z3.And(sym.lift(result.n) == sym.lift(table.rows),
                                z3.ForAll([k], z3.Implies(z3.And(0 <= k, k < sym.lift(table.rows)), _real(result.at(k)) == _real(want)))))


C_PARVEC = vc.Contract(key=PA + ":check_parity_of_vector", params={"bitstrings_vector": "Any", "marked_qubits": "Seq[Int]"},
                       ensures="PARVEC(result, bitstrings_vector, marked_qubits)", spec={"PARVEC": _parvec_holds},
                       doc="entry k = (sum of the marked bits of row k + 1) mod 2: 1 iff the row has even parity on the marked qubits (all ones when nothing is marked)")


def parvec_stub(table, marked):
    """C_PARVEC at a call site: the array the contract describes"""
    if isinstance(marked, SObj):
        marked = sym.OBJ_SCHEMAS[marked.cls]["__iter__"](marked)
    return V1(table.rows, lambda k: even_indicator(lambda q: table.at(k, q), marked))


# ---- check_parity ----------------------------------------------------------------------------------------------------------------------------------

def _check_parity_contract(kind):
    """kind 'tuple': bitstring[q] is an integer; kind 'str': bitstring[q] is a character, '1' standing for one"""
    bits = z3.Function(f"bit_of_{kind}", Obj, I, I)
    ONE = z3.StringVal("1")

    def getter(self):
        if kind == "tuple":
            return lambda i: sym.wrap_expr(bits(self.e, sym.lift(i)))
        return lambda i: sym.SStr(z3.If(bits(self.e, sym.lift(i)) == 1, ONE, z3.StringVal("0")))
    cls = "Bits_" + kind
    sym.OBJ_SCHEMAS[cls] = {"__getitem__": getter}

    def even(b, marked, k=None):
        m = SSeq.of(marked)
        j = z3.Int("j!cp")
        c = sym.cur()
        c.nofork += 1
        try:
            body = z3.If(bits(b.e, sym.lift(m.get(SInt(j)))) == 1, 1, 0)
        finally:
            c.nofork -= 1
        kk = m.length() if k is None else k
        return sym.wrap_expr(sym.lift(sym.ssum_range(z3.Lambda([j], body), I, 0, kk)) % 2 == 0)
    return vc.Contract(key=PA + ":check_parity", params={"bitstring": "Obj:" + cls, "marked_qubits": "Seq[Int]"}, result="Bool",
                       ensures="result == EVEN(bitstring, marked_qubits)", spec={"EVEN": even},
                       loops={"for#0": {"invariant": "result == EVEN(bitstring, marked_qubits, k)"}},
                       doc=f"({kind} form) True iff the number of marked positions holding a one is even")


# ---- get_expectation_value_from_frequencies -------------------------------------------------------------------------------------------------------

def _mk_counts(name):
    d = vtypes.mk("Dict[Bitstr,Int]", name)
    sym.cur().inputs[name] = d
    return d


def _vector_of_keys(keys):
    """assumed contract of `_convert_bitstrings_to_vector` (string -> array conversion, bounded natively): entry (k, q) is digit q of the k-th key"""
    ks = SSeq.of(keys)
    c = sym.cur()
    nq = c.fresh("n_qubits", I)
    c.assume(nq >= 0)
    return V2(ks.length(), SInt(nq), lambda k, q: BITOF(sym.lift(ks.get(SInt(k))), q))


def _expectation(counts, marked):
    """sum_k counts_k * (2 * even_k - 1) / N"""
    ks = counts.keys()
    n_total = sym.lift(vrt.v_sum(counts.values()))

    def body(k):
        key = sym.lift(ks.get(SInt(k)))
        ev = even_indicator(lambda q: BITOF(key, q), marked)
        return z3.ToReal(z3.Select(counts.val, key) * (ev * 2 - 1)) / z3.ToReal(n_total)
    return vsum(ks.length(), body)


def _expectation_holds(result, counts, marked):
    want = _expectation(counts, marked)
    got = sym.lift(result)
    ssum_congr(got, want)
    return sym.wrap_expr(_real(got) == want)


C_EF = vc.Contract(key=M + ":get_expectation_value_from_frequencies", params={"marked_qubits": "Seq[Int]", "bitstring_frequencies": "Any"},
                   requires="len(bitstring_frequencies.keys()) >= 1",
                   ensures="EXPECTATION(result, bitstring_frequencies, marked_qubits)", spec={"EXPECTATION": _expectation_holds},
                   doc="sum over the distinct outcomes of count x (+1 for even, -1 for odd parity on the marked qubits) / total count: the sample mean of the term's eigenvalue")


# ---- get_parities_from_measurements -----------------------------------------------------------------------------------------------------------------

class PairRows:
    """the list `values` of [even count, odd count] rows: length n and two integer columns"""

    def __init__(self, n, a0, a1):
        self.n, self.a0, self.a1 = n, a0, a1

    def append(self, row):
        if not (isinstance(row, list) and len(row) == 2):
            raise sym.Unsupported("row appended to the tally list is not a pair")
        self.a0 = z3.Store(self.a0, sym.lift(self.n), _e(row[0]))
        self.a1 = z3.Store(self.a1, sym.lift(self.n), _e(row[1]))
        self.n = self.n + 1


class Cube:
    """np.zeros((n, n, 2)): entries (i, j, c) in an integer-indexed store; a[i, j] is a VIEW (writes go through)"""

    def __init__(self, arr):
        self.arr = arr

    def at(self, i, j, c):
        return z3.Select(self.arr, sym.lift(i), sym.lift(j), sym.lift(c))

    def __getitem__(self, ij):
        i, j = ij
        cube = self

        class View:
            def __getitem__(self, c):
                return NS(cube.at(i, j, c))

            def __setitem__(self, c, v):
                cube.arr = z3.Store(cube.arr, sym.lift(i), sym.lift(j), sym.lift(c), _real(_e(v)))
        return View()


def _ns_add(self, o):
    a, b = _coerce(self.e, _e(o))
    return NS(a + b)


NS.__add__ = _ns_add
NS.__radd__ = _ns_add
CubeSort = z3.ArraySort(I, I, I, R)


def _tally(counts, marked, even):
    """number of shots whose parity on the marked qubits is even (odd): sum over the distinct shots of their multiplicity"""
    ks = counts.keys()

    def body(r):
        key = sym.lift(ks.get(SInt(r)))
        ev = even_indicator(lambda q: BITOF(key, q), marked)
        return (ev if even else (1 - ev)) * z3.Select(counts.val, key)
    return vsum(ks.length(), body)


def _pair_tally(counts, m1, m2, equal):
    """number of shots on which the two supports have equal (different) parity"""
    ks = counts.keys()

    def body(r):
        key = sym.lift(ks.get(SInt(r)))
        d = even_indicator(lambda q: BITOF(key, q), m1) - even_indicator(lambda q: BITOF(key, q), m2)
        ad = z3.If(d >= 0, d, -d)
        return ((1 - ad) if equal else ad) * z3.Select(counts.val, key)
    return vsum(ks.length(), body)


def build_parities_contract(state):
    sym.OBJ_SCHEMAS["POp"] = {"is_ising": "Bool", "terms": "Seq[Obj:PTerm]"}
    sym.OBJ_SCHEMAS["PTerm"] = {"qubits": "Seq[Int]"}
    sym.OBJ_SCHEMAS.setdefault("Shot", {})

    TE, TO = z3.Function("shots_with_even_parity", Obj, I), z3.Function("shots_with_odd_parity", Obj, I)
    PE, PN = z3.Function("shots_with_equal_parities", Obj, Obj, I), z3.Function("shots_with_different_parities", Obj, Obj, I)
    SEQ_INT = ("seq", ("int",), "list")

    def define():
        """definitional axioms: the four tallies as functions of the qubit collection(s) - sums over the table of distinct shots"""
        c = sym.cur()
        if "tallies" in c.axioms_done:
            return
        c.axioms_done.add("tallies")
        counts = state["counts"]
        o, o2 = z3.Const("o!ta", Obj), z3.Const("o2!ta", Obj)
        q, q2 = vtypes.wrap(SEQ_INT, o), vtypes.wrap(SEQ_INT, o2)
        c.axioms.append(z3.ForAll([o], z3.And(TE(o) == _tally(counts, q, True), TO(o) == _tally(counts, q, False)), patterns=[TE(o), TO(o)]))
        c.axioms.append(z3.ForAll([o, o2], z3.And(PE(o, o2) == _pair_tally(counts, q, q2, True), PN(o, o2) == _pair_tally(counts, q, q2, False)),
                                  patterns=[PE(o, o2), PN(o, o2)]))

    def qobj(term):
        return term.qubits.node[2].arg(0)        # the collection object behind the sequence view `term.qubits`

    def ground(op, *idx):
        """ground instances of the definitional axioms at the terms with the given indices (z3 does not rewrite under the binder of a sum's summand,
        so the instance whose text coincides with the code's own term is supplied explicitly)"""
        c = sym.cur()
        counts = state["counts"]
        c.nofork += 1
        try:
            ts = [op.terms.get(sym.wrap_expr(sym.lift(i))) for i in idx]
            for t in ts:
                c.axioms.append(z3.And(TE(qobj(t)) == _tally(counts, t.qubits, True), TO(qobj(t)) == _tally(counts, t.qubits, False)))
            for t1 in ts:
                for t2 in ts:
                    c.axioms.append(z3.And(PE(qobj(t1), qobj(t2)) == _pair_tally(counts, t1.qubits, t2.qubits, True),
                                           PN(qobj(t1), qobj(t2)) == _pair_tally(counts, t1.qubits, t2.qubits, False)))
        finally:
            c.nofork -= 1

    def values_ok(values, op, k):
        if isinstance(values, list):
            if values:
                raise sym.Unsupported("non-empty concrete tally list")
            return sym.wrap_expr(sym.lift(k) == 0)
        define()
        ground(op, sym.lift(k) - 1)
        c = sym.cur()
        c.n += 1
        i = z3.Int(f"i!vo{c.n}")
        c.nofork += 1
        try:
            o = qobj(op.terms.get(SInt(i)))
        finally:
            c.nofork -= 1
        n = sym.lift(k)
        return sym.wrap_expr(z3.And(sym.lift(values.n) == n,
                                    z3.ForAll([i], z3.Implies(z3.And(0 <= i, i < n), z3.And(z3.Select(values.a0, i) == TE(o), z3.Select(values.a1, i) == TO(o))),
                                              patterns=[z3.Select(values.a0, i), z3.Select(values.a1, i)] if z3.is_const(values.a0) else [])))

    def corr_ok(cube, op, rows_done, row, cols_done):
        """entries of completed rows and of the completed part of the current row hold the pair tallies; every other entry is still zero"""
        define()
        ground(op, sym.lift(row), sym.lift(cols_done) - 1)
        c = sym.cur()
        c.n += 1
        a, b = z3.Int(f"a!co{c.n}"), z3.Int(f"b!co{c.n}")
        c.nofork += 1
        try:
            oa, ob = qobj(op.terms.get(SInt(a))), qobj(op.terms.get(SInt(b)))
        finally:
            c.nofork -= 1
        n = sym.lift(op.terms.length())
        rd, rw, cd = sym.lift(rows_done), sym.lift(row), sym.lift(cols_done)
        done = z3.Or(a < rd, z3.And(a == rw, b < cd))
        return sym.wrap_expr(z3.ForAll([a, b], z3.Implies(z3.And(0 <= a, a < n, 0 <= b, b < n),
                                                           z3.And(cube.at(a, b, 0) == z3.If(done, z3.ToReal(PE(oa, ob)), z3.RealVal(0)),
                                                                  cube.at(a, b, 1) == z3.If(done, z3.ToReal(PN(oa, ob)), z3.RealVal(0))))))
    mk_rows = lambda name: PairRows(SInt(sym.cur().fresh(name + ".n", I)), sym.cur().fresh(name + ".a0", z3.ArraySort(I, I)), sym.cur().fresh(name + ".a1", z3.ArraySort(I, I)))
    mk_cubes = lambda name: [Cube(sym.cur().fresh(name, CubeSort))]
    return vc.Contract(
        key=PA + ":get_parities_from_measurements", params={"measurements": "Any", "ising_operator": "Obj:POp"},
        raises={"TypeError": "not ising_operator.is_ising"},
        ensures="VALUES_OK(result.values, ising_operator, len(ising_operator.terms)) and CORR_OK(result.correlations[0], ising_operator, len(ising_operator.terms), -1, 0)",
        loops={"for#0": {"invariant": "VALUES_OK(values, ising_operator, k)", "types": {"values": mk_rows}},
               "for#1": {"invariant": "CORR_OK(correlations[0], ising_operator, k, -1, 0)", "types": {"correlations": mk_cubes}},
               "for#2": {"invariant": "CORR_OK(correlations[0], ising_operator, term1_index, term1_index, k)", "types": {"correlations": mk_cubes}}},
        spec={"VALUES_OK": values_ok, "CORR_OK": corr_ok},
        doc="for every term: [number of shots with even parity, number with odd parity] on the term's qubits; for every ordered pair of terms: [shots on which the two "
            "parities are equal, shots on which they differ] (three loop invariants; the shot table is collections.Counter's, assumed)")


def build(fb=None):
    sym.OBJ_SCHEMAS.setdefault("Bitstr", {})
    obs = []

    def setup_pv(args, ns):
        args["bitstrings_vector"] = mk_table("table")
    obs.append(vprop.fn_ob("C10", C_PARVEC, {}, setup=setup_pv, overrides={"np": NP}, fallback=fb, obid="C10.check_parity_of_vector.contract", desc=C_PARVEC.doc, timeout_ms=30000))
    for kind in ("tuple", "str"):
        c = _check_parity_contract(kind)
        obs.append(vprop.fn_ob("C10", c, {}, fallback=fb, obid=f"C10.check_parity[{kind}].contract", desc=c.doc, timeout_ms=30000))

    def setup_ef(args, ns):
        args["bitstring_frequencies"] = _mk_counts("bitstring_frequencies")
    obs.append(vprop.fn_ob("C10", C_EF, {}, setup=setup_ef, overrides={"np": NP}, fallback=fb, obid="C10.expectation_from_frequencies.contract", desc=C_EF.doc, timeout_ms=60000,
                           extra_stubs=lambda: {"check_parity_of_vector": parvec_stub, "_convert_bitstrings_to_vector": _vector_of_keys}))
    state = {}
    c_par = build_parities_contract(state)

    class Holder:
        def __init__(self, values, correlations=None):
            self.values, self.correlations = values, correlations

    def counter_stub(measurements):
        """collections.Counter (assumed): the table of distinct shots with their multiplicities"""
        d = vtypes.mk("Dict[Shot,Int]", "shot_table")
        state["counts"] = d
        return d

    class NPP(NP):
        @staticmethod
        def array(x, *a, **k):
            if isinstance(x, PairRows):
                return x
            ks = SSeq.of(x)
            c = sym.cur()
            nq = c.fresh("n_qubits", I)
            c.assume(nq >= 0)
            return V2(ks.length(), SInt(nq), lambda r, q: BITOF(sym.lift(ks.get(SInt(r))), q))

        @staticmethod
        def zeros(shape):
            if not (isinstance(shape, tuple) and len(shape) == 3):
                raise sym.Unsupported("np.zeros of this shape")
            return Cube(z3.K(I, z3.K(I, z3.K(I, z3.RealVal(0)))) if False else _zero_cube())

    def setup_par(args, ns):
        args["measurements"] = object()      # only handed to collections.Counter (stub)
    obs.append(vprop.fn_ob("C10", c_par, {}, setup=setup_par, overrides={"np": NPP}, fallback=fb, obid="C10.parities_from_measurements.contract", desc=c_par.doc, timeout_ms=60000,
                           extra_stubs=lambda: {"check_parity_of_vector": parvec_stub, "Counter": counter_stub, "Parities": Holder}))
    obs.append(build_distribution_ob(fb))
    return obs


# ---- Measurements.get_distribution -----------------------------------------------------------------------------------------------------------------

def build_distribution_ob(fb):
    from props import C17ctor
    IDX = C17ctor.IDX
    state = {}

    def freq_ok(d, counts, n, k=None):
        """d has exactly the first k keys of counts (all when k is None), each with value count / n"""
        arr, ln = counts.keyseq.node[2], sym.lift(counts.keyseq.length())
        c = sym.cur()
        c.n += 1
        o = z3.Const(f"o!fq{c.n}", Obj)
        kk = ln if k is None else sym.lift(k)
        if isinstance(d, dict):
            if d:
                raise sym.Unsupported("non-empty concrete dictionary")
            dhas, dval = z3.BoolVal(False), z3.RealVal(0)
        else:
            dhas, dval = z3.Select(d.has, o), z3.Select(d.val, o)
        return sym.wrap_expr(z3.ForAll([o], z3.And(dhas == z3.And(z3.Select(counts.has, o), IDX(arr, o) < kk),
                                                   z3.Implies(dhas, dval == z3.ToReal(z3.Select(counts.val, o)) / z3.ToReal(sym.lift(n)))),
                                       patterns=[z3.Select(counts.has, o)] + ([z3.Select(d.has, o)] if not isinstance(d, dict) and z3.is_const(d.has) else [])))

    class Dist:
        def __init__(self, d, normalize=True):
            self.distribution_dict = d

    def setup(args, ns):
        M_ = ns["Measurements"]
        m = M_.__new__(M_)
        m.bitstrings = vtypes.mk("List[Obj:Shot]", "bitstrings")
        counts = vtypes.mk("Dict[Bitstr,Int]", "counts")
        arr, n = counts.keyseq.node[2], sym.lift(counts.keyseq.length())
        o = z3.Const("o!mem", Obj)
        sym.cur().assume(z3.ForAll([o], z3.Implies(z3.Select(counts.has, o), z3.And(0 <= IDX(arr, o), IDX(arr, o) < n, z3.Select(arr, IDX(arr, o)) == o)),
                                   patterns=[z3.Select(counts.has, o)]))
        state["counts"] = counts
        m.get_counts = lambda: counts
        args["self"] = m
    c = vc.Contract(key=M + ":Measurements.get_distribution", params={"self": "Any"}, requires="len(self.bitstrings) >= 1",
                    ensures="FREQ_OK(result.distribution_dict, COUNTS(), len(self.bitstrings))",
                    loops={"for#0": {"invariant": "FREQ_OK(distribution, COUNTS(), len(self.bitstrings), k)", "types": {"distribution": "NewDict[Bitstr,Real]"}}},
                    spec={"FREQ_OK": freq_ok, "COUNTS": lambda: state["counts"]},
                    doc="the distribution object is built from the dictionary that has exactly the keys of the counts, each with value count / number of shots "
                        "(loop invariant; `get_counts` abstract; the constructor's own contract is C17's)")
    return vprop.fn_ob("C10", c, {}, call=lambda ns, a: a["self"].get_distribution(), setup=setup, fallback=fb, obid="C10.get_distribution.contract", desc=c.doc,
                       extra_stubs=lambda: {"MeasurementOutcomeDistribution": Dist}, timeout_ms=30000)


def _zero_cube():
    a, b, c = z3.Ints("a!z b!z c!z")
    return z3.Lambda([a, b, c], z3.RealVal(0))
