"""C08, `add_ancilla_register` under contract (Engine V): for ANY circuit and ANY number a >= 0 of ancilla qubits the result has the circuit's operations,
unchanged and in order, followed by one identity gate on each of the qubits n, n+1, .., n+a-1 (n = the circuit's width), its width is n + a, and the
circuit passed in is not modified.  `circuit + operation` enters through the contract of `_append_operation` (C01.append_operation.all_lengths.contract):
operations followed by the operation, width = max(width, largest qubit + 1)."""
from __future__ import annotations

import z3

from vfw import sym, vcontract as vc, vprop, vtypes
from vfw.sym import Obj, SSeq, SInt, SObj

GEN = "orquestra.quantum.circuits._generators"
I_ = z3.IntSort()
IOP = z3.Function("identity_gate_on", I_, Obj)          # the operation I(q)


class Circ:
    """a circuit value: operations (sequence) and width; `+ operation` by the contract of _append_operation"""

    def __init__(self, ops, n):
        self.operations, self.n_qubits = ops, n

    def __add__(self, op):
        if not (isinstance(op, SObj) and op.cls == "IdOp"):
            raise sym.Unsupported("only identity operations are appended by this function")
        q = op.e.arg(0)
        n = sym.lift(self.n_qubits)
        return Circ(self.operations + [op], sym.wrap_expr(z3.If(q + 1 > n, q + 1, n)))


def judge(case):
    """native reading of the contract on one (circuit index, number of ancillas)"""
    from orquestra.quantum.circuits import Circuit, X, CNOT, RX, I, add_ancilla_register
    ci, a = case
    pool = [Circuit([X(0)]), Circuit([CNOT(0, 2), RX(0.3)(1)]), Circuit([X(1)], n_qubits=4), Circuit(n_qubits=2), Circuit([X(0), X(0), CNOT(1, 0)])]
    c = pool[ci]
    before_ops, before_n = list(c.operations), c.n_qubits
    r = add_ancilla_register(c, a)
    if list(c.operations) != before_ops or c.n_qubits != before_n:
        return False, "the circuit passed in was modified"
    want = before_ops + [I(before_n + j) for j in range(a)]
    if r.n_qubits != before_n + a or list(r.operations) != want:
        return False, f"add_ancilla_register({c}, {a}) = {r} (width {r.n_qubits}), expected width {before_n + a} and operations {want}"
    return True, "ok"


def build(fb=None):
    fb = fb or vprop.enum_ob("x", [], lambda: [(i, a) for i in range(5) for a in range(0, 5)], judge, "").run
    sym.OBJ_SCHEMAS.setdefault("IdOp", {})
    sym.OBJ_SCHEMAS.setdefault("AnyOp", {})
    state = {}

    def setup(args, ns):
        c = sym.cur()
        ops = vtypes.mk("List[Obj:AnyOp]", "circuit.operations")
        n = vtypes.mk("Int", "circuit.n_qubits")
        c.assume(sym.lift(n) >= 1)
        args["circuit"] = Circ(ops, n)
        state["ops0"], state["n0"], state["len0"] = ops, n, ops.length()
        c.inputs["circuit.len"] = ops.length()

    def extended_ok(x, k):
        ops0, n0 = state["ops0"], sym.lift(state["n0"])
        l0 = sym.lift(state["len0"])
        xs = SSeq.of(x.operations)
        c = sym.cur()
        c.n += 1
        j = z3.Int(f"j!an{c.n}")
        kk = sym.lift(k)
        c.nofork += 1
        try:
            xj, oj, xa = sym.lift(xs.get(SInt(j))), sym.lift(ops0.get(SInt(j))), sym.lift(xs.get(SInt(l0 + j)))
        finally:
            c.nofork -= 1
        return sym.wrap_expr(z3.And(sym.lift(x.n_qubits) == n0 + kk, sym.lift(xs.length()) == l0 + kk,
                                    z3.ForAll([j], z3.Implies(z3.And(0 <= j, j < l0), xj == oj)),
                                    z3.ForAll([j], z3.Implies(z3.And(0 <= j, j < kk), xa == IOP(n0 + j)))))

    def mk_circ(name):
        return Circ(vtypes.mk("List[Obj:AnyOp]", name + ".operations"), vtypes.mk("Int", name + ".n_qubits"))
    c = vc.Contract(key=GEN + ":add_ancilla_register", params={"circuit": "Any", "n_ancilla_qubits": "Int"}, requires="n_ancilla_qubits >= 0",
                    ensures="EXTENDED(result, n_ancilla_qubits) and EXTENDED(circuit, 0)", spec={"EXTENDED": extended_ok},
                    loops={"for#0": {"invariant": "EXTENDED(extended_circuit, k) and EXTENDED(circuit, 0)", "types": {"extended_circuit": mk_circ}}},
                    doc="the circuit's operations unchanged and in order, then one identity gate on each new qubit n .. n+a-1; width n + a; the argument is not modified")
    return [vprop.fn_ob("C08", c, {}, setup=setup, fallback=fb, obid="C08.add_ancilla_register.all_sizes.contract", desc=c.doc, timeout_ms=30000,
                        extra_stubs=lambda: {"I": lambda q: SObj("IdOp", IOP(sym.lift(q)))})]
