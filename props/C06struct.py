"""C06, binding on every gate kind under contract (Engine V, the real text of `_gates.py` on abstract parameters / wrapped gates), for ALL
parameter tuples, ALL wrapped gates, ALL symbol maps:

  * `MatrixFactoryGate.bind(m)`: a gate of the same class with the same name / matrix factory / width / hermitian flag whose parameter tuple is
    `sub_symbols(p, m)` for every parameter p, in order, same length (any number of parameters);
  * `MatrixFactoryGate.replace_params(t)`: same, with the parameter tuple t itself;
  * `ControlledGate.bind(m)` = `wrapped.bind(m).controlled(n)` with the SAME number of controls n; `Dagger.bind(m)` = `wrapped.bind(m).dagger`;
    likewise their `replace_params`;
  * `GateOperation.bind(m)`: the bound gate on the SAME qubit tuple; `GateOperation.free_symbols` = the gate's;
  * `Power.bind` and `Exponential.bind` raise NotImplementedError for every map (never a silently wrong gate);
  * `MatrixFactoryGate.free_symbols` / `Power.free_symbols` = `get_free_symbols(params)` of the gate's own parameter tuple.
`sub_symbols`, `get_free_symbols`, and the methods of the wrapped gate (`bind`, `controlled`, `dagger`, `replace_params`) are uninterpreted here: each call
site sees a function of its arguments only; their own behaviour (sympy substitution, set ordering) is the bounded part of C06.
"""
from __future__ import annotations

import z3

from vfw import core, sym, vcontract as vc, vprop, vrt, vtypes
from vfw.sym import Obj, SSeq, SInt, SObj

G = "orquestra.quantum.circuits._gates"
I = z3.IntSort()
SUB = z3.Function("sub_symbols", Obj, Obj, Obj)                # (parameter, map) -> parameter
FREE = z3.Function("get_free_symbols", Obj, Obj)               # parameter tuple (as an object) -> symbols
GBIND = z3.Function("gate.bind", Obj, Obj, Obj)
GREPL = z3.Function("gate.replace_params", Obj, Obj, Obj)
GCTRL = z3.Function("gate.controlled", Obj, I, Obj)
GDAG = z3.Function("gate.dagger", Obj, Obj)
GFREE = z3.Function("gate.free_symbols", Obj, Obj)
GPARAMS = z3.Function("gate.params", Obj, Obj)


def _schemas():
    sym.OBJ_SCHEMAS["Param"] = {}
    sym.OBJ_SCHEMAS["Map"] = {}
    sym.OBJ_SCHEMAS["Syms"] = {}
    sym.OBJ_SCHEMAS["Factory"] = {}
    sym.OBJ_SCHEMAS["ParamTuple"] = {}
    sym.OBJ_SCHEMAS["AGate"] = {
        "bind": lambda self: (lambda m: SObj("AGate", GBIND(self.e, sym.lift(m)))),
        "replace_params": lambda self: (lambda t: SObj("AGate", GREPL(self.e, _tuple_obj(t)))),
        "controlled": lambda self: (lambda n: SObj("AGate", GCTRL(self.e, sym.lift(n)))),
        "dagger": lambda self: SObj("AGate", GDAG(self.e)),
        "free_symbols": lambda self: SObj("Syms", GFREE(self.e)),
        "params": lambda self: SObj("ParamTuple", GPARAMS(self.e)),
    }


def _tuple_obj(t):
    if isinstance(t, SObj):
        return t.e
    raise sym.Unsupported("parameter tuple handed to an abstract gate is not opaque")


def _real_instance(ns, cls, **fields):
    C = ns[cls]
    o = C.__new__(C)
    for k, v in fields.items():
        object.__setattr__(o, k, v)
    return o


def build(fb=None):
    obs = []
    state = {}

    # ---- MatrixFactoryGate.bind / replace_params ---------------------------------------------------------------------------------------------------
    def setup_mfg(args, ns):
        _schemas()
        c = sym.cur()
        g = _real_instance(ns, "MatrixFactoryGate", name="G", matrix_factory=SObj("Factory", c.fresh("factory", Obj)), params=vtypes.mk("Tup[Obj:Param]", "params"),
                           num_qubits=SInt(c.fresh("num_qubits", I)), is_hermitian=sym.wrap_expr(c.fresh("is_hermitian", z3.BoolSort())))
        args["self"] = g
        state["g"] = g
        c.inputs["n_params"] = g.params.length()

    def same_gate_but_params(r, g):
        """same class and EQUAL name / matrix factory / width / hermitian flag (equality, not object identity: a rebuilt but equal attribute is the same gate)"""
        if type(r) is not type(g) or r.name != g.name:
            return False
        return vrt.And(r.matrix_factory == g.matrix_factory, r.num_qubits == g.num_qubits, r.is_hermitian == g.is_hermitian)

    c_bind = vc.Contract(key=G + ":MatrixFactoryGate.bind", params={"self": "Any", "symbols_map": "Obj:Map"},
                         ensures="SAME_BUT_PARAMS(result, self) and len(result.params) == len(self.params) and "
                                 "all(result.params[i] == SUBS(self.params[i], symbols_map) for i in range(len(self.params)))",
                         spec={"SAME_BUT_PARAMS": same_gate_but_params, "SUBS": lambda p, m: SObj("Param", SUB(sym.lift(p), sym.lift(m)))},
                         doc="same class, name, matrix factory, width and hermitian flag; parameter i is sub_symbols(parameter i, map), same length - any number of parameters")
    obs.append(vprop.fn_ob("C06", c_bind, {}, call=lambda ns, a: a["self"].bind(a["symbols_map"]), setup=setup_mfg, fallback=fb, obid="C06.MatrixFactoryGate.bind.contract", desc=c_bind.doc,
                           extra_stubs=lambda: {"sub_symbols": lambda p, m: SObj("Param", SUB(sym.lift(p), sym.lift(m)))}))
    c_repl = vc.Contract(key=G + ":MatrixFactoryGate.replace_params", params={"self": "Any", "new_params": "Tup[Obj:Param]"},
                         ensures="SAME_BUT_PARAMS(result, self) and len(result.params) == len(new_params) and all(result.params[i] == new_params[i] for i in range(len(new_params)))", spec={"SAME_BUT_PARAMS": same_gate_but_params},
                         doc="same gate with the given parameter tuple")
    obs.append(vprop.fn_ob("C06", c_repl, {}, call=lambda ns, a: a["self"].replace_params(a["new_params"]), setup=setup_mfg, fallback=fb, obid="C06.MatrixFactoryGate.replace_params.contract",
                           desc=c_repl.doc))

    def free_of(params):
        arr, _ = sym.node_to_array(SSeq.of(params).node)
        return SObj("Syms", FREE(_seq_obj(params)))

    def _seq_obj(s):
        s = SSeq.of(s)
        if s.node[0] == "arr" and z3.is_app(s.node[2]) and s.node[2].num_args() == 1:
            return s.node[2].arg(0)
        if s.node[0] == "arr":
            return z3.Const("tuple_of_" + str(s.node[2]), Obj)
        raise sym.Unsupported("free symbols of a computed tuple")
    c_free = vc.Contract(key=G + ":MatrixFactoryGate.free_symbols", params={"self": "Any"}, ensures="result == FREE_OF(self.params)", spec={"FREE_OF": free_of},
                         doc="the free symbols of a factory gate are get_free_symbols of its own parameter tuple")
    obs.append(vprop.fn_ob("C06", c_free, {}, call=lambda ns, a: a["self"].free_symbols, setup=setup_mfg, fallback=fb, obid="C06.MatrixFactoryGate.free_symbols.contract", desc=c_free.doc,
                           extra_stubs=lambda: {"get_free_symbols": free_of}))

    # ---- wrappers --------------------------------------------------------------------------------------------------------------------------------------
    def setup_wrapper(cls, **extra):
        def setup(args, ns):
            _schemas()
            c = sym.cur()
            fields = {"wrapped_gate": SObj("AGate", c.fresh("wrapped", Obj))}
            for k, t in extra.items():
                fields[k] = vtypes.mk(t, k)
            args["self"] = _real_instance(ns, cls, **fields)
        return setup
    AG = lambda e: SObj("AGate", e)
    specs = {"BIND": lambda g, m: AG(GBIND(sym.lift(g), sym.lift(m))), "CTRL": lambda g, n: AG(GCTRL(sym.lift(g), sym.lift(n))), "DAG": lambda g: AG(GDAG(sym.lift(g))),
             "REPL": lambda g, t: AG(GREPL(sym.lift(g), sym.lift(t)))}
    for cls, meth, params, ens, setup, doc in [
        ("ControlledGate", "bind", {"self": "Any", "symbols_map": "Obj:Map"}, "result == CTRL(BIND(self.wrapped_gate, symbols_map), self.num_control_qubits)",
         setup_wrapper("ControlledGate", num_control_qubits="Int"), "the bound wrapped gate under the SAME number of controls"),
        ("ControlledGate", "replace_params", {"self": "Any", "new_params": "Obj:ParamTuple"}, "result == CTRL(REPL(self.wrapped_gate, new_params), self.num_control_qubits)",
         setup_wrapper("ControlledGate", num_control_qubits="Int"), "the re-parametrised wrapped gate under the SAME number of controls"),
        ("Dagger", "bind", {"self": "Any", "symbols_map": "Obj:Map"}, "result == DAG(BIND(self.wrapped_gate, symbols_map))", setup_wrapper("Dagger"), "the dagger of the bound wrapped gate"),
        ("Dagger", "replace_params", {"self": "Any", "new_params": "Obj:ParamTuple"}, "result == DAG(REPL(self.wrapped_gate, new_params))", setup_wrapper("Dagger"),
         "the dagger of the re-parametrised wrapped gate"),
    ]:
        c = vc.Contract(key=f"{G}:{cls}.{meth}", params=params, ensures=ens, spec=specs, doc=f"{cls}.{meth}: {doc}")
        arg = [p for p in params if p != "self"][0]
        obs.append(vprop.fn_ob("C06", c, {}, call=(lambda ns, a, meth=meth, arg=arg: getattr(a["self"], meth)(a[arg])), setup=setup, fallback=fb, obid=f"C06.{cls}.{meth}.contract", desc=c.doc))
    for cls, extra in (("Power", {"exponent": "Real"}), ("Exponential", {})):
        c = vc.Contract(key=f"{G}:{cls}.bind", params={"self": "Any", "symbols_map": "Obj:Map"}, raises={"NotImplementedError": "True"}, ensures="False", never_returns=True,
                        doc=f"{cls}.bind refuses with NotImplementedError for every map - never returns a gate")
        obs.append(vprop.fn_ob("C06", c, {}, call=lambda ns, a: a["self"].bind(a["symbols_map"]), setup=setup_wrapper(cls, **extra), fallback=fb, obid=f"C06.{cls}.bind.refuses.contract", desc=c.doc))

    # ---- GateOperation ---------------------------------------------------------------------------------------------------------------------------------
    def setup_op(args, ns):
        _schemas()
        c = sym.cur()
        args["self"] = _real_instance(ns, "GateOperation", gate=SObj("AGate", c.fresh("gate", Obj)), qubit_indices=vtypes.mk("Tup[Int]", "qubit_indices"))
    c = vc.Contract(key=G + ":GateOperation.bind", params={"self": "Any", "symbols_map": "Obj:Map"},
                    ensures="type(result) is type(self) and result.gate == BIND(self.gate, symbols_map) and len(result.qubit_indices) == len(self.qubit_indices) and "
                            "all(result.qubit_indices[i] == self.qubit_indices[i] for i in range(len(self.qubit_indices)))", spec=specs,
                    doc="GateOperation.bind: the bound gate on the SAME qubit tuple")
    obs.append(vprop.fn_ob("C06", c, {}, call=lambda ns, a: a["self"].bind(a["symbols_map"]), setup=setup_op, fallback=fb, obid="C06.GateOperation.bind.contract", desc=c.doc))
    c = vc.Contract(key=G + ":GateOperation.free_symbols", params={"self": "Any"}, ensures="result == self.gate.free_symbols", doc="an operation's free symbols are its gate's")
    obs.append(vprop.fn_ob("C06", c, {}, call=lambda ns, a: a["self"].free_symbols, setup=setup_op, fallback=fb, obid="C06.GateOperation.free_symbols.contract", desc=c.doc))
    return obs
