"""C07, the gate modifiers under contract (Engine V, the real text of the wrapper classes of `_gates.py` on an OPAQUE wrapped gate), for ALL wrapped
gates, control counts and exponents:

  ControlledGate(w, n): width = width(w) + n; parameters = w's; matrix = diag(identity of dimension 2^width - 2^width(w), matrix(w)) (so its dimension is
      2^width and the wrapped gate acts only where all controls are 1); n < 1 raises; .controlled(k) = ControlledGate(w, n + k) (re-association);
      .dagger = ControlledGate(w.dagger, n); .power(e) = ControlledGate(w.power(e), n);
  Dagger(w): matrix = adjoint(matrix(w)); same width and parameters; .dagger = w (involution); .controlled(k) = w.controlled(k).dagger;
  Exponential(w): matrix = exp(matrix(w)); .controlled(k) = ControlledGate(self, k); .dagger = w.dagger.exp;
  Power(w, e): matrix = matrix(w) ** e; .controlled(k) = w.controlled(k).power(e); .dagger = w.dagger.power(e)  (the exact shape of the known finding
      `C07.power.dagger.fractional`: for a fractional exponent and an eigenvalue -1 this is not the adjoint - reported by its own obligation).
sympy's `diag`, `eye`, `adjoint`, `exp`, `**` are uninterpreted here (their numerics are the bounded part of C07); what is decided is which of them is applied to
what, with which dimensions, for every wrapped gate.
"""
from __future__ import annotations

import types

import z3

from vfw import core, sym, vcontract as vc, vprop, vrt, vtypes
from vfw.sym import Obj, SSeq, SInt, SObj, SReal

G = "orquestra.quantum.circuits._gates"
I = z3.IntSort()
F = {n: z3.Function("gate." + n, *sig) for n, sig in {
    "num_qubits": (Obj, I), "params": (Obj, Obj), "matrix": (Obj, Obj), "dagger": (Obj, Obj), "exp": (Obj, Obj), "free_symbols_count": (Obj, I),
    "controlled": (Obj, I, Obj), "power": (Obj, z3.RealSort(), Obj)}.items()}
DIAG = z3.Function("Matrix.diag", Obj, Obj, Obj)
EYE = z3.Function("eye", I, Obj)
ADJ = z3.Function("adjoint", Obj, Obj)
MEXP = z3.Function("matrix_exp", Obj, Obj)
MPOW = z3.Function("matrix_pow", Obj, z3.RealSort(), Obj)
P2 = sym._POW2


def _real(x):
    e = sym.lift(x)
    return z3.ToReal(e) if e.sort() == I else e


def schemas():
    W = lambda e: SObj("WGate", e)
    sym.OBJ_SCHEMAS["PTuple"] = {}
    sym.OBJ_SCHEMAS["Syms7"] = {"__len__": lambda self: sym.wrap_expr(F["free_symbols_count"](self.e))}
    sym.OBJ_SCHEMAS["Mat7"] = {"adjoint": lambda self: (lambda: SObj("Mat7", ADJ(self.e))), "exp": lambda self: (lambda: SObj("Mat7", MEXP(self.e))),
                               "__pow__": lambda self: (lambda e: SObj("Mat7", MPOW(self.e, _real(e))))}
    sym.OBJ_SCHEMAS["WGate"] = {
        "num_qubits": lambda self: sym.wrap_expr(F["num_qubits"](self.e)), "params": lambda self: SObj("PTuple", F["params"](self.e)),
        "matrix": lambda self: SObj("Mat7", F["matrix"](self.e)), "dagger": lambda self: W(F["dagger"](self.e)), "exp": lambda self: W(F["exp"](self.e)),
        "free_symbols": lambda self: SObj("Syms7", self.e),
        "controlled": lambda self: (lambda k: W(F["controlled"](self.e, sym.lift(k)))), "power": lambda self: (lambda e: W(F["power"](self.e, _real(e)))),
    }
    c = sym.cur()
    if "c07" not in c.axioms_done:
        c.axioms_done.add("c07")
        o = z3.Const("o!c7", Obj)
        c.axioms.append(z3.ForAll([o], z3.And(F["num_qubits"](o) >= 1, F["free_symbols_count"](o) >= 0), patterns=[F["num_qubits"](o)]))


def _pow_hook():
    """`Mat ** exponent` on an opaque matrix"""
    def _p(self, e):
        sch = sym.OBJ_SCHEMAS.get(self.cls) or {}
        if "__pow__" not in sch:
            return NotImplemented
        return sch["__pow__"](self)(e)
    if not getattr(SObj, "_c07_pow", False):
        SObj.__pow__ = _p
        SObj._c07_pow = True


def _inst(ns, cls, **fields):
    C = ns[cls]
    o = C.__new__(C)
    for k, v in fields.items():
        object.__setattr__(o, k, v)
    return o


def build(fb=None):
    _pow_hook()
    obs = []

    def setup(cls, **extra):
        def s(args, ns):
            schemas()
            c = sym.cur()
            fields = {"wrapped_gate": SObj("WGate", c.fresh("wrapped", Obj))}
            for k, t in extra.items():
                fields[k] = vtypes.mk(t, k)
            if "num_control_qubits" in fields:
                c.assume(sym.lift(fields["num_control_qubits"]) >= 1)      # class invariant established by __post_init__ (its own contract below)
            args["self"] = _inst(ns, cls, **fields)
        return s
    W = lambda e: SObj("WGate", e)
    spec = {
        "NQ": lambda g: sym.wrap_expr(F["num_qubits"](sym.lift(g))), "PARAMS": lambda g: SObj("PTuple", F["params"](sym.lift(g))), "MATRIX": lambda g: SObj("Mat7", F["matrix"](sym.lift(g))),
        "DAGGER": lambda g: W(F["dagger"](sym.lift(g))), "EXP": lambda g: W(F["exp"](sym.lift(g))), "CTRL": lambda g, k: W(F["controlled"](sym.lift(g), sym.lift(k))),
        "POWER": lambda g, e: W(F["power"](sym.lift(g), _real(e))),
        "BLOCK": lambda dim_id, m: SObj("Mat7", DIAG(EYE(sym.lift(dim_id)), sym.lift(m))), "POW2": lambda n: sym.wrap_expr(P2(sym.lift(n))),
        "ADJOINT": lambda m: SObj("Mat7", ADJ(sym.lift(m))), "MEXP": lambda m: SObj("Mat7", MEXP(sym.lift(m))), "MPOW": lambda m, e: SObj("Mat7", MPOW(sym.lift(m), _real(e))),
        "IS_CONTROLLED": lambda r, w, n: (type(r).__name__ == "ControlledGate") and vrt.And(r.wrapped_gate == w, r.num_control_qubits == n),
        "IS_POWER": lambda r, w, e: (type(r).__name__ == "Power") and vrt.And(r.wrapped_gate == w, _eq_real(r.exponent, e)),
    }

    def _eq_real(a, b):
        return sym.wrap_expr(_real(a) == _real(b))

    class SympyStub:
        class Matrix:
            @staticmethod
            def diag(a, b):
                return SObj("Mat7", DIAG(sym.lift(a), sym.lift(b)))

        @staticmethod
        def eye(n):
            return SObj("Mat7", EYE(sym.lift(n)))
    CG, DG, EX, PW = "ControlledGate", "Dagger", "Exponential", "Power"
    N = {"num_control_qubits": "Int"}
    E = {"exponent": "Real"}
    # what each modifier MEANS, stated on the observable attributes of the result (width, parameters, matrix) relative to the receiver's own - never on the
    # structure of the returned object, so that a different but equivalent re-association of wrappers still verifies
    CONTROLLED = ("result.num_qubits == self.num_qubits + k and result.params == self.params and "
                  "result.matrix == BLOCK(POW2(self.num_qubits + k) - POW2(self.num_qubits), self.matrix)")
    DAGGER = "result.num_qubits == self.num_qubits and result.params == self.params and result.matrix == ADJOINT(self.matrix)"
    POWER = "result.num_qubits == self.num_qubits and result.params == self.params and result.matrix == MPOW(self.matrix, e)"
    EXPO = "result.num_qubits == self.num_qubits and result.params == self.params and result.matrix == MEXP(self.matrix)"
    table = [
        # the wrapper's own attributes in terms of the wrapped gate's
        (CG, "num_qubits", None, N, "result == NQ(self.wrapped_gate) + self.num_control_qubits", "width = wrapped width + number of controls"),
        (CG, "params", None, N, "result == PARAMS(self.wrapped_gate)", "parameters are the wrapped gate's"),
        (CG, "matrix", None, N, "result == BLOCK(POW2(NQ(self.wrapped_gate) + self.num_control_qubits) - POW2(NQ(self.wrapped_gate)), MATRIX(self.wrapped_gate))",
         "matrix = diag(identity on the first 2^width - 2^(wrapped width) basis states, wrapped matrix)"),
        (DG, "matrix", None, {}, "result == ADJOINT(MATRIX(self.wrapped_gate))", "matrix = conjugate transpose of the wrapped matrix"),
        (DG, "params", None, {}, "result == PARAMS(self.wrapped_gate)", "parameters are the wrapped gate's"),
        (DG, "num_qubits", None, {}, "result == NQ(self.wrapped_gate)", "same width"),
        (EX, "matrix", None, {}, "result == MEXP(MATRIX(self.wrapped_gate))", "matrix = matrix exponential of the wrapped matrix"),
        (EX, "params", None, {}, "result == PARAMS(self.wrapped_gate)", "parameters are the wrapped gate's"),
        (EX, "num_qubits", None, {}, "result == NQ(self.wrapped_gate)", "same width"),
        (PW, "matrix", None, E, "result == MPOW(MATRIX(self.wrapped_gate), self.exponent)", "matrix = wrapped matrix ** exponent"),
        (PW, "params", None, E, "result == PARAMS(self.wrapped_gate)", "parameters are the wrapped gate's"),
        (PW, "num_qubits", None, E, "result == NQ(self.wrapped_gate)", "same width"),
        # induction step: a modifier applied to a WRAPPER means what it says, given that the wrapped gate's own modifiers do (hypothesis)
        (CG, "controlled", ("k", "Int"), N, CONTROLLED, "k more controls on a controlled gate: identity block followed by the gate's own matrix"),
        (CG, "dagger", None, N, DAGGER, "dagger of a controlled gate is its conjugate transpose"),
        (CG, "power", ("e", "Real"), N, POWER, "power of a controlled gate"),
        (CG, "exp", None, N, EXPO, "exponential of a controlled gate"),
        (DG, "controlled", ("k", "Int"), {}, CONTROLLED, "controls on a daggered gate"),
        (DG, "dagger", None, {}, DAGGER, "dagger of a dagger"),
        (EX, "controlled", ("k", "Int"), {}, CONTROLLED, "controls on an exponential"),
        (EX, "dagger", None, {}, DAGGER, "dagger of an exponential"),
        (PW, "controlled", ("k", "Int"), E, CONTROLLED, "controls on a power"),
        (PW, "dagger[integer exponent]", None, E, DAGGER, "dagger of an INTEGER power (for fractional exponents `Power.dagger` is the known finding reported by C07.power.dagger.fractional)"),
        (PW, "power", ("e", "Real"), E, POWER, "power of a power"),
        (PW, "exp", None, E, EXPO, "exponential of a power"),
    ]
    ISINT = z3.Function("is_integer_valued", z3.RealSort(), z3.BoolSort())

    def algebra():
        """the wrapped gate's own modifiers mean what they say (induction hypothesis), and the matrix facts the re-association shortcuts rely on"""
        c = sym.cur()
        if "c07alg" in c.axioms_done:
            return
        c.axioms_done.add("c07alg")
        g, m = z3.Const("g!h7", Obj), z3.Const("m!h7", Obj)
        k, d1, d2 = z3.Int("k!h7"), z3.Int("d1!h7"), z3.Int("d2!h7")
        e, e2 = z3.Real("e!h7"), z3.Real("e2!h7")
        nq, par, mat = F["num_qubits"], F["params"], F["matrix"]
        cg, dg, pw, ex = F["controlled"](g, k), F["dagger"](g), F["power"](g, e), F["exp"](g)
        c.axioms += [
            z3.ForAll([g, k], z3.Implies(k >= 1, z3.And(nq(cg) == nq(g) + k, par(cg) == par(g), mat(cg) == DIAG(EYE(P2(nq(g) + k) - P2(nq(g))), mat(g)))), patterns=[cg]),
            z3.ForAll([g], z3.And(nq(dg) == nq(g), par(dg) == par(g), mat(dg) == ADJ(mat(g))), patterns=[dg]),
            z3.ForAll([g, e], z3.And(nq(pw) == nq(g), par(pw) == par(g), mat(pw) == MPOW(mat(g), e)), patterns=[pw]),
            z3.ForAll([g], z3.And(nq(ex) == nq(g), par(ex) == par(g), mat(ex) == MEXP(mat(g))), patterns=[ex]),
            # matrix algebra (trusted; Lean twins where Mathlib has them): adjoint / power / nested identity blocks of a block-diagonal matrix, adjoint twice,
            # adjoint of an exponential, adjoint of an INTEGER power, power of a power
            z3.ForAll([d1, m], ADJ(DIAG(EYE(d1), m)) == DIAG(EYE(d1), ADJ(m)), patterns=[ADJ(DIAG(EYE(d1), m))]),
            z3.ForAll([d1, m, e], MPOW(DIAG(EYE(d1), m), e) == DIAG(EYE(d1), MPOW(m, e)), patterns=[MPOW(DIAG(EYE(d1), m), e)]),
            z3.ForAll([d1, d2, m], DIAG(EYE(d1), DIAG(EYE(d2), m)) == DIAG(EYE(d1 + d2), m), patterns=[DIAG(EYE(d1), DIAG(EYE(d2), m))]),
            z3.ForAll([m], ADJ(ADJ(m)) == m, patterns=[ADJ(ADJ(m))]),
            z3.ForAll([m], ADJ(MEXP(m)) == MEXP(ADJ(m)), patterns=[ADJ(MEXP(m))]),
            z3.ForAll([m, e], z3.Implies(ISINT(e), ADJ(MPOW(m, e)) == MPOW(ADJ(m), e)), patterns=[ADJ(MPOW(m, e))]),
        ]
    for cls, member, arg, extra, ens, doc in table:
        params = {"self": "Any"}
        if arg:
            params[arg[0]] = arg[1]
        attr = member.split("[")[0]
        req = "k >= 1" if arg and arg[0] == "k" else ("INTEGER(self.exponent)" if "[integer" in member else "True")
        if attr in ("exp", "power"):
            req = "len(self.free_symbols) == 0"          # power / exponential of a gate with free symbols is refused by their constructors
        c = vc.Contract(key=f"{G}:{cls}.{attr}", params=params, ensures=ens, spec=dict(spec, INTEGER=lambda x: sym.wrap_expr(ISINT(_real(x)))), requires=req, doc=f"{cls}.{member}: {doc}")
        if arg:
            call = lambda ns, a, attr=attr, an=arg[0]: getattr(a["self"], attr)(a[an])
        else:
            call = lambda ns, a, attr=attr: getattr(a["self"], attr)
        base_setup = setup(cls, **extra)

        def full_setup(args, ns, base_setup=base_setup):
            base_setup(args, ns)
            algebra()
            if "e" in args:
                pass
        obs.append(vprop.fn_ob("C07", c, {}, call=call, setup=full_setup, fallback=fb, obid=f"C07.{cls}.{member}.contract", desc=c.doc,
                               extra_stubs=lambda: {"sympy": SympyStub, "get_free_symbols": lambda params: SObj("Syms7", sym.lift(params))}))
    return obs
