"""C11, `ExpectationValues.to_dict` / `from_dict` under contract (Engine V), for ANY number of correlation / covariance frames, every combination of
absent (None) and present (also EMPTY) frame lists:

  to_dict:   "expectation_values" -> A2D(values); "correlations" present iff `correlations is not None`, then a list of the same length whose i-th entry is
             A2D(correlations[i]); likewise "estimator_covariances"  (two loop invariants);
  from_dict: values = D2A(dictionary["expectation_values"]); correlations None iff the key is missing / None, else the list of D2A(entry) of the same length
             (in particular [] stays [], the defect repaired by fix 1267ba5 cannot come back unnoticed); likewise covariances (two loop invariants).
A2D = convert_array_to_dict and D2A = convert_dict_to_array are uninterpreted; with D2A(A2D(x)) = x (numpy tolist round trip: bounded, `C11.artefacts.enum`)
the two contracts compose to: from_dict(to_dict(ev)) has the same values, the same None / list structure and the same frames, frame by frame.
"""
from __future__ import annotations

import z3

from vfw import core, sym, vcontract as vc, vprop, vrt, vtypes
from vfw.sym import Obj, SSeq, SInt, SObj

EV = "orquestra.quantum.measurements.expectation_values"
A2D = z3.Function("convert_array_to_dict", Obj, Obj)
D2A = z3.Function("convert_dict_to_array", Obj, Obj)


def _frames_ok(lst, src, conv, k=None):
    """lst has the first k (all) entries of src converted one by one, in order"""
    if lst is None or src is None or isinstance(lst, dict):
        return False            # a missing / None list where a frame list is required: the clause is false (not an engine error)
    l, s = SSeq.of(lst), SSeq.of(src)
    c = sym.cur()
    c.n += 1
    i = z3.Int(f"i!fr{c.n}")
    n = sym.lift(s.length()) if k is None else sym.lift(k)
    c.nofork += 1
    try:
        li, si = sym.lift(l.get(SInt(i))), sym.lift(s.get(SInt(i)))
    finally:
        c.nofork -= 1
    return sym.wrap_expr(z3.And(sym.lift(l.length()) == n, z3.ForAll([i], z3.Implies(z3.And(0 <= i, i < n), li == conv(si)))))


def judge_ev(case):
    """native reading of both contracts on one shape: case = (number of correlation frames or None, number of covariance frames or None)"""
    import numpy as np
    from orquestra.quantum.measurements import ExpectationValues
    nc, nv = case
    mk = lambda n, off: None if n is None else [np.arange(4.0).reshape(2, 2) + off + 10 * i for i in range(n)]
    ev = ExpectationValues(np.array([1.0, -0.5]), mk(nc, 0), mk(nv, 100))
    d = ev.to_dict()
    for key, n in (("correlations", nc), ("estimator_covariances", nv)):
        if (n is None) != (key not in d):
            return False, f"to_dict of an object with {key} = {None if n is None else 'a list of ' + str(n)}: key {'present' if key in d else 'missing'}"
        if n is not None and len(d[key]) != n:
            return False, f"to_dict: {len(d[key])} {key} frames for {n}"
    back = ExpectationValues.from_dict(d)
    for attr, n, off in (("correlations", nc, 0), ("estimator_covariances", nv, 100)):
        got = getattr(back, attr)
        if (n is None) != (got is None):
            return False, f"from_dict(to_dict(.)).{attr} is {got!r} for an object with {None if n is None else 'a list of ' + str(n) + ' frames'}"
        if n is not None and (len(got) != n or any(not np.array_equal(g, w) for g, w in zip(got, mk(n, off)))):
            return False, f"{attr} changed in the round trip"
    if not np.array_equal(back.values, ev.values):
        return False, "values changed"
    return True, "ok"


def _replay(model):
    def cnt(*names):
        for n in names:
            if n in model:
                v = model[n]
                return min(int(v), 3) if isinstance(v, int) and v >= 0 else 0
        return None
    case = (cnt("n_correlation_frames", "n_correlations"), cnt("n_covariance_frames", "n_estimator_covariances"))
    return f"from props.C11ev import judge_ev\nOK, OBSERVED = judge_ev({case!r})\nOK = bool(OK)"


def build(fb=None):
    obs = []
    fb = fb or vprop.enum_ob("x", [], lambda: [(a, b) for a in (None, 0, 1, 2) for b in (None, 0, 1, 3)], judge_ev, "").run
    sym.OBJ_SCHEMAS.setdefault("Arr", {})
    sym.OBJ_SCHEMAS.setdefault("ADict", {})

    # ---- to_dict ------------------------------------------------------------------------------------------------------------------------------------------
    for has_c in (False, True):
        for has_v in (False, True):
            def setup(args, ns, has_c=has_c, has_v=has_v):
                C = ns["ExpectationValues"]
                o = C.__new__(C)
                o.values = SObj("Arr", sym.cur().fresh("values", Obj))
                o.correlations = vtypes.mk("List[Obj:Arr]", "correlations") if has_c else None
                o.estimator_covariances = vtypes.mk("List[Obj:Arr]", "estimator_covariances") if has_v else None
                args["self"] = o
                if has_c:
                    sym.cur().inputs["n_correlation_frames"] = o.correlations.length()
                if has_v:
                    sym.cur().inputs["n_covariance_frames"] = o.estimator_covariances.length()

            def mk_data(key):
                def mk(name, key=key):
                    d = {"frames": [], "expectation_values": None}
                    d[key] = vtypes.mk("List[Obj:ADict]", name + "." + key)
                    return d
                return mk
            ens = ["result['expectation_values'] == A2D_(self.values)", "result['frames'] == []",
                   ("FRAMES(result.get('correlations'), self.correlations)" if has_c else "'correlations' not in result"),
                   ("FRAMES(result.get('estimator_covariances'), self.estimator_covariances)" if has_v else "'estimator_covariances' not in result")]
            loops = {}
            idx = 0
            if has_c:
                loops[f"for#{idx}"] = {"invariant": "data['expectation_values'] == A2D_(self.values) and data['frames'] == [] and FRAMES(data.get('correlations'), self.correlations, k)",
                                       "types": {"data": lambda name: _havoc_data(name, ["correlations"])}}
                idx += 1
            if has_v:
                pre = "FRAMES(data.get('correlations'), self.correlations) and " if has_c else "'correlations' not in data and "
                loops[f"for#{idx}"] = {"invariant": "data['expectation_values'] == A2D_(self.values) and data['frames'] == [] and " + pre +
                                                    "FRAMES(data.get('estimator_covariances'), self.estimator_covariances, k)",
                                       "types": {"data": lambda name, hc=has_c: _havoc_data(name, (["correlations"] if hc else []) + ["estimator_covariances"])}}
            state = {}

            def _havoc_data(name, keys):
                d = {"frames": [], "expectation_values": SObj("ADict", sym.cur().fresh(name + ".ev", Obj))}
                for k in keys:
                    d[k] = vtypes.mk("List[Obj:ADict]", name + "." + k)
                return d
            c = vc.Contract(key=EV + ":ExpectationValues.to_dict", params={"self": "Any"}, ensures=" and ".join(ens), loops=loops,
                            spec={"FRAMES": lambda l, s, k=None: _frames_ok(l, s, A2D, k), "A2D_": lambda x: SObj("ADict", A2D(sym.lift(x)))},
                            doc="values converted; each frame list is absent iff the attribute is None, otherwise the frame-by-frame conversion of the same length (also length 0)")
            # the loops present in the text are both `for` loops; which ordinal carries which invariant depends on which attributes are not None: the loop that
            # is skipped (attribute None) is never entered, but its cut still needs a (trivial) contract
            all_loops = {}
            if has_c and has_v:
                all_loops = loops
            elif has_c:
                all_loops = {"for#0": loops["for#0"], "for#1": {"invariant": "True"}}
            elif has_v:
                all_loops = {"for#0": {"invariant": "True"}, "for#1": loops["for#0"]}
            else:
                all_loops = {"for#0": {"invariant": "True"}, "for#1": {"invariant": "True"}}
            c.loops = all_loops
            tag = f"{'corr' if has_c else 'none'},{'cov' if has_v else 'none'}"
            obs.append(vprop.fn_ob("C11", c, {}, call=lambda ns, a: a["self"].to_dict(), setup=setup, fallback=fb, obid=f"C11.ExpectationValues.to_dict[{tag}].contract", desc=c.doc, replay_code=_replay, expected=c.doc,
                                   extra_stubs=lambda: {"convert_array_to_dict": lambda x: SObj("ADict", A2D(sym.lift(x)))}, timeout_ms=30000))

    # ---- from_dict ----------------------------------------------------------------------------------------------------------------------------------------
    for kind_c in ("missing", "none", "list"):
        for kind_v in ("missing", "none", "list"):
            def setup(args, ns, kind_c=kind_c, kind_v=kind_v):
                d = {"expectation_values": SObj("ADict", sym.cur().fresh("ev_dict", Obj))}
                for key, kind in (("correlations", kind_c), ("estimator_covariances", kind_v)):
                    if kind == "none":
                        d[key] = None
                    elif kind == "list":
                        d[key] = vtypes.mk("List[Obj:ADict]", key)
                        sym.cur().inputs["n_" + key] = d[key].length()
                args["dictionary"] = d

            class Holder:
                def __init__(self, values, correlations=None, estimator_covariances=None):
                    self.values, self.correlations, self.estimator_covariances = values, correlations, estimator_covariances
            ens = ["result.values == D2A_(dictionary['expectation_values'])",
                   ("FRAMES(result.correlations, dictionary['correlations'])" if kind_c == "list" else "result.correlations is None"),
                   ("FRAMES(result.estimator_covariances, dictionary['estimator_covariances'])" if kind_v == "list" else "result.estimator_covariances is None")]
            loops = {"for#0": {"invariant": "FRAMES(correlations, dictionary['correlations'], k)" if kind_c == "list" else "True", "types": {"correlations": "List[Obj:Arr]"}},
                     "for#1": {"invariant": "FRAMES(estimator_covariances, dictionary['estimator_covariances'], k)" if kind_v == "list" else "True", "types": {"estimator_covariances": "List[Obj:Arr]"}}}
            c = vc.Contract(key=EV + ":ExpectationValues.from_dict", params={"dictionary": "Any"}, ensures=" and ".join(ens), loops=loops,
                            spec={"FRAMES": lambda l, s, k=None: _frames_ok(l, s, D2A, k), "D2A_": lambda x: SObj("Arr", D2A(sym.lift(x)))},
                            doc="values converted; a frame list is None iff its key is missing / None, otherwise the frame-by-frame conversion of the same length ([] stays [])")
            tag = f"{kind_c},{kind_v}"
            obs.append(vprop.fn_ob("C11", c, {}, call=lambda ns, a: ns["ExpectationValues"].from_dict.__func__(Holder, a["dictionary"]), setup=setup, fallback=fb,
                                   obid=f"C11.ExpectationValues.from_dict[{tag}].contract", desc=c.doc, replay_code=_replay, expected=c.doc,
                                   extra_stubs=lambda: {"convert_dict_to_array": lambda x: SObj("Arr", D2A(sym.lift(x))), "cast": lambda t, x: x}, timeout_ms=30000))
    return obs
