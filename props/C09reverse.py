"""C09, `reverse_qubit_order` under contract (Engine V): for ANY operator (any number of terms, any number of factors per term) and ANY register width n.

    n defaults to the operator's own width; n below it raises ValueError; otherwise the result is the SUM, in the order of the terms, of one term per input term:
    the same coefficient, and a factor `letter` on qubit n-1-q for every factor `letter` on qubit q of the input term - nothing else (two loop invariants: over the
    terms, and over the factors of one term with the dictionary qubit -> letter as membership / letter arrays over all integer keys).

That this re-indexing q -> n-1-q denotes conjugation by the bit-reversal permutation of the 2^n basis states is the F-level obligation `C09.reverse` (n = 3, 4) and,
for general n, the tensor-product fact that permuting the factors of a Kronecker product is conjugation by the corresponding basis permutation (assumed).
`PauliSum()` / `+=` / `PauliTerm(dict, coefficient)` are abstract: an empty sum, an addition that keeps the order of its arguments in an uninterpreted ADD, and a
term value determined by (the dictionary, the coefficient).
"""
from __future__ import annotations

import z3

from vfw import sym, vcontract as vc, vprop, vtypes
from vfw.sym import Obj, SSeq, SInt, SObj

UT = "orquestra.quantum.operators._utils"
I = z3.IntSort()
B = z3.BoolSort()
QOF = z3.Function("qubit_of_factor", Obj, I, I)          # (term, j) -> qubit of the j-th factor (iteration order of term.operations)
LOF = z3.Function("letter_of_factor", Obj, I, Obj)
NOPS = z3.Function("number_of_factors", Obj, I)
COEF = z3.Function("coefficient_of", Obj, Obj)
IDXQ = z3.Function("factor_index_of_qubit", Obj, I, I)   # (term, qubit) -> index of the factor on that qubit, -1 if none
BUILD = z3.Function("PauliTerm", z3.ArraySort(I, B), z3.ArraySort(I, Obj), Obj, Obj)      # (membership, letters masked by membership, coefficient) -> term value
EMPTY = z3.Const("PauliSum()", Obj)
ADD = z3.Function("sum_plus_term", Obj, Obj, Obj)
NOLETTER = z3.Const("no_letter", Obj)
ACC = z3.Function("sum_of_reversed_terms", Obj, I, I, Obj)      # (operator, n, k): the first k reversed terms added to the empty sum, in order


class Dict:
    """the dictionary `new_term`: membership and letters over all integer keys"""

    def __init__(self, has, letter):
        self.has, self.letter = has, letter

    def __setitem__(self, k, v):
        self.has = z3.Store(self.has, sym.lift(k), z3.BoolVal(True))
        self.letter = z3.Store(self.letter, sym.lift(k), sym.lift(v))


def _arrays(d):
    if isinstance(d, Dict):
        return d.has, d.letter
    if isinstance(d, dict):
        has, letter = z3.K(I, z3.BoolVal(False)), z3.K(I, NOLETTER)
        for k, v in d.items():          # (a real dictionary: keys inserted so far, in insertion order; later writes win as in Python)
            has, letter = z3.Store(has, sym.lift(k), z3.BoolVal(True)), z3.Store(letter, sym.lift(k), sym.lift(v))
        return has, letter
    raise sym.Unsupported("dictionary model")


def _masked(has, letter):
    x = z3.Int("x!mk")
    return z3.Lambda([x], z3.If(z3.Select(has, x), z3.Select(letter, x), NOLETTER))


def rev_has_letter(t, n, k=None):
    """membership and letters of the reversed dictionary after the first k factors of term t (all of them when k is None)"""
    x = z3.Int("x!rv")
    j = IDXQ(t, sym.lift(n) - 1 - x)
    lim = NOPS(t) if k is None else sym.lift(k)
    has = z3.Lambda([x], z3.And(0 <= j, j < lim))
    letter = z3.Lambda([x], z3.If(z3.And(0 <= j, j < lim), LOF(t, j), NOLETTER))
    return has, letter


def rev_term(t, n):
    has, letter = rev_has_letter(t, n)
    return BUILD(has, letter, COEF(t))


def judge(case):
    """native reading of the contract: case = (operator index, width or None)"""
    from orquestra.quantum.operators import PauliSum, PauliTerm, reverse_qubit_order
    pool = [PauliSum([PauliTerm("X0*Y2", 0.5 - 1j), PauliTerm("Z1", 2.0)]), PauliSum([PauliTerm("I0", 1.5), PauliTerm("Z0*Z3", -1.0), PauliTerm("X3", 0.25)]),
            PauliTerm("Y1*Z4", 3.0), PauliSum(), PauliSum([PauliTerm("X0", 1.0), PauliTerm("X1", 1.0), PauliTerm("X2", 1.0)])]
    op, n = pool[case[0]], case[1]
    own = op.n_qubits
    width = own if n is None else n
    try:
        r = reverse_qubit_order(op) if n is None else reverse_qubit_order(op, n)
    except ValueError:
        return width < own, f"ValueError for width {width} (operator width {own})"
    if width < own:
        return False, f"width {width} below the operator's width {own} accepted"
    want = {}
    for t in op.terms:
        key = frozenset((width - 1 - q, s) for q, s in t.operations)
        want[key] = want.get(key, 0) + t.coefficient
    got = {frozenset(t.operations): t.coefficient for t in r.terms}
    want = {k: v for k, v in want.items() if abs(v) > 1e-12}
    ok = set(got) == set(want) and all(abs(got[k] - want[k]) < 1e-12 for k in want)
    return ok, f"reverse_qubit_order({op}, {n}) = {r}"


def build(fb=None):
    fb = vprop.enum_ob("x", [], lambda: [(i, n) for i in range(5) for n in (None, 1, 3, 5, 8)], judge, "").run
    sym.OBJ_SCHEMAS.setdefault("Letter9", {})
    sym.OBJ_SCHEMAS.setdefault("Scalar9", {})
    state = {}

    class Term:
        def __init__(self, e):
            self.e = e
            self.coefficient = SObj("Scalar9", COEF(e))
            self.operations = SSeq(("fun", sym.wrap_expr(NOPS(e)), lambda j: (sym.wrap_expr(QOF(e, sym.lift(j))), SObj("Letter9", LOF(e, sym.lift(j))))), "tuple")

    class Sum:
        def __init__(self, e=None):
            self.e = EMPTY if e is None else e

        def __add__(self, term):
            if not isinstance(term, Built):
                raise sym.Unsupported("something else than a freshly built term is added to the sum")
            return Sum(ADD(self.e, term.e))

        __iadd__ = __add__

    class Built:
        def __init__(self, d, coefficient=None):
            has, letter = _arrays(d)
            self.e = BUILD(has, _masked(has, letter), sym.lift(coefficient))

    class Operator:
        pass

    def setup(args, ns, default_width=False):
        c = sym.cur()
        op = Operator()
        nterms = c.fresh("n_terms", I)
        c.assume(nterms >= 0)
        tarr = c.fresh("terms", z3.ArraySort(I, Obj))
        op.terms = SSeq(("fun", SInt(nterms), lambda j: Term(z3.Select(tarr, sym.lift(j)))), "list")
        own = c.fresh("operator.n_qubits", I)
        op.n_qubits = SInt(own)
        t, j, q = z3.Const("t!ax", Obj), z3.Int("j!ax"), z3.Int("q!ax")
        c.axioms += [
            z3.ForAll([t], NOPS(t) >= 0, patterns=[NOPS(t)]),
            # one factor per qubit: the index function is the inverse of the qubit function on the factors of a term
            z3.ForAll([t, j], z3.Implies(z3.And(0 <= j, j < NOPS(t)), IDXQ(t, QOF(t, j)) == j), patterns=[QOF(t, j)]),
            z3.ForAll([t, q], z3.Implies(IDXQ(t, q) >= 0, z3.And(IDXQ(t, q) < NOPS(t), QOF(t, IDXQ(t, q)) == q)), patterns=[IDXQ(t, q)]),
            z3.ForAll([t, q], IDXQ(t, q) >= -1, patterns=[IDXQ(t, q)]),
        ]
        opobj = c.fresh("operator", Obj)
        n_, k_ = z3.Int("n!acc"), z3.Int("k!acc")
        c.axioms += [
            z3.ForAll([n_], ACC(opobj, n_, 0) == EMPTY, patterns=[ACC(opobj, n_, 0)]),
            z3.ForAll([n_, k_], z3.Implies(k_ >= 0, ACC(opobj, n_, k_ + 1) == ADD(ACC(opobj, n_, k_), rev_term(z3.Select(tarr, k_), n_))), patterns=[ACC(opobj, n_, k_ + 1)]),
        ]
        args["qubit_operator"] = op
        state["op"], state["opobj"], state["tarr"] = op, opobj, tarr
        if default_width:
            args["n_qubits"] = None
        c.inputs["n_terms"] = SInt(nterms)

    def width(n_qubits):
        return state["op"].n_qubits if n_qubits is None else n_qubits

    def summed(r, n_qubits, k=None):
        kk = sym.lift(state["op"].terms.length()) if k is None else sym.lift(k)
        if not isinstance(r, Sum):
            return False
        return sym.wrap_expr(r.e == ACC(state["opobj"], sym.lift(width(n_qubits)), kk))

    def dict_ok(d, term, n_qubits, k):
        has, letter = _arrays(d)
        wh, wl = rev_has_letter(term.e, sym.lift(width(n_qubits)), k)
        x = z3.Int("x!dk")
        return sym.wrap_expr(z3.ForAll([x], z3.And(z3.Select(has, x) == z3.Select(wh, x), z3.Implies(z3.Select(has, x), z3.Select(letter, x) == z3.Select(wl, x)))))

    def mk_dict(name):
        c = sym.cur()
        return Dict(c.fresh(name + ".has", z3.ArraySort(I, B)), c.fresh(name + ".letter", z3.ArraySort(I, Obj)))

    def mk_sum(name):
        return Sum(sym.cur().fresh(name, Obj))
    obs = []
    for default_width in (False, True):
        c = vc.Contract(key=UT + ":reverse_qubit_order", params={"qubit_operator": "Any", "n_qubits": "Int" if not default_width else "Any"},
                        raises=({"ValueError": "n_qubits < qubit_operator.n_qubits"} if not default_width else {}),
                        ensures="SUMMED(result, n_qubits)",
                        loops={"for#0": {"invariant": "SUMMED(reversed_op, n_qubits, k)", "types": {"reversed_op": mk_sum}},
                               "for#1": {"invariant": "DICT_OK(new_term, term, n_qubits, k)", "types": {"new_term": mk_dict}}},
                        spec={"SUMMED": summed, "DICT_OK": dict_ok},
                        doc=("width given: " if not default_width else "default width (the operator's own): ") +
                            "the sum, in order, of one term per input term with the same coefficient and every factor moved from qubit q to qubit n-1-q; "
                            "n below the operator's width raises ValueError")
        obs.append(vprop.fn_ob("C09", c, {}, setup=lambda a, ns, dw=default_width: setup(a, ns, dw), fallback=fb,
                               obid=f"C09.reverse_qubit_order[{'default width' if default_width else 'given width'}].all_sizes.contract", desc=c.doc, timeout_ms=60000,
                               extra_stubs=lambda: {"PauliSum": Sum, "PauliTerm": Built}))
    return obs
