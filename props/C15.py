"""C15 - estimation returns one correctly weighted result per task, in task order.

Deductive part (Engine V): the partition of tasks (`split_estimation_tasks_to_measure`, loop invariant with a
forall-exists coverage clause), the index write-back of `estimate_expectation_values_by_averaging` (two loop
invariants; callees replaced by their contracts; the runner is an abstract object obeying the CircuitRunner
contract "one result per circuit, in order"), `evaluate_estimation_circuits` and `calculate_exact_expectation_values`
(order-preserving maps) are verified for ALL task lists of any length and any interleaving of the three task kinds.
Bounded part: native enumeration of all kind-orderings up to length 4 with a basis-state runner (values include
coefficients, constants, zero-shot tasks, exactness on basis states).
"""
from __future__ import annotations

import itertools

import z3

from vfw import core, sym, vcontract as vc, vprop, vnative, vtypes, vrt
from vfw.core import Ob
from vfw.sym import Obj, SObj

LEVEL = "proof"
M = "orquestra.quantum.estimation._estimation"
MANIFEST = {
    "engine": "engine-V",
    "category": "proof",
    "technique": "contract-based deductive verification: postconditions from the property statement on the real functions of estimation/_estimation.py, loop invariants (incl. a forall-exists coverage invariant) on the partition and write-back loops, callees and the abstract runner replaced by their contracts; VCs from symbolic execution of the current text, discharged by z3 for all task lists; native enumeration of small task lists as bounded cross-check",
    "text": "That every task position receives exactly the result computed from that task - for every length and interleaving of measurable, constant and zero-shot tasks - is an inductive statement over the two index lists; it is proved from the real loop bodies by loop invariants, not sampled. Value-level facts (coefficients included, exactness on basis states) depend on numpy code and are checked by bounded enumeration here and by C10's contracts.",
    "note": "Trusted: Engine V's encoding (lists as length+elements, enumerate/zip/zip(*)/comprehensions), z3 quantifier instantiation, the CircuitRunner contract assumed for the abstract runner (proved for the base classes in C14), number_of_shots modelled as an integer in the proofs (None is covered by the bounded part).",
}
TRUSTED = ["vfw Engine V symbolic execution of the rewritten real text", "z3 5.1 (arrays, quantifiers)",
           "abstract CircuitRunner contract: run_batch_and_measure returns one Measurements per circuit, in order (C14)"]
ASSUMPTIONS = [
    "EstimationTask.number_of_shots is an integer in the proofs (the None case is exercised natively)",
    "Measurements.get_expectation_values / expectation_values_to_real are deterministic functions of their arguments (their value-level contract is C10)",
    "ExpectationValues objects are compared by identity of the producing call in the proofs (uninterpreted functions)",
]
EXTRA = {"explanation": "each function's VCs are generated from its current text; loops are cut by the sidecar invariants; "
                        "callees are replaced by their contracts"}

sym.OBJ_SCHEMAS["Task"] = {"operator": "Obj:Op", "circuit": "Obj:Circuit", "number_of_shots": "Int"}
sym.OBJ_SCHEMAS["Op"] = {"is_constant": "Bool", "terms": "Seq[Obj:PTerm]"}
sym.OBJ_SCHEMAS["PTerm"] = {"coefficient": "Real"}
_MKEVR = z3.Function("ExpectationValues_of_value", z3.RealSort(), Obj)


def _const_sum(op):
    """sum of the coefficients of the operator's terms (the constant an all-identity operator denotes)"""
    return sym.seq_sum(sym.seq_map(op.terms, lambda t: t.coefficient))


def _nm_value(task):
    """the result the property prescribes for a not-measured task: the constant for a constant operator, else 0"""
    c = _const_sum(task.operator)
    v = z3.If(sym.fml(task.operator.is_constant), sym.lift(c) if not isinstance(c, (int, float)) else z3.RealVal(c), z3.RealVal(0))
    return SObj("EV", _MKEVR(v))
sym.OBJ_SCHEMAS["Circuit"] = {"bind": lambda self: (lambda m: SObj("Circuit", _BIND(self.e, sym.lift(m))))}
_RUN = z3.Function("run_result", Obj, z3.IntSort(), Obj)
_GETEV = z3.Function("get_expectation_values", Obj, Obj, Obj)
_TOREAL = z3.Function("expectation_values_to_real", Obj, Obj)
_NMVAL = z3.Function("non_measured_value", Obj, Obj)
_BIND = z3.Function("Circuit.bind", Obj, Obj, Obj)
_MKTASK = z3.Function("EstimationTask", Obj, Obj, z3.IntSort(), Obj)
_EXACT = z3.Function("get_exact_expectation_values", Obj, Obj, Obj)
_MKEV = z3.Function("ExpectationValues", Obj, Obj)


def _runner_batch(self):
    def run_batch_and_measure(circuits, shots):
        c = sym.cur()
        res = vtypes.mk("Seq[Obj:Meas]", "measurements")
        c.assume(vrt.Cmp("Eq", res.length(), vrt.v_len(circuits)))
        c.assume(sym.seq_forall(vrt.v_range(res.length()),
                                lambda j: sym.lift(res.get(j)) == _RUN(sym.lift(circuits.get(j)), sym.lift(shots.get(j)))))
        return res
    return run_batch_and_measure


sym.OBJ_SCHEMAS["Runner"] = {"run_batch_and_measure": _runner_batch,
                             "get_exact_expectation_values": lambda self: (lambda c, o: SObj("Val", _EXACT(sym.lift(c), sym.lift(o))))}
sym.OBJ_SCHEMAS["Meas"] = {"get_expectation_values": lambda self: (lambda op: SObj("EV", _GETEV(self.e, sym.lift(op))))}

NM = "(t.operator.is_constant or t.number_of_shots == 0)"


def _nm(name):
    return NM.replace("t.", name + ".")


SPLIT_POST = (
    "len(result[0]) == len(result[2]) and len(result[1]) == len(result[3]) "
    "and len(result[2]) + len(result[3]) == len(estimation_tasks) "
    "and all(0 <= result[2][j] < len(estimation_tasks) and result[0][j] == estimation_tasks[result[2][j]] "
    f"        and not {NM.replace('t.', 'estimation_tasks[result[2][j]].')} for j in range(len(result[2]))) "
    "and all(0 <= result[3][j] < len(estimation_tasks) and result[1][j] == estimation_tasks[result[3][j]] "
    f"        and {NM.replace('t.', 'estimation_tasks[result[3][j]].')} for j in range(len(result[3]))) "
    "and all(implies(a < b, result[2][a] < result[2][b]) for a in range(len(result[2])) for b in range(len(result[2]))) "
    "and all(implies(a < b, result[3][a] < result[3][b]) for a in range(len(result[3])) for b in range(len(result[3]))) "
    "and all(i in result[2] or i in result[3] for i in range(len(estimation_tasks)))"
)
SPLIT_INV = (
    "len(estimation_tasks_to_measure) == len(indices_to_measure) and len(estimation_tasks_not_to_measure) == len(indices_not_to_measure) "
    "and len(indices_to_measure) + len(indices_not_to_measure) == k "
    "and all(0 <= indices_to_measure[j] < k and estimation_tasks_to_measure[j] == estimation_tasks[indices_to_measure[j]] "
    f"        and not {NM.replace('t.', 'estimation_tasks[indices_to_measure[j]].')} for j in range(len(indices_to_measure))) "
    "and all(0 <= indices_not_to_measure[j] < k and estimation_tasks_not_to_measure[j] == estimation_tasks[indices_not_to_measure[j]] "
    f"        and {NM.replace('t.', 'estimation_tasks[indices_not_to_measure[j]].')} for j in range(len(indices_not_to_measure))) "
    "and all(implies(a < b, indices_to_measure[a] < indices_to_measure[b]) for a in range(len(indices_to_measure)) for b in range(len(indices_to_measure))) "
    "and all(implies(a < b, indices_not_to_measure[a] < indices_not_to_measure[b]) for a in range(len(indices_not_to_measure)) for b in range(len(indices_not_to_measure))) "
    "and all(i in indices_to_measure or i in indices_not_to_measure for i in range(k))"
)

C_SPLIT = vc.contract(
    M + ":split_estimation_tasks_to_measure",
    params={"estimation_tasks": "Seq[Obj:Task]"},
    result="Tuple[List[Obj:Task],List[Obj:Task],List[Int],List[Int]]",
    ensures=SPLIT_POST,
    loops={"for#0": {"invariant": SPLIT_INV,
                     "types": {"estimation_tasks_to_measure": "List[Obj:Task]", "estimation_tasks_not_to_measure": "List[Obj:Task]",
                               "indices_to_measure": "List[Int]", "indices_not_to_measure": "List[Int]"}}},
    doc="the two index lists are increasing, disjoint by kind, cover every position, and tasks_*[p] = tasks[indices_*[p]]")

C_NONMEAS = vc.contract(
    M + ":evaluate_non_measured_estimation_tasks",
    params={"estimation_tasks": "Seq[Obj:Task]"},
    result="List[Obj:EV]",
    raises={"RuntimeError": "any((not t.operator.is_constant) and t.number_of_shots > 0 for t in estimation_tasks)"},
    ensures="len(result) == len(estimation_tasks) and all(result[j] == NMVAL(estimation_tasks[j]) for j in range(len(result)))",
    loops={"for#0": {"invariant": "len(expectation_values) == k and all(expectation_values[j] == NMVAL(estimation_tasks[j]) for j in range(k)) "
                                  "and not any((not estimation_tasks[j].operator.is_constant) and estimation_tasks[j].number_of_shots > 0 for j in range(k))",
                     "types": {"expectation_values": "List[Obj:EV]", "coefficient": "Real"}}},
    spec={"NMVAL": _nm_value},
    doc="one result per task, in order: a constant operator yields exactly the sum of its constant terms' coefficients, a non-constant zero-shot task yields 0; "
        "a non-constant task that requires shots raises RuntimeError")

# the same function as seen by its caller: an abstract value per task (what that value is, is the proved contract above);
# its precondition - every task is constant or zero-shot - excludes the RuntimeError and is proved at the call site
C_NONMEAS_ABS = vc.Contract(
    key=M + ":evaluate_non_measured_estimation_tasks",
    params={"estimation_tasks": "Seq[Obj:Task]"},
    requires="all(t.operator.is_constant or t.number_of_shots == 0 for t in estimation_tasks)",
    result="List[Obj:EV]",
    ensures="len(result) == len(estimation_tasks) and all(result[j] == NMVAL(estimation_tasks[j]) for j in range(len(result)))",
    spec={"NMVAL": lambda t: SObj("EV", _NMVAL(sym.lift(t)))})

AVG_POST = (
    "len(result) == len(estimation_tasks) and all("
    f"(implies({NM.replace('t.', 'estimation_tasks[i].')}, result[i] == NMVAL(estimation_tasks[i]))) and "
    f"(implies(not {NM.replace('t.', 'estimation_tasks[i].')}, result[i] == TOREAL(GETEV(RUN(estimation_tasks[i].circuit, estimation_tasks[i].number_of_shots), estimation_tasks[i].operator))))"
    " for i in range(len(estimation_tasks)))"
)
_SPEC = {"NMVAL": lambda t: SObj("EV", _NMVAL(sym.lift(t))),
         "RUN": lambda c, s: SObj("Meas", _RUN(sym.lift(c), sym.lift(s))),
         "GETEV": lambda m, o: SObj("EV", _GETEV(sym.lift(m), sym.lift(o))),
         "TOREAL": lambda e: SObj("EV", _TOREAL(sym.lift(e)))}
N_ = "(len(estimation_tasks_not_to_measure) + len(estimation_tasks_to_measure))"
AVG_INV0 = (
    f"len(full_expectation_values) == {N_} "
    "and all(full_expectation_values[indices_not_to_measure[j]] == non_measured_expectation_values_list[j] for j in range(k)) "
    "and all(implies(not any(indices_not_to_measure[j] == i for j in range(k)), full_expectation_values[i] == None) "
    f"        for i in range({N_}))"
)
AVG_INV1 = (
    f"len(full_expectation_values) == {N_} "
    "and all(full_expectation_values[indices_not_to_measure[j]] == non_measured_expectation_values_list[j] for j in range(len(indices_not_to_measure))) "
    "and all(full_expectation_values[indices_to_measure[j]] == measured_expectation_values_list[j] for j in range(k))"
)
C_AVG = vc.contract(
    M + ":estimate_expectation_values_by_averaging",
    params={"runner": "Obj:Runner", "estimation_tasks": "Seq[Obj:Task]"},
    ensures=AVG_POST, spec=_SPEC,
    loops={"for#0": {"invariant": AVG_INV0, "types": {"full_expectation_values": "List[Obj:EV]"}},
           "for#1": {"invariant": AVG_INV1, "types": {"full_expectation_values": "List[Obj:EV]"}}},
    doc="position i of the result is the value computed from task i, whatever the interleaving of task kinds")

C_BIND = vc.contract(
    M + ":evaluate_estimation_circuits",
    params={"estimation_tasks": "Seq[Obj:Task]", "symbols_maps": "Seq[Obj:Map]"},
    requires="len(estimation_tasks) == len(symbols_maps)",
    ensures="len(result) == len(estimation_tasks) and all(result[i] == MKTASK(estimation_tasks[i].operator, "
            "BIND(estimation_tasks[i].circuit, symbols_maps[i]), estimation_tasks[i].number_of_shots) for i in range(len(result)))",
    spec={"MKTASK": lambda o, c, n: SObj("Task", _MKTASK(sym.lift(o), sym.lift(c), sym.lift(n))),
          "BIND": lambda c, m: SObj("Circuit", _BIND(sym.lift(c), sym.lift(m)))},
    doc="task i keeps its operator and shot count and gets circuit_i.bind(map_i); nothing else changes")

C_EXACT = vc.contract(
    M + ":calculate_exact_expectation_values",
    params={"runner": "Obj:Runner", "estimation_tasks": "Seq[Obj:Task]"},
    ensures="len(result) == len(estimation_tasks) and all(result[i] == MKEV(EXACT(estimation_tasks[i].circuit, estimation_tasks[i].operator)) "
            "for i in range(len(result)))",
    spec={"MKEV": lambda v: SObj("EV", _MKEV(sym.lift(v))), "EXACT": lambda c, o: SObj("Val", _EXACT(sym.lift(c), sym.lift(o)))},
    doc="one value per task in order, each the simulator's exact expectation of that task's operator on that task's circuit")


def _stub_toreal(e):
    return SObj("EV", _TOREAL(sym.lift(e)))


def _stub_task(operator=None, circuit=None, number_of_shots=None):
    return SObj("Task", _MKTASK(sym.lift(operator), sym.lift(circuit), sym.lift(number_of_shots)))


class _NP:
    @staticmethod
    def asarray(x, *a, **k):
        if isinstance(x, list) and len(x) == 1:
            return x[0]
        raise sym.Unsupported("np.asarray")


def _stub_ev(values, correlations=None, estimator_covariances=None):
    return SObj("EV", _MKEV(sym.lift(values)))


def _stub_ev_value(values, correlations=None, estimator_covariances=None):
    e = sym.lift(values)
    if e.sort() == z3.IntSort():
        e = z3.ToReal(e)
    return SObj("EV", _MKEVR(e))


class _NP1:
    @staticmethod
    def asarray(x, *a, **k):
        if isinstance(x, list) and len(x) == 1 and not isinstance(x[0], list):
            return x[0]
        return "<array>"


# ------------------------------------------------------------------------------------------------ bounded

def _cases_kinds(tier):
    top = 4 if tier == "quick" else 5
    def gen():
        for L in range(0, top + 1):
            for ks in itertools.product("MCZ", repeat=L):
                nm = sum(1 for k in ks if k == "M")
                # every assignment of pairwise different shot counts to the measurable tasks (all orders, incl. cyclic ones), plus equal counts
                perms = list(itertools.permutations(range(nm))) if nm <= 4 else [tuple(range(nm)), tuple(reversed(range(nm)))]
                for perm in perms:
                    yield (ks, perm)
                if nm >= 2:
                    yield (ks, (0,) * nm)
    return gen


def _check_kinds(case):
    """M = measurable (Z-type operator with constant part), C = constant operator (unsimplified, two constant terms),
    Z = non-constant with 0 shots, N = non-constant with shots None.  The runner prepares a basis state."""
    import numpy as np
    from orquestra.quantum.api.estimation import EstimationTask
    from orquestra.quantum.circuits import Circuit, X
    from orquestra.quantum.estimation import estimate_expectation_values_by_averaging
    from orquestra.quantum.operators import PauliSum, PauliTerm
    from orquestra.quantum.runners.symbolic_simulator import SymbolicSimulator
    kinds, perm = case
    tasks, expected = [], []
    jm = 0
    for i, k in enumerate(kinds):
        bits = [(i >> q) & 1 for q in range(3)]
        circ = Circuit([X(q) for q in range(3) if bits[q]], n_qubits=3)
        if k == "M":
            op = PauliSum([PauliTerm("Z0", 2.0 + i), PauliTerm("Z0*Z2", -1.5), PauliTerm("I0", 0.25 * (i + 1))])
            shots_i = 3 + i if perm is None else 10 * (perm[jm] + 1)
            jm += 1
            tasks.append(EstimationTask(op, circ, shots_i))
            expected.append([(2.0 + i) * (-1) ** bits[0], -1.5 * (-1) ** (bits[0] + bits[2]), 0.25 * (i + 1)])
        elif k == "C":
            op = PauliSum([PauliTerm("I0", 1.0 + i), PauliTerm("I0", 2.0)])
            tasks.append(EstimationTask(op, circ, 5))
            expected.append([3.0 + i])
        else:
            op = PauliSum([PauliTerm("Z1", 4.0 + i), PauliTerm("I0", 7.0)])
            tasks.append(EstimationTask(op, circ, 0 if k == "Z" else None))
            expected.append([0.0])
    before = [(t.operator, t.circuit, t.number_of_shots) for t in tasks]
    out = estimate_expectation_values_by_averaging(SymbolicSimulator(seed=1), tasks)
    if len(out) != len(tasks):
        return False, f"{len(out)} results for {len(tasks)} tasks"
    for i, (o, e) in enumerate(zip(out, expected)):
        if o is None or len(o.values) != len(e) or not np.allclose(o.values, e, atol=1e-12):
            return False, f"kinds {''.join(kinds)}, shots {[t.number_of_shots for t in tasks]}: result {i} is {None if o is None else list(o.values)} expected {e}"
    if [(t.operator, t.circuit, t.number_of_shots) for t in tasks] != before:
        return False, "tasks were modified"
    return True, "ok"


def _check_wide_estimation(n):
    """registers of n qubits (beyond what a state-vector simulator reaches) through a classical bit-flip runner: one result per task, in task order,
    coefficient x eigenvalue for Z-terms on the lowest, highest and middle qubits; exact-scale check of tiny coefficients"""
    import numpy as np
    from orquestra.quantum.api.circuit_runner import BaseCircuitRunner
    from orquestra.quantum.api.estimation import EstimationTask
    from orquestra.quantum.circuits import Circuit, X
    from orquestra.quantum.estimation import estimate_expectation_values_by_averaging
    from orquestra.quantum.measurements import Measurements
    from orquestra.quantum.operators import PauliSum, PauliTerm

    class BitFlip(BaseCircuitRunner):
        def _run_and_measure(self, circuit, n_samples):
            bits = [0] * circuit.n_qubits
            for op in circuit.operations:
                bits[op.qubit_indices[0]] ^= 1
            return Measurements([tuple(bits)] * n_samples)
    rng = np.random.default_rng(n)
    tasks, expected = [], []
    for i in range(5):
        ones = sorted({0, n - 1, n // 2, int(rng.integers(0, n)), int(rng.integers(0, n))} - ({0} if i % 2 else {n - 1}))
        circ = Circuit([X(q) for q in ones], n_qubits=n)
        supports = [{n - 1}, {0}, {0, n - 1}, {n // 2, n - 1}, {32 % n, n - 2}, set(range(max(0, n - 3), n))]
        scale = (1.0, 1e-9, 1e6, 1.0, 1.0)[i]
        op = PauliSum([PauliTerm({q: "Z" for q in S}, scale * (1.5 + k)) for k, S in enumerate(supports)] + [PauliTerm("I0", scale * 0.25)])
        tasks.append(EstimationTask(op, circ, 3 + i))
        expected.append([scale * (1.5 + k) * (-1) ** len(S & set(ones)) for k, S in enumerate(supports)] + [scale * 0.25])
    out = estimate_expectation_values_by_averaging(BitFlip(), tasks)
    if len(out) != len(tasks):
        return False, f"{len(out)} results for {len(tasks)} tasks"
    for i, (o, e) in enumerate(zip(out, expected)):
        if len(o.values) != len(e) or not np.allclose(o.values, e, rtol=1e-12, atol=0):
            return False, f"{n} qubits, task {i}: values {list(o.values)} expected {e}"
    return True, "ok"


def _check_bind_exact(n):
    """per-task binding (also when tasks SHARE one circuit object and differ only in their maps) and exact expectation values
    (for every kind of task: positive shots, zero shots, None, constant operators - the exact value never depends on the shot count)"""
    import numpy as np
    import sympy
    from orquestra.quantum.api.estimation import EstimationTask
    from orquestra.quantum.circuits import Circuit, RX, X
    from orquestra.quantum.estimation import calculate_exact_expectation_values, evaluate_estimation_circuits
    from orquestra.quantum.operators import PauliSum, PauliTerm, get_sparse_operator
    from orquestra.quantum.runners.symbolic_simulator import SymbolicSimulator
    th = sympy.Symbol("theta")
    shared = Circuit([RX(th)(0), X(1)])
    shots = [10, 0, None, 7, 0]
    tasks = []
    for i in range(n):
        op = [PauliSum([PauliTerm("Z0", 1.0 + i), PauliTerm("X0*Z1", 0.5)]),
              PauliSum([PauliTerm("Z0", 2.0), PauliTerm("Z1", 3.0), PauliTerm("Z0", 5.0 + i), PauliTerm("Z0*Z1", -1.0), PauliTerm("Z1*Z0", 0.5)]),    # unsimplified Ising sum, repeated supports
              PauliSum([PauliTerm("I0", 2.0 + i), PauliTerm("Z1", 1.0), PauliTerm("I0", -0.75)]),                                                    # constant written as two identity terms
              PauliSum([PauliTerm("I0", 2.0 + i)])][i % 4]
        circ = shared if i % 2 == 0 else Circuit([RX(th * (i + 1))(0), X(1)])
        tasks.append(EstimationTask(op, circ, shots[i % len(shots)]))
    maps = [{th: 0.1 * (i + 1)} for i in range(n)]
    bound = evaluate_estimation_circuits(tasks, maps)
    if len(bound) != n:
        return False, "wrong number of bound tasks"
    for i, (t, b) in enumerate(zip(tasks, bound)):
        if b.operator is not t.operator or b.number_of_shots != t.number_of_shots or b.circuit != t.circuit.bind(maps[i]) or b.circuit.free_symbols:
            return False, f"task {i} is not bound with its own map (circuit {b.circuit}, expected {t.circuit.bind(maps[i])})"
        if t.circuit.free_symbols != [th]:
            return False, "input task modified"
    # each task is bound with ITS OWN map only: a symbol that an earlier task's map binds stays free in a later task whose map does not mention it
    if n >= 2:
        from orquestra.quantum.circuits import RY
        al, be = sympy.symbols("alpha beta")
        leak_tasks = [EstimationTask(PauliSum([PauliTerm("Z0", 1.0)]), Circuit([RX(al)(0)]), 5), EstimationTask(PauliSum([PauliTerm("Z0", 1.0)]), Circuit([RX(al)(0), RY(be)(0)]), 5),
                      EstimationTask(PauliSum([PauliTerm("Z0", 1.0)]), Circuit([RY(be)(0), RX(al)(0)]), 5)][:max(2, min(n, 3))]
        leak_maps = [{al: 1.0}, {be: 2.0}, {}][:len(leak_tasks)]
        lb = evaluate_estimation_circuits(leak_tasks, leak_maps)
        for i, (t_, b_, mp) in enumerate(zip(leak_tasks, lb, leak_maps)):
            if b_.circuit != t_.circuit.bind(mp) or set(b_.circuit.free_symbols) != set(t_.circuit.free_symbols) - set(mp):
                return False, f"task {i} bound with {mp}: circuit {b_.circuit} (free symbols {b_.circuit.free_symbols}); another task's map leaked into it"
        if leak_maps != [{al: 1.0}, {be: 2.0}, {}][:len(leak_tasks)]:
            return False, "the symbol maps were modified"
    vals = calculate_exact_expectation_values(SymbolicSimulator(), bound)
    if len(vals) != n:
        return False, "wrong number of exact values"
    # the exact value is homogeneous in the operator: tiny and huge operators are evaluated to RELATIVE precision (no absolute snapping to zero)
    for b in bound[:3]:
        for scale in (1e-9, 1e-12, 1e7):
            scaled = EstimationTask(PauliSum([t.copy(new_coefficient=t.coefficient * scale) for t in b.operator.terms]), b.circuit, b.number_of_shots)
            v1 = calculate_exact_expectation_values(SymbolicSimulator(), [b])[0].values[0]
            v2 = calculate_exact_expectation_values(SymbolicSimulator(), [scaled])[0].values[0]
            if abs(v2 - scale * v1) > 1e-9 * abs(scale * v1) + 1e-300:
                return False, f"exact expectation of {scale} x operator is {v2}, expected {scale} x {v1}"
    for i, (b, v) in enumerate(zip(bound, vals)):
        psi = np.array(b.circuit.to_unitary().tolist(), dtype=complex)[:, 0]
        mat = get_sparse_operator(b.operator, 2).toarray()
        e = np.vdot(psi, mat @ psi).real
        if len(v.values) != 1 or abs(v.values[0] - e) > 1e-9:
            return False, f"exact value {v.values} != quadratic form {e} for task {i} (shots={b.number_of_shots}, operator {b.operator})"
    return True, "ok"


def build(tier, seed):
    obs = []
    fb_kinds = vprop.enum_ob("x", [], _cases_kinds("quick"), _check_kinds, "").run
    fb_bind = vprop.enum_ob("x", [], lambda: range(0, 7), _check_bind_exact, "").run
    obs.append(vprop.fn_ob("C15", C_SPLIT, {}, desc="split: index lists increasing, kind-correct, covering every position; tasks_*[p] = tasks[indices_*[p]] (loop invariant, all lengths)",
                           timeout_ms=30000, fallback=fb_kinds))
    obs.append(vprop.fn_ob("C15", C_NONMEAS, {}, extra_stubs=lambda: {"ExpectationValues": _stub_ev_value, "np": _NP1}, timeout_ms=30000, fallback=fb_kinds,
                           desc="evaluate_non_measured_estimation_tasks: one result per task in order; constant operator -> exactly the sum of its constant terms; "
                                "non-constant zero-shot -> 0; non-constant with shots -> RuntimeError (loop invariant, all lists)"))
    avg_stubs = lambda: {"expectation_values_to_real": _stub_toreal}
    obs.append(vprop.fn_ob("C15", C_AVG, {"split_estimation_tasks_to_measure": C_SPLIT,
                                          "evaluate_non_measured_estimation_tasks": C_NONMEAS_ABS},
                           extra_stubs=avg_stubs, timeout_ms=30000, fallback=fb_kinds,
                           desc="averaging: result[i] is the value computed from task i for every interleaving of task kinds (two write-back loop invariants; callees by contract)"))
    obs.append(vprop.fn_ob("C15", C_BIND, {}, extra_stubs=lambda: {"EstimationTask": _stub_task}, fallback=fb_bind,
                           desc="evaluate_estimation_circuits binds task i's circuit with map i and keeps operator and shots"))
    obs.append(vprop.fn_ob("C15", C_EXACT, {}, extra_stubs=lambda: {"ExpectationValues": _stub_ev, "np": _NP}, fallback=fb_bind,
                           desc="calculate_exact_expectation_values is an order-preserving map of the simulator's exact expectation"))
    obs.append(vprop.enum_ob("C15.kinds.enum", [C_AVG.key, C_SPLIT.key, C_NONMEAS.key], _cases_kinds(tier), _check_kinds,
                             "bounded: every ordering of measurable / constant (unsimplified) / zero-shot / None-shot tasks up to the length bound on basis states: "
                             "one result per task at its position, coefficients included, constants exact, zero-shot gives 0, tasks unmodified"))
    obs.append(vprop.enum_ob("C15.wide.enum", [C_AVG.key, "orquestra.quantum.measurements.measurements:Measurements.get_expectation_values"], lambda: [3, 33, 40, 65, 72], _check_wide_estimation,
                             "bounded: estimation by averaging on registers of 3 .. 72 qubits through a classical bit-flip runner: per-task values in task order for Z-terms on the lowest, "
                             "highest and middle qubits, coefficient scales 1e-9 .. 1e6 to relative precision", exhaustive=False))
    obs.append(vprop.enum_ob("C15.bind_exact.enum", [C_BIND.key, C_EXACT.key], lambda: range(0, 7), _check_bind_exact,
                             "bounded: per-task binding (tasks sharing one circuit object, different maps) and exact expectation = quadratic form for positive / zero / None shots and constants"))
    return obs
