"""C16 - time-evolution circuits implement exp(-i t H) term by term, and its derivative.

Deductive part (Engine M = the real text of evolution.py, _circuit.py, _gates.py, _unitary_tools.py, _matrices.py
executed over the exact trig-polynomial domain):
  * for EVERY Pauli string on <= 3 qubits (thorough: <= 4) the matrix of `time_evolution_for_term` equals
    cos(theta) I - i sin(theta) P  for ALL real theta = t*c  (P*P = I, so this is exp(-i t c P));
  * with symbolic t and c the only parametrised gate of the circuit is RZ with angle exactly 2*t*c;
  * `time_evolution` equals the ordered product over steps and listed terms of the per-term matrices (t/steps), and
    `time_evolution_derivatives` satisfies  sum_k f_k U_k^dagger O U_k = d/dt (U^dagger O U)  for ALL t and every
    matrix unit O (hence every observable, by linearity) on fixed small Hamiltonians with n_steps = 1, 2, 3;
  * the imaginary-part guard (Engine V): ValueError iff |Im c| > 1e-9 for non-constant terms.
"""
from __future__ import annotations

import itertools
from fractions import Fraction

from vfw import core, trig, mcheck, circ_m, vcontract as vc, vprop, sym, replay as rp
from vfw.core import Ob

LEVEL = "proof"
EV = "orquestra.quantum.evolution"
MANIFEST = {
    "engine": "engine-M",
    "category": "proof",
    "technique": "contract-based deductive verification: the postcondition 'matrix of the returned circuit == exp(-i t c P)' is generated from the real text of evolution.py (+ the circuit/gate/embedding code it calls) by shadow execution over an exact trig-polynomial domain and decided for all real t*c by ring normal form / z3 nlsat, for every Pauli string up to the stated width; the derivative postcondition uses formal differentiation of the same exact matrices; the coefficient guard is a VC over reals (Engine V, z3)",
    "text": "For each Pauli string the identity is decided for all real times and coefficients (no sampling); the quantifier over strings is exhaustive up to 3 qubits (quick) / 4 qubits (thorough), which is the bound the property itself states. Sum and derivative clauses are decided for all t on fixed small Hamiltonians and step counts 1..3.",
    "note": "Trusted: the exact domain's reading of sympy/numpy (Euler, addition formulas), floats-as-reals, z3. Bounds: string width <= 3/4; Hamiltonians of the sum/derivative clauses are a fixed finite family (stated in the evidence).",
}
TRUSTED = ["vfw/trig.py exact domain as the meaning of sympy/numpy matrix code", "shadow execution of the real module text (imports rebound to shadow modules)",
           "z3 5.1 nlsat second opinion", "exp(-i theta P) = cos(theta) I - i sin(theta) P for P*P = I (power series; P*P = I is itself checked)"]
ASSUMPTIONS = [
    "machine arithmetic treated as mathematical (np.pi/2, 2*t*c are exact reals; float rounding not modelled)",
    "the identity is stated in theta = t*c; that the circuit depends on (t, c) only through the RZ angle 2*t*c is a separate discharged obligation",
    "bounded in the width of the Pauli string (3 quick / 4 thorough) and, for sums and derivatives, to the listed Hamiltonians and n_steps <= 3",
]
EXTRA = {"explanation": "matrix identities generated from the current text of evolution.py via Engine M; exhaustive over Pauli strings of the stated width"}


class _Coef:
    def __init__(self, re, im=0.0):
        self.real, self.imag = re, im

    def __eq__(self, o):
        return self.imag == 0 and o == self.real

    def __ne__(self, o):
        return not self.__eq__(o)


class _Term:
    """duck-typed PauliTerm: exactly the attributes evolution.py reads"""

    def __init__(self, ops, coef):
        self._ops = dict(ops)
        self.coefficient = coef if isinstance(coef, _Coef) else _Coef(coef)

    qubits = property(lambda s: set(s._ops))
    is_constant = property(lambda s: not s._ops)
    operations = property(lambda s: frozenset(s._ops.items()))

    def __getitem__(self, q):
        return self._ops.get(q, "I")

    def __eq__(self, o):   # value equality, as PauliTerm has
        return isinstance(o, _Term) and self._ops == o._ops and self.coefficient.real == o.coefficient.real \
            and self.coefficient.imag == o.coefficient.imag

    def __hash__(self):
        return hash(tuple(sorted(self._ops.items())))

    def __repr__(self):
        return "*".join(f"{p}{q}" for q, p in sorted(self._ops.items())) or "I"


class _Ham:
    def __init__(self, terms):
        self.terms = terms


def _strings(width):
    for n in range(1, width + 1):
        for ps in itertools.product("IXYZ", repeat=n):
            if ps[-1] == "I":
                continue  # canonical: last listed qubit is acted on (shorter strings cover the rest)
            yield {q: p for q, p in enumerate(ps) if p != "I"}


def _pauli_matrix(L, ops, n):
    out = None
    for q in range(n):
        m = circ_m.pauli(L, ops.get(q, "I"))
        out = m if out is None else trig.kron(out, m)
    return out


def _target(L, ops, n, theta):
    P = _pauli_matrix(L, ops, n)
    return trig.cos(theta) * trig.eye(2 ** n) - trig.Poly.const(1j) * trig.sin(theta) * P


def _name(ops):
    return "".join(f"{p}{q}" for q, p in sorted(ops.items()))


def _replay_term(ops):
    def code(env):
        t = env.get("t", 0.37)
        return f"""
import numpy as np, scipy.linalg
from orquestra.quantum.evolution import time_evolution_for_term
from orquestra.quantum.operators import PauliTerm, get_sparse_operator
ops = {dict(ops)!r}
term = PauliTerm(ops, 0.8)
t = {t!r}
n = max(ops) + 1
U = np.array(time_evolution_for_term(term, t).to_unitary(), dtype=complex)
P = get_sparse_operator(PauliTerm(ops, 1.0), n).toarray()
T = scipy.linalg.expm(-1j * t * 0.8 * P)
OK = bool(U.shape == T.shape and np.allclose(U, T, atol=1e-9))
OBSERVED = f"max |U - exp(-itcP)| = {{abs(U - T).max() if U.shape == T.shape else U.shape}}"
"""
    return code


def ddt(p: trig.Poly, v="t") -> trig.Poly:
    """formal derivative with respect to the real variable v of a polynomial in cos(q v), sin(q v) atoms"""
    out = trig.Poly({})
    for mono, (re, im) in p.t.items():
        coef = trig.Poly({(): (re, im)})
        for i, (var, e) in enumerate(mono):
            if var == v:
                raise trig.Unsupported("polynomial dependence on t")
            if not trig.is_atom(var):
                continue
            kind, base, q = trig._parse_atom(var)
            if base != v:
                continue
            rest = mono[:i] + (((var, e - 1),) if e > 1 else ()) + mono[i + 1:]
            other = trig._atom("s" if kind == "c" else "c", base, q)
            d = trig.Poly({tuple(sorted(rest)): (trig.F1, trig.F0)}) * trig.Poly.var(other) * trig.Poly.const(Fraction(e) * q * (-1 if kind == "c" else 1))
            out = out + coef * d
    return out


HAMS = {
    "0.5*Z0*Z1 + 1.0*Y0 - 0.5*Y1": [({0: "Z", 1: "Z"}, Fraction(1, 2)), ({0: "Y"}, Fraction(1)), ({1: "Y"}, Fraction(-1, 2))],
    "0.5*X0 + 0.5*X0 + 1.0*Z0*X1": [({0: "X"}, Fraction(1, 2)), ({0: "X"}, Fraction(1, 2)), ({0: "Z", 1: "X"}, Fraction(1))],
    "2*I + 1.5*Z1 - 0.5*X0*Y1": [({}, Fraction(2)), ({1: "Z"}, Fraction(3, 2)), ({0: "X", 1: "Y"}, Fraction(-1, 2))],
    "1.5*X1 + 0.75*I - 0.5*Z0*Z1 + 0.25*Y0": [({1: "X"}, Fraction(3, 2)), ({}, Fraction(3, 4)), ({0: "Z", 1: "Z"}, Fraction(-1, 2)), ({0: "Y"}, Fraction(1, 4))],
}


def _guard_cases():
    for ops in ("Z0", "X0*Y2", "I0"):
        for re in (1.0, -3.0, 1e-6, 1e6):
            for mag in (0.0, 1e-13, 1e-12, 1e-6, 1e-3, 1.0):
                for sgn in (1, -1):
                    yield (ops, re, sgn * mag)


def _check_guard(case):
    from orquestra.quantum.evolution import time_evolution_for_term
    from orquestra.quantum.operators import PauliTerm
    ops, re, im = case
    try:
        time_evolution_for_term(PauliTerm(ops, complex(re, im)), 0.3)
        raised = False
    except ValueError:
        raised = True
    if ops == "I0":
        return (not raised), "a constant term was refused"
    if abs(im) >= 1e-6 and not raised:
        return False, f"coefficient {complex(re, im)} of {ops}: an imaginary part of {im} was accepted (silently truncated)"
    if abs(im) <= 1e-12 and raised:
        return False, f"coefficient {complex(re, im)} of {ops}: a negligible imaginary part {im} was refused"
    return True, "ok"


def build(tier, seed):
    obs = []
    width = 3 if tier == "quick" else 4
    FN = [EV + ":time_evolution_for_term", circ_m.CIRC + ":Circuit.to_unitary", circ_m.CIRC + ":Circuit.inverse",
          "orquestra.quantum.circuits._gates:GateOperation.lifted_matrix", circ_m.UT + ":_lift_matrix"]

    def term_exp(ops):
        def run():
            def b():
                L = circ_m.Layer()
                ev = L.evolution()
                t = trig.Poly.var("t")
                circ = ev.time_evolution_for_term(_Term(ops, 1), t)
                n = max(ops) + 1
                if circ.n_qubits != n:
                    return trig.zeros(2 ** circ.n_qubits, 2 ** circ.n_qubits), trig.zeros(2 ** n, 2 ** n)
                return circ.to_unitary(), _target(L, ops, n, t)
            return mcheck.identity_outcome(b, _replay_term(ops), "circuit matrix == exp(-i t c P)")
        return run
    for ops in _strings(width):
        obs.append(Ob(f"C16.term.exp[{_name(ops)}]", "proof", FN, term_exp(ops),
                      f"matrix of time_evolution_for_term({_name(ops)}, t) == cos(tc) I - i sin(tc) P for all real t*c", timeout=300))

    def involution():
        L = circ_m.Layer()
        n = 0
        for ops in _strings(2):
            k = max(ops) + 1
            P = _pauli_matrix(L, ops, k)
            v, info = mcheck.decide_equal(P @ P, trig.eye(2 ** k))
            n += 1
            if v != "equal":
                return core.refuted("ring-normal-form", f"P*P != I for {_name(ops)}")
        return core.discharged("ring-normal-form", queries=n)
    obs.append(Ob("C16.pauli.involution", "finite", ["orquestra.quantum.circuits._matrices:x_matrix", "orquestra.quantum.circuits._matrices:y_matrix",
                                                    "orquestra.quantum.circuits._matrices:z_matrix"], involution,
                  "P*P = I for the Pauli matrices of _matrices.py (so exp(-i theta P) = cos(theta) I - i sin(theta) P)"))

    def angle():
        L = circ_m.Layer()
        ev = L.evolution()
        t, c = trig.Poly.var("t"), trig.Poly.var("c")
        n = 0
        for ops in _strings(width):
            circ = ev.time_evolution_for_term(_Term(ops, c), t)
            par = [op for op in circ.operations if any(getattr(p, "free_symbols", None) for p in op.params)]
            n += 1
            if len(par) != 1 or par[0].gate.name != "RZ" or not trig.is_zero(par[0].params[0] - 2 * t * c):
                return core.refuted("structure", f"{_name(ops)}: parametrised operations are {[str(o) for o in par]}, expected exactly RZ(2*t*c)",
                                    replay=rp.replay_dict(_replay_term(ops)({}), "exp(-itcP)"))
        empty = ev.time_evolution_for_term(_Term({}, c), t)
        if len(empty.operations) != 0:
            return core.refuted("structure", "constant term does not give an empty circuit")
        return core.discharged("shadow-execution", queries=n + 1)
    obs.append(Ob("C16.term.angle", "finite", FN[:1], angle,
                  "with symbolic t and c the circuit's only parametrised gate is RZ(2*t*c); a constant term gives the empty circuit"))

    # ---- guard (Engine V)
    def guard():
        import time as _t
        t0 = _t.time()
        results = []
        for ops in ({0: "Z"}, {0: "X", 2: "Y"}, {}):
            const = not ops
            c = vc.Contract(key=EV + ":time_evolution_for_term", params={"im": "Real", "re": "Real", "time": "Real"},
                            raises={"ValueError": "False" if const else "im > 1e-9 or im < -1e-9"}, ensures="True")

            class G:
                def __init__(self, *a, **k): pass
                def __call__(self, *a): return self
                dagger = property(lambda s: s)

            class C:
                def __init__(self, ops=None, n_qubits=None): self.operations = list(ops or [])
                def __add__(self, o): return C(self.operations + (o.operations if isinstance(o, C) else [o]))
                def inverse(self): return C(self.operations[::-1])
            sh = vc.Shadow(EV, {"H": G(), "RX": G, "RZ": G, "CNOT": G(), "Circuit": C, "abs": abs})
            fr = vc.verify(c, lambda ns, a, ops=ops: ns["time_evolution_for_term"](_Term(ops, _Coef(a["re"], a["im"])), a["time"]),
                           lambda: sh.build(c, {}))
            results.append(fr)
            if fr.undecided_reason:
                return core.undecided("engine-V", fr.undecided_reason)
            for n, d in fr.obligations.items():
                if d["status"] == "refuted":
                    m = d.get("model") or {}
                    im = m.get("im", -0.5)
                    code = f"""
from orquestra.quantum.evolution import time_evolution_for_term
from orquestra.quantum.operators import PauliTerm
im = {im!r}
try:
    time_evolution_for_term(PauliTerm({dict(ops) or {0: 'Z'}!r}, complex(1.0, im)), 0.3)
    raised = False
except ValueError:
    raised = True
OK = bool(raised == (abs(im) > 1e-9))
OBSERVED = f"imaginary part {{im}}: raised={{raised}}"
"""
                    return core.refuted("z3", f"{n}: {d.get('detail')} model {m}", cex=m, replay=rp.replay_dict(code, "ValueError iff |Im c| > 1e-9"))
                if d["status"] != "discharged":
                    return core.undecided("z3", f"{n}: {d.get('detail')}")
        vcs = sum(fr.vcs for fr in results)
        if vcs == 0:
            return core.undecided("engine-V", "no VC generated")
        return core.discharged("z3", _t.time() - t0, queries=vcs, sample={"vcs": vcs, "text": results[0].span})
    obs.append(Ob("C16.term.guard", "proof", FN[:1], guard,
                  "time_evolution_for_term raises ValueError iff the coefficient's imaginary part exceeds 1e-9 in magnitude (non-constant term); never for a constant term",
                  fallback=vprop.enum_ob("x", [], _guard_cases, _check_guard, "").run))
    obs.append(vprop.enum_ob("C16.term.guard.enum", FN[:1], _guard_cases, _check_guard,
                             "bounded: coefficients re + i im with re in {1, -3, 1e-6, 1e6} and |im| from 0 to 1 on three term shapes: an imaginary part of 1e-6 or more is refused "
                             "whatever the size of the real part, one of 1e-12 or less is accepted, a constant term is never refused"))

    # ---- sums and derivatives on fixed Hamiltonians, all t
    def sum_ob(hname, spec, n_steps):
        def run():
            def b():
                L = circ_m.Layer()
                ev = L.evolution()
                t = trig.Poly.var("t")
                ham = _Ham([_Term(o, c) for o, c in spec])
                circ = ev.time_evolution(ham, t, n_steps=n_steps)
                n = 2
                U = circ.to_unitary() if circ.operations else trig.eye(4)
                if circ.n_qubits not in (0, n) and circ.operations:
                    n = circ.n_qubits
                T = trig.eye(2 ** n)
                for _ in range(n_steps):
                    for o, c in spec:
                        if o:
                            T = _target(L, o, n, t * trig.Poly.const(c) / n_steps) @ T
                if U.rows != T.rows:
                    U = trig.kron(U, trig.eye(T.rows // U.rows)) if U.rows < T.rows else U
                return U, T
            return mcheck.identity_outcome(b, None, "U(time_evolution) == ordered product of exp(-i (t/n) c_k P_k)")
        return run

    def deriv_ob(hname, spec, n_steps):
        def run():
            import time as _t
            t0 = _t.time()
            L = circ_m.Layer()
            ev = L.evolution()
            t = trig.Poly.var("t")
            ham = _Ham([_Term(o, c) for o, c in spec])  # constant terms included: their two shifted circuits cancel
            n = 2
            circs, factors = ev.time_evolution_derivatives(ham, t, n_steps=n_steps)
            U = ev.time_evolution(ham, t, n_steps=n_steps).to_unitary()
            Us = [c.to_unitary() for c in circs]
            if len(Us) != len(factors):
                return core.refuted("structure", "number of circuits and factors differ")
            q = 0
            for a in range(2 ** n):
                for bb in range(2 ** n):
                    O = trig.zeros(2 ** n, 2 ** n)
                    O[a, bb] = 1
                    lhs = trig.zeros(2 ** n, 2 ** n)
                    for f, Uk in zip(factors, Us):
                        lhs = lhs + (Uk.adjoint() @ O @ Uk) * trig.Poly.const(f)
                    E = U.adjoint() @ O @ U
                    rhs = trig.SMat(data=[[ddt(trig.canon(x)) for x in row] for row in E.m])
                    v, info = mcheck.decide_equal(lhs, rhs, use_z3=False)
                    q += info.get("queries", 0) + 1
                    if v == "different":
                        w = info.get("witness") or {}
                        return core.refuted("ring-normal-form", f"{hname}, n_steps={n_steps}, observable E[{a},{bb}]: weighted sum != d/dt; {info.get('reason')} {info.get('diff')}",
                                            cex={"t": w}, replay=rp.replay_dict(_replay_deriv(spec, n_steps, w.get("t", 0.37)), "derivative"))
                    if v != "equal":
                        return core.undecided("engine-M", str(info))
            return core.discharged("ring-normal-form", _t.time() - t0, queries=q, sample={"observables": 4 ** n, "circuits": len(Us)})
        return run

    steps = (1, 2) if tier == "quick" else (1, 2, 3)
    for hname, spec in HAMS.items():
        for ns in steps:
            obs.append(Ob(f"C16.sum[{hname}|n={ns}]", "finite", [EV + ":time_evolution", EV + ":time_evolution_for_term"], sum_ob(hname, spec, ns),
                          f"U(time_evolution({hname}, t, n_steps={ns})) equals the ordered product of per-term exponentials for time t/{ns}, all t", timeout=300,
                          fallback=vprop.enum_ob("x", [], lambda: [1, 3], _check_native, "").run))
            if ns == 3 and not hname.startswith("2*I"):
                continue
            obs.append(Ob(f"C16.deriv[{hname}|n={ns}]", "finite", [EV + ":time_evolution_derivatives", EV + ":_generate_circuit_sequence"],
                          deriv_ob(hname, spec, ns),
                          f"sum_k f_k U_k^† O U_k = d/dt(U^† O U) for all t and all 16 matrix units O ({hname}, n_steps={ns})", timeout=600,
                          fallback=vprop.enum_ob("x", [], lambda: [2], _check_native, "").run))
    # ---- sum structure for ALL Hamiltonians and step counts (Engine V over abstract per-term blocks)
    obs.append(_sum_structure_ob())
    obs.append(vprop.enum_ob("C16.native.enum", [EV + ":time_evolution_for_term", EV + ":time_evolution", EV + ":time_evolution_derivatives"],
                             lambda: [0, 1, 2, 3], _check_native,
                             "bounded: natively, per-term circuits equal scipy expm for all strings on <=2 qubits at sample t; sum structure equals the "
                             "concatenation of per-term circuits; derivative vs finite differences (n_steps 1..3)", exhaustive=False))
    from vfw import lean
    obs.append(lean.prelude_ob('C16', 'Euler / exp(-i theta), trigonometric rules'))
    return obs


def _sum_structure_ob():
    import z3
    from vfw import sym, vtypes
    from vfw.sym import Obj, SObj, SSeq
    BLOCK = z3.Function("per_term_circuit", Obj, z3.RealSort(), Obj)

    class AbsCircuit:
        """a circuit seen as the sequence of per-term blocks it was concatenated from"""

        def __init__(self, blocks=None):
            self.blocks = blocks if blocks is not None else SSeq(("lit", []), "list")

        def __add__(self, other):
            return AbsCircuit(SSeq(("cat", SSeq.of(self.blocks).node, SSeq.of(other.blocks).node), "list"))

    def fresh_circuit(name):
        return AbsCircuit(vtypes.mk("List[Obj:Block]", name + ".blocks"))

    def term_stub(term, time):
        return AbsCircuit(SSeq(("lit", [SObj("Block", BLOCK(sym.lift(term), sym.lift(time)))]), "list"))
    sym.OBJ_SCHEMAS["Ham"] = {"terms": "Seq[Obj:Term]"}
    M_ = "len(hamiltonian.terms)"
    inner = "all(circuit.blocks[s * " + M_ + " + i] == BLK(hamiltonian.terms[i], time / n_steps) for s in range({S}) for i in range(" + M_ + "))"
    c = vc.Contract(
        key=EV + ":time_evolution", params={"hamiltonian": "Obj:Ham", "time": "Real", "n_steps": "Int"},
        requires="n_steps >= 1",
        ensures="len(result.blocks) == n_steps * " + M_ + " and " + inner.replace("circuit.", "result.").format(S="n_steps"),
        loops={"for#0": {"invariant": "len(circuit.blocks) == k * " + M_ + " and " + inner.format(S="k"), "types": {"circuit": fresh_circuit}},
               "for#1": {"invariant": "len(circuit.blocks) == _ * " + M_ + " + k and " + inner.format(S="_") +
                                      " and all(circuit.blocks[_ * " + M_ + " + i] == BLK(hamiltonian.terms[i], time / n_steps) for i in range(k))",
                         "types": {"circuit": fresh_circuit}}},
        spec={"BLK": lambda t, x: SObj("Block", BLOCK(sym.lift(t), sym.lift(x)))},
        doc="time_evolution(H, t, n) is, for each of the n steps in order, for each term in listed order, the per-term circuit for time t/n")
    fb = vprop.enum_ob("x", [], lambda: [1], _check_native, "").run
    return vprop.fn_ob("C16", c, {}, call=lambda ns, a: ns["time_evolution"](a["hamiltonian"], a["time"], "Trotter", a["n_steps"]),
                       overrides={"Circuit": AbsCircuit}, extra_stubs=lambda: {"time_evolution_for_term": term_stub}, fallback=fb, obid="C16.sum.structure.all.contract", timeout_ms=60000,
                       desc="for ALL Hamiltonians (any number of terms) and ALL step counts >= 1: the evolution circuit is the concatenation over steps, then over the listed terms, "
                            "of time_evolution_for_term(term, t / n_steps) (two nested loop invariants)")


def _replay_deriv(spec, n_steps, t):
    terms = " + ".join(f"PauliTerm({dict(o)!r}, {float(c)!r})" for o, c in spec if o)
    return f"""
import numpy as np
from orquestra.quantum.evolution import time_evolution, time_evolution_derivatives
from orquestra.quantum.operators import PauliTerm, PauliSum
H = PauliSum([{', '.join(f"PauliTerm({(dict(o) or 'I0')!r}, {float(c)!r})" for o, c in spec)}])
t, n = {t!r}, {n_steps}
rng = np.random.default_rng(0)
A = rng.normal(size=(4, 4)) + 1j * rng.normal(size=(4, 4)); O = A + A.conj().T
psi = np.zeros(4, dtype=complex); psi[0] = 1
def ex(c):
    U = np.array(c.to_unitary(), dtype=complex)
    if U.shape[0] < 4: U = np.kron(U, np.eye(4 // U.shape[0]))
    v = U @ psi
    return np.vdot(v, O @ v).real
cs, fs = time_evolution_derivatives(H, t, n_steps=n)
lhs = sum(f * ex(c) for f, c in zip(fs, cs))
h = 1e-6
rhs = (ex(time_evolution(H, t + h, n_steps=n)) - ex(time_evolution(H, t - h, n_steps=n))) / (2 * h)
OK = bool(abs(lhs - rhs) < 1e-5)
OBSERVED = f"weighted sum {{lhs}} vs numerical derivative {{rhs}}"
"""


def _check_native(mode):
    import numpy as np
    import scipy.linalg
    import sympy
    from orquestra.quantum.evolution import time_evolution, time_evolution_for_term, time_evolution_derivatives
    from orquestra.quantum.operators import PauliSum, PauliTerm, get_sparse_operator
    if mode == 0:
        for ops in _strings(2):
            for t, c in ((0.37, 0.8), (-1.3, 2.5), (7.1, -0.6)):
                n = max(ops) + 1
                U = np.array(time_evolution_for_term(PauliTerm(ops, c), t).to_unitary(), dtype=complex)
                T = scipy.linalg.expm(-1j * t * c * get_sparse_operator(PauliTerm(ops, 1.0), n).toarray())
                if U.shape != T.shape or not np.allclose(U, T, atol=1e-9):
                    return False, f"{_name(ops)} t={t} c={c}: circuit matrix differs from exp(-itcP)"
            for im in (1e-3, -1e-3, -0.5):
                try:
                    time_evolution_for_term(PauliTerm(ops, complex(1.0, im)), 0.1)
                    return False, f"imaginary part {im} accepted"
                except ValueError:
                    pass
        if len(time_evolution_for_term(PauliTerm("I0", 2.0), 0.3).operations) != 0:
            return False, "constant term gives a non-empty circuit"
        return True, "ok"
    if mode == 1:
        t = sympy.Symbol("t")
        for hname, spec in HAMS.items():
            H = PauliSum([PauliTerm(dict(o) if o else "I0", float(c)) for o, c in spec])
            for n in (1, 2, 3):
                got = time_evolution(H, t, n_steps=n).operations
                exp = []
                for _ in range(n):
                    for term in H.terms:
                        exp += time_evolution_for_term(term, t / n).operations
                if list(got) != exp:
                    return False, f"{hname} n_steps={n}: operations are not the concatenation over steps and listed terms"
        try:
            time_evolution(H, 0.1, method="other")
            return False, "unknown method accepted"
        except ValueError:
            pass
        return True, "ok"
    if mode == 3:
        # value level, natively: registers with unused qubits (gaps), overlapping non-commuting terms, repeated terms, 1..4 Trotter steps, several times:
        # the circuit matrix is the ordered product over steps and listed terms of exp(-i (t/n) c P)
        hams = [[({0: "X"}, 0.8), ({0: "Z"}, 0.6), ({2: "Y"}, 0.5)], [({0: "X", 3: "X"}, 0.9), ({0: "Z", 3: "X"}, -0.4)], [({1: "Z"}, 1.0), ({1: "X", 3: "Y"}, 0.3), ({3: "Z"}, -0.7)],
                [({0: "X"}, 0.25), ({0: "Z", 1: "Z"}, 0.5), ({0: "X"}, 0.25)], [({2: "Y"}, 1.1)], [({0: "X", 1: "Y", 2: "Z"}, 0.4), ({1: "X"}, 0.6), ({}, 0.3)]]
        for spec in hams:
            H = PauliSum([PauliTerm(dict(o) if o else "I0", float(c)) for o, c in spec])
            n = max([q for o, _ in spec for q in o], default=0) + 1
            for steps in (1, 2, 3, 4):
                for t in (0.37, -1.3):
                    U = np.array(time_evolution(H, t, n_steps=steps).to_unitary(), dtype=complex)
                    if U.shape[0] < 2 ** n:
                        U = np.kron(U, np.eye(2 ** n // U.shape[0]))
                    W = np.eye(2 ** n, dtype=complex)
                    for _ in range(steps):
                        for o, c in spec:
                            P = get_sparse_operator(PauliTerm(dict(o) if o else "I0", 1.0), n).toarray()
                            W = scipy.linalg.expm(-1j * (t / steps) * c * P) @ W
                    ph = W[np.unravel_index(np.argmax(abs(W)), W.shape)] / U[np.unravel_index(np.argmax(abs(W)), W.shape)] if any(not o for o, _ in spec) else 1.0
                    if not np.allclose(U * ph, W, atol=1e-9):
                        return False, f"time_evolution of {H} with n_steps={steps}, t={t}: circuit matrix differs from the ordered Trotter product (max deviation {abs(U * ph - W).max():.3g})"
        return True, "ok"
    for hname, spec in HAMS.items():
        for n in (1, 2, 3):
            ok, obs = rp.run_code(_replay_deriv(spec, n, 0.37))
            if ok is not True:
                return False, f"{hname} n_steps={n}: {obs}"
    return True, "ok"
