"""C06 - binding parameters commutes with evaluating the circuit.

The code under this property is sympy dispatch (`sub_symbols`, `get_free_symbols`, `bind` on every gate kind).  No
VC generator here models sympy's `subs`; what is decided:
  * Engine F (all inputs): bind / replace_params / free_symbols on every operation kind and on circuits modify nothing;
  * for EVERY gate kind (built-in parametric with 1-3 parameters, custom gate with a symbolic matrix, controlled,
    dagger, nested wrappers, multi-phase operations) x EVERY kind of symbol map (partial, total, superfluous keys,
    numeric values, symbolic values, chained partial steps) the identity
        matrix(bind(g, m)) == matrix(g).subs(m)
    is decided SYMBOLICALLY by sympy (simplify of the difference to the zero matrix), i.e. for all values of the
    remaining symbols - a finite family of gate shapes, complete in the symbol values (assumes sympy.simplify sound);
  * free symbols: exactness (incl. expressions with bound summation variables), first-appearance order for circuits,
    'no free symbols iff every parameter is symbol-free', NotImplementedError for power / exponential.
"""
from __future__ import annotations

import itertools

from vfw import core, frame, vprop
from vfw.core import Ob

LEVEL = "other"
G = "orquestra.quantum.circuits._gates"
OP = "orquestra.quantum.circuits._operations"
C = "orquestra.quantum.circuits._circuit"
MANIFEST = {
    "engine": "engine-F",
    "category": "other",
    "technique": "contract-based verification: frame conditions of bind / replace_params / free_symbols by static ownership analysis; the commutation postcondition matrix(bind(g,m)) == matrix(g).subs(m) is decided symbolically with sympy (difference simplifies to the zero matrix, i.e. for all values of the unbound symbols) over an exhaustive family of gate kinds x symbol-map kinds; free-symbol exactness and ordering by enumeration",
    "text": "For each gate shape and each map shape the commutation identity is a symbolic identity decided by sympy for all symbol values; shapes (gate kinds, wrapper nestings up to depth 2, map kinds) are enumerated exhaustively from a fixed pool - bounded in the shapes, so the level is 'other'. sympy's subs/simplify are trusted.",
    "note": "Trusted: sympy subs / simplify / free_symbols; Engine F summaries. Bound: the enumerated pool of gates, wrappers (depth <= 2) and maps.",
}
TRUSTED = ["props/C06struct.py: wrapped gates, parameters and symbol maps opaque; sub_symbols / get_free_symbols and the wrapped gate's own methods uninterpreted", "sympy 1.9 (subs, simplify, free_symbols) as executed natively", "vfw/frame.py"]
ASSUMPTIONS = ["sympy.simplify(A - B) == 0 is accepted as a decision of A == B for all symbol values (sound if sympy is)", "bounded in gate / wrapper / map shapes (listed)"]
EXTRA = {"explanation": "symbolic identities decided by sympy on the real gate objects; frame obligations decided statically"}
F_OPS = [G + ":MatrixFactoryGate.bind", G + ":ControlledGate.bind", G + ":Dagger.bind", G + ":GateOperation.bind", G + ":MatrixFactoryGate.free_symbols", G + ":Power.free_symbols",
         G + ":GateOperation.free_symbols", C + ":Circuit.bind", C + ":Circuit.free_symbols", OP + ":get_free_symbols", OP + ":sub_symbols",
         "orquestra.quantum.circuits._wavefunction_operations:MultiPhaseOperation.bind", "orquestra.quantum.circuits._wavefunction_operations:MultiPhaseOperation.free_symbols"]


def _pool():
    import sympy
    from orquestra.quantum.circuits import RX, RZ, U3, XY, CPHASE, CustomGateDefinition, MultiPhaseOperation, X
    a, b, c, d = sympy.symbols("alpha beta gamma_1 delta")
    k = sympy.Symbol("k")
    from orquestra.quantum.circuits import Delay
    unused = CustomGateDefinition("unused", sympy.Matrix([[sympy.cos(sympy.Symbol("u1")), -sympy.sin(sympy.Symbol("u1"))], [sympy.sin(sympy.Symbol("u1")), sympy.cos(sympy.Symbol("u1"))]]),
                                  (sympy.Symbol("u1"), sympy.Symbol("u2")))          # the matrix ignores its second declared parameter
    cust = CustomGateDefinition("cg", sympy.Matrix([[sympy.cos(a), -sympy.sin(b)], [sympy.sin(b) * sympy.exp(sympy.I * a), sympy.cos(a)]]), (a, b))
    base = {
        "RX(a)": RX(a), "RZ(a*b+1)": RZ(a * b + 1), "RX(2*a+b)": RX(2 * a + b), "RZ(a-b+c)": RZ(a - b + c),
        # single-symbol parameters that are NOT linear in the symbol (products, quotients, functions, powers)
        "RX(3*a**2)": RX(3 * a ** 2), "RZ(2*cos(a))": RZ(2 * sympy.cos(a)), "RX(2/a)": RX(2 / a), "RZ(a*exp(a))": RZ(a * sympy.exp(a)), "RX(a*(a+1))": RX(a * (a + 1)),
        "Delay(a)": Delay(a), "Delay(a+b)": Delay(a + b), "custom(unused parameter)": unused(a, 2 * b),
        "RZ(pi*b**3/4)": RZ(sympy.pi * b ** 3 / 4), "RX(2*sqrt(a))": RX(2 * sympy.sqrt(a)), "RZ(-a)": RZ(-a), "RX(a/3)": RX(a / 3), "U3(a,b,c)": U3(a, b, c), "U3(a,0.3,a+b)": U3(a, 0.3, a + b), "XY(2*c)": XY(2 * c), "CPHASE(a/2)": CPHASE(a / 2),
        "custom(c, a+d)": cust(c, a + d), "custom(0.5, b)": cust(0.5, b), "RX(Sum)": RX(sympy.Sum(a * k, (k, 1, 3))), "RX(1.5)": RX(1.5), "X": X,
    }
    wrappers = {"id": lambda g: g, "c1": lambda g: g.controlled(1), "dag": lambda g: g.dagger, "c2.dag": lambda g: g.controlled(2).dagger, "dag.c1": lambda g: g.dagger.controlled(1)}
    maps = {
        "total-numeric": {a: 0.3, b: -1.2, c: 2.0, d: 0.7}, "partial": {a: 0.3}, "superfluous": {a: 0.3, sympy.Symbol("zz"): 9.0}, "empty": {},
        "symbolic-values": {a: d + 1, b: 2 * c}, "only-others": {sympy.Symbol("zz"): 1.0},
        "chained-symbolic": {a: 2 * d, b: d ** 2},
        "zero-int": {a: 0, b: -1.2, c: 0}, "zero-float": {a: 0.0, d: 0.0}, "zero-sympy": {a: sympy.Integer(0), b: sympy.Float(0), c: sympy.S.Zero, d: 0},
        "negative-and-one": {a: -1, b: 1, c: -2, d: 1.0},
    }
    return base, wrappers, maps, (a, b, c, d, k)


def _cases():
    base, wrappers, maps, _ = _pool()
    for g in base:
        for w in wrappers:
            for m in maps:
                yield (g, w, m)


def _zero(M):
    """entry-wise zero test: exact by sympy where it simplifies; numeric for constant entries; numeric sampling at three
    points as the last resort when sympy leaves a symbolic residue it cannot simplify"""
    import random
    import sympy
    rng = random.Random(3)
    for x in M:
        x = sympy.sympify(x)
        if x == 0:
            continue
        if not x.free_symbols:
            if abs(complex(x.evalf())) > 1e-9:
                return False
            continue
        y = sympy.simplify(x)
        if y == 0:
            continue
        for _ in range(3):
            env = {s: rng.uniform(-2, 2) for s in y.free_symbols}
            if abs(complex(y.subs(env).evalf())) > 1e-8:
                return False
    return True


def _check_case(case):
    import sympy
    gname, wname, mname = case
    base, wrappers, maps, syms = _pool()
    g = wrappers[wname](base[gname])
    m = maps[mname]
    k = syms[4]
    before_params = tuple(g.params)
    bound = g.bind(m)
    if tuple(g.params) != before_params:
        return False, "bind modified the gate"
    A = bound.matrix
    B = sympy.Matrix(g.matrix).subs(m)
    if sympy.Matrix(A).shape != B.shape or not _zero(sympy.Matrix(A) - B):
        return False, f"matrix(bind({gname}.{wname}, {mname})) differs from matrix.subs: {sympy.Matrix(A) - B}"
    if type(bound) is not type(g) or bound.num_qubits != g.num_qubits:
        return False, f"bind changed the gate kind / qubit count: {type(g).__name__} -> {type(bound).__name__}"
    # free symbols are exactly the symbols the parameters still depend on
    want = set()
    for p in bound.params:
        if isinstance(p, sympy.Expr):
            want |= p.free_symbols
    if set(bound.free_symbols) != want or k in set(bound.free_symbols):
        return False, f"free symbols of the bound gate {set(bound.free_symbols)} expected {want}"
    if list(bound.free_symbols) != sorted(bound.free_symbols, key=str):
        return False, "free symbols not in canonical order"
    # partial steps equal one step (numeric or disjoint)
    if mname == "total-numeric":
        items = list(m.items())
        step = g
        for kk, vv in items:
            step = step.bind({kk: vv})
        if step != bound or list(step.free_symbols):
            return False, "binding in partial steps differs from binding once"
        if bound.free_symbols:
            return False, "symbols left after a total binding"
    op = bound(*range(bound.num_qubits))
    if set(op.free_symbols) != want:
        return False, "operation free symbols"
    return True, "ok"


def _check_circuit(i):
    import numpy as np
    import sympy
    from orquestra.quantum.circuits import Circuit, RX, RY, RZ, U3, X, CNOT, MultiPhaseOperation, T
    a, b, c, d = sympy.symbols("alpha beta gamma_1 delta")
    ops = [RX(b)(1), X(0), U3(a, b, 0.5)(2), RZ(d * a)(0), CNOT(0, 3), RY(c)(1).gate.controlled(1)(3, 1), MultiPhaseOperation((a, 0.1, c + d, 0.0))]
    circ = Circuit(ops, n_qubits=6)
    if circ.free_symbols != [b, a, d, c]:
        return False, f"circuit free symbols {circ.free_symbols} are not in first-appearance order [beta, alpha, delta, gamma_1]"
    m1, m2 = {a: 0.25, sympy.Symbol("unused"): 3}, {b: 1.0, c: -0.5, d: 2.0}
    c1 = circ.bind(m1)
    if c1.n_qubits != 6 or c1.free_symbols != [b, d, c] or circ.free_symbols != [b, a, d, c]:
        return False, f"partial bind: width {c1.n_qubits}, free symbols {c1.free_symbols}"
    c2 = c1.bind(m2)
    c12 = circ.bind({**m1, **m2})
    if c2 != c12 or c2.free_symbols or c2.n_qubits != 6:
        return False, "binding in two steps differs from binding once / symbols left / width changed"
    for x, y in zip(c2.operations, circ.operations):
        if type(x) is not type(y) or x.qubit_indices != y.qubit_indices:
            return False, "bind changed an operation kind or its qubits"
    gates_only = Circuit([RX(b)(1), U3(a, b, c)(2), RZ(d * a)(0), RY(c).controlled(1)(3, 1)], n_qubits=4)   # symbolic gates only (mixed numeric/symbolic lifting is an environment issue)
    U_sym = gates_only.to_unitary()
    U_num = np.array(gates_only.bind({**m1, **m2}).to_unitary(), dtype=complex)
    U_sub = np.array(sympy.Matrix(U_sym).subs({**m1, **m2}).evalf(), dtype=complex)
    if not np.allclose(U_num, U_sub, atol=1e-9):
        return False, "circuit matrix: bind then evaluate differs from evaluate then substitute"
    # symbol-free circuits: same width, equal circuit; "no free symbols iff every parameter is symbol-free"
    free = Circuit([X(0), RX(0.3)(1)], n_qubits=5)
    fb = free.bind({a: 1.0})
    if fb != free or fb.n_qubits != 5 or free.free_symbols:
        return False, f"binding a symbol-free circuit with idle qubits changed it (width {fb.n_qubits})"
    # wrappers that cannot bind refuse explicitly - also inside circuits, also when there is nothing to bind
    for g in (T.power(2), T.exp, RX(0.2).power(0.5), T.exp.power(2)):
        for target in (g, g(0), Circuit([g(0)], n_qubits=2)):
            try:
                target.bind({a: 1.0})
                return False, f"bind on {target} did not raise NotImplementedError"
            except NotImplementedError:
                pass
    # non-gate operations: a circuit holding a reset / phase operation binds like any other (empty, irrelevant, partial and total maps)
    from orquestra.quantum.circuits import ResetOperation
    for mp in ({}, {sympy.Symbol("unused"): 1.0}, {a: 0.25}, {a: 0.25, b: 1.0, c: -0.5, d: 2.0}):
        cr = Circuit([X(0), ResetOperation(1), RX(a)(1), MultiPhaseOperation((b, 0.5)), ResetOperation(0)], n_qubits=3)
        br = cr.bind(mp)
        if br.n_qubits != 3 or [type(o) for o in br.operations] != [type(o) for o in cr.operations] or [o.qubit_indices for o in br.operations if hasattr(o, "qubit_indices")] != \
                [o.qubit_indices for o in cr.operations if hasattr(o, "qubit_indices")]:
            return False, f"binding {mp} on a circuit with reset operations changed its structure"
        if set(br.free_symbols) != set(cr.free_symbols) - set(mp) or cr.free_symbols != [a, b]:
            return False, f"free symbols after binding {mp} on a circuit with reset operations: {br.free_symbols}"
    r = ResetOperation(2)
    if r.bind({a: 1.0}).qubit_indices != (2,) or list(r.free_symbols) or r.replace_params(()).qubit_indices != (2,):
        return False, "ResetOperation.bind / replace_params does not return a reset on the same qubit"
    # symbols carrying assumptions and Dummy symbols are symbols like any other: binding through the circuit equals binding each gate
    special = [sympy.Symbol("r", real=True), sympy.Symbol("p", positive=True), sympy.Symbol("nn", nonnegative=True), sympy.Dummy("dmy"), sympy.Symbol("i", integer=True)]
    vals = [0.3, 1.7, 0.0, -0.6, 2]
    cs = Circuit([RX(special[0])(0), U3(special[1], 2 * special[2], special[3] + special[0])(1), RZ(special[4] * special[1])(0), MultiPhaseOperation((special[0], special[3]))], n_qubits=2)
    full = dict(zip(special, vals))
    bs = cs.bind(full)
    if bs.free_symbols:
        return False, f"total binding of symbols with assumptions / Dummy symbols through Circuit.bind left free symbols {bs.free_symbols}"
    for ob, oc in zip(bs.operations, cs.operations):
        if ob != oc.bind(full):
            return False, f"Circuit.bind differs from binding the operation itself for {oc}"
    half = cs.bind({special[0]: 0.3, special[3]: -0.6})
    if set(half.free_symbols) != {special[1], special[2], special[4]} or half.bind({special[1]: 1.7, special[2]: 0.0, special[4]: 2}) != bs:
        return False, "partial then total binding of symbols with assumptions differs from binding once"
    # two DIFFERENT symbols that print the same (different assumptions, two Dummy symbols of one name) stay different: binding one leaves the other
    th_plain, th_real = sympy.Symbol("theta"), sympy.Symbol("theta", real=True)
    d1, d2 = sympy.Dummy("t"), sympy.Dummy("t")
    for x1, x2 in ((th_plain, th_real), (d1, d2)):
        cc = Circuit([RX(x1)(0), RY(x2)(0), MultiPhaseOperation((x1, x2))], n_qubits=1)
        if len(cc.free_symbols) != 2:
            return False, f"two different symbols named {x1} are reported as {cc.free_symbols}"
        one = cc.bind({x1: 0.4})
        if set(one.free_symbols) != {x2} or one.operations[1].params != (x2,) or one.operations[0].params[0] != 0.4:
            return False, f"binding one of two same-named symbols: free symbols {one.free_symbols}, parameters {[o.params for o in one.operations]}"
        both = cc.bind({x1: 0.4, x2: -1.3})
        if both.free_symbols or both != one.bind({x2: -1.3}) or float(both.operations[1].params[0]) != -1.3:
            return False, "a map holding two same-named symbols does not bind each to its own value"
    # two-step binding through a symbolic value: t -> 2*s, then s -> number
    s_, t_ = sympy.symbols("s t")
    for expr, val in ((t_ ** 2, (2 * 0.35) ** 2), (3 * t_ ** 2, 3 * (2 * 0.35) ** 2), (2 * sympy.cos(t_), 2 * float(sympy.cos(0.7))), (t_ / 3, 0.7 / 3)):
        g2 = RX(expr).bind({t_: 2 * s_}).bind({s_: 0.35})
        if g2.free_symbols or abs(complex(g2.params[0]) - val) > 1e-12:
            return False, f"RX({expr}): binding t -> 2*s then s -> 0.35 gives parameters {g2.params}, expected {val}"
    bound_var = RX(sympy.Sum(a * sympy.Symbol("k"), (sympy.Symbol("k"), 1, 3)))
    if list(bound_var.free_symbols) != [a] or Circuit([bound_var(0)]).bind({a: 0.5}).free_symbols:
        return False, f"a bound summation variable is reported as a free symbol: {bound_var.free_symbols}"
    return True, "ok"


def _pair_pool():
    """gates that share one parameter tuple and differ only in what the name does not show (every controlled gate is called "Control")"""
    import sympy
    from orquestra.quantum.circuits import RX, RY, PHASE, CPHASE, XX
    th = sympy.Symbol("theta")
    out = []
    for mk in (RX, RY, PHASE):
        g = mk(th)
        out += [g, g.controlled(1), g.controlled(2), g.dagger, g.controlled(1).dagger, g.dagger.controlled(1)]
    for mk in (CPHASE, XX):
        g = mk(th)
        out += [g, g.controlled(1), g.dagger]
    return out


def _check_pair(case):
    """Circuit.bind == binding each operation with the same map, for two ADJACENT (and two separated) operations taken from the pool"""
    import sympy
    from orquestra.quantum.circuits import Circuit, H
    i, j = case
    pool = _pair_pool()
    g1, g2 = pool[i], pool[j]
    th = sympy.Symbol("theta")
    for mp in ({th: 0.4}, {th: sympy.Symbol("phi") / 2}, {sympy.Symbol("other"): 1.0}):
        for sep in (False, True):
            ops = [g1(*range(g1.num_qubits))] + ([H(0)] if sep else []) + [g2(*range(g2.num_qubits))] + [g1(*reversed(range(g1.num_qubits)))]
            c = Circuit(ops, n_qubits=4)
            b = c.bind(mp)
            want = [o.bind(mp) for o in ops]
            if len(b.operations) != len(want) or any(x != y or str(x) != str(y) or x.gate.num_qubits != y.gate.num_qubits for x, y in zip(b.operations, want)):
                return False, f"Circuit.bind({mp}) of {c} gives {b.operations}, binding each operation gives {want}"
    return True, "ok"


def _placement_gates():
    import sympy
    from orquestra.quantum.circuits import RX, RY, U3, MS, CPHASE, XY, CustomGateDefinition
    a, b = sympy.symbols("a b")
    cust = CustomGateDefinition("c06_ph2", sympy.Matrix([[1, 0, 0, 0], [0, sympy.exp(sympy.I * a), 0, 0], [0, 0, sympy.cos(b), -sympy.sin(b)], [0, 0, sympy.sin(b), sympy.cos(b)]]), (a, b))
    return [RX(a).controlled(1), U3(a, b, a + b).controlled(1), MS(a, b), cust(a, b), XY(a), CPHASE(b).dagger, RY(a).controlled(2), RX(b).dagger.controlled(1), CPHASE(a).controlled(1), cust(b, a).controlled(1)]


def _placements():
    import itertools
    for gi, g in enumerate(_placement_gates()):
        k = g.num_qubits
        for n in (k, k + 1):
            for qs in itertools.permutations(range(n), k):
                if n == k or (gi % 2 == 0 and qs[0] > qs[-1]) or (gi % 2 == 1 and qs[0] < qs[-1]):
                    yield (gi, n, qs)


def _check_placement(case):
    """a symbolic gate on every ordered qubit tuple of a register exactly as wide as the gate (and one wider): the library's symbolic circuit matrix with
    values substituted == the matrix of the bound circuit == the gate's matrix at those values placed on the named qubits"""
    import numpy as np
    import sympy
    from orquestra.quantum.circuits import Circuit
    from vfw import rcheck
    gi, n, qs = case
    g = _placement_gates()[gi]
    a, b = sympy.symbols("a b")
    vals = {a: 0.37, b: -1.21}
    c = Circuit([g(*qs)], n_qubits=n)
    want = rcheck.embed(rcheck.npmat(g.matrix.subs(vals)), list(qs), n)
    sym = rcheck.npmat(sympy.Matrix(c.to_unitary()).subs(vals))
    num = rcheck.npmat(c.bind(vals).to_unitary())
    if not np.allclose(sym, want, atol=1e-9):
        return False, f"{g} on qubits {qs} of {n}: the symbolic circuit matrix with {vals} substituted is not the gate matrix on those qubits"
    if not np.allclose(num, want, atol=1e-9):
        return False, f"{g} on qubits {qs} of {n}: the matrix of the bound circuit is not the gate matrix on those qubits"
    return True, "ok"


def build(tier, seed):
    obs = []
    fb = vprop.enum_ob("x", [], lambda: range(1), _check_circuit, "").run

    def frame_ob(key):
        def run():
            st, finds, summ = frame.frame_outcome(key)
            txt = "; ".join(f"{f.kind} at {f.where}: {f.what} [{f.target}]" for f in finds[:4])
            if st == "discharged":
                return core.discharged("engine-F")
            if st == "refuted":
                return core.refuted("engine-F", f"{key.split(':')[1]} writes through an argument: {txt}", cex=[f.__dict__ for f in finds[:5]])
            return core.undecided("engine-F", txt)
        return Ob(f"C06.frame[{key.split(':')[1]}]", "proof", [key], run, f"{key.split(':')[1]} modifies neither the receiver nor the symbol map", fallback=fb)
    for k in F_OPS:
        obs.append(frame_ob(k))
    from vfw import cmodel
    cs = cmodel.contracts()

    def setup_self(args, ns):
        args["self"] = cmodel.mk_circuit(ns, "self")
        cmodel.axioms()
    obs.append(vprop.fn_ob("C06", cs["bind"], {}, call=lambda ns, a: a["self"].bind(a["symbols_map"]), setup=setup_self, overrides=cmodel.overrides(), fallback=fb,
                           obid="C06.circuit.bind.all_lengths.contract", timeout_ms=30000, replay_code=cmodel.replay("bind"),
                           desc="for circuits of ANY length: Circuit.bind binds every operation with the same map, in order, keeps the register width and leaves the receiver unchanged"))
    from props import C06struct
    obs.extend(C06struct.build(fb))
    obs.append(vprop.enum_ob("C06.commute.enum", F_OPS[:4] + [G + ":CustomGateMatrixFactory.__call__"], _cases, _check_case,
                             "for every gate kind x wrapper (depth <= 2) x symbol-map kind of the pool: matrix(bind(g,m)) == matrix(g).subs(m) decided symbolically by sympy (all values of the "
                             "unbound symbols); same gate kind; free symbols exact and ordered; partial steps equal one step", timeout=1500))
    obs.append(vprop.enum_ob("C06.circuit.enum", [C + ":Circuit.bind", C + ":Circuit.free_symbols", G + ":Power.bind", G + ":Exponential.bind"], lambda: range(1), _check_circuit,
                             "bounded: circuit free symbols in first-appearance order, partial/total/superfluous maps, width kept (also symbol-free circuits with idle qubits), "
                             "non-gate operations, power / exponential refuse with NotImplementedError, bound summation variables are not free symbols", exhaustive=False))
    import itertools
    L = len(_pair_pool())
    obs.append(vprop.enum_ob("C06.bind_each.enum", [C + ":Circuit.bind", G + ":GateOperation.bind", G + ":ControlledGate.bind", G + ":Dagger.bind"], lambda: itertools.product(range(L), repeat=2), _check_pair,
                             "bounded: every ordered pair of 24 gates that share one parameter tuple and differ only in the wrapped gate / number of controls / dagger, adjacent and separated, "
                             "3 kinds of map: Circuit.bind is operation-wise binding", timeout=900))
    obs.append(vprop.enum_ob("C06.symbolic_placements.enum", [C + ":Circuit.to_unitary", G + ":GateOperation.lifted_matrix", C + ":Circuit.bind"], _placements, _check_placement,
                             "bounded: 10 symbolic multi-qubit gates (controlled, daggered, custom, asymmetric) on every ordered qubit tuple of a register exactly as wide as the gate and on the "
                             "descending / ascending tuples of a register one wider: symbolic circuit matrix then substitute == bind then evaluate == definition", timeout=900))
    return obs
