"""C18, rule chaining under contract (Engine V): `decompose_operation` / `decompose_operations` for ANY list of rules and ANY operations.

Induction on the length of the rule list (the recursive call is replaced by the contract itself and is checked to be made on a strictly shorter list):

    if every rule's production, wherever its predicate holds, is a sequence of operations whose ordered action equals the action of the operation
    (the hypothesis each concrete rule is proved against - `U3GateToRotation`: C18.u3.* / C18.cu3.*),
    then the ordered action of decompose_operation(op, rules) equals the action of op, and the ordered action of
    decompose_operations(ops, rules) equals the ordered action of ops - in the given order, for every number of rules and operations.

Actions live in an abstract monoid: ACT(op), the ordered product PROD(n, i -> a_i) of a sequence of actions with PROD(1, a) = a_0, and the flattening
law "the product of a concatenation of sequences is the product of their products" (`List.prod_flatten`, Lean twin `prod_flatten_rule`), used through its
point-wise congruence instance.
"""
from __future__ import annotations

import z3

from vfw import core, sym, vcontract as vc, vprop, vrt, vtypes
from vfw.sym import Obj, SSeq, SInt, SObj

DM = "orquestra.quantum.decompositions._decomposition"
I = z3.IntSort()
ACT = z3.Function("action_of_operation", Obj, Obj)
PROD = z3.Function("ordered_product", I, z3.ArraySort(I, Obj), Obj)        # product of the first n entries, in order
PRED = z3.Function("rule.predicate", Obj, Obj, z3.BoolSort())
PRODN = z3.Function("rule.production", Obj, Obj, Obj)
RECF = z3.Function("decompose_with_remaining_rules", Obj, Obj)             # op -> the sequence the recursive call returns (remaining rules fixed)
DECF = z3.Function("decompose_operation_with_all_rules", Obj, Obj)           # op -> the sequence decompose_operation returns (rule list fixed)
UNIT = z3.Const("action_of_the_empty_sequence", Obj)
SEQ_OP = ("seq", ("obj", "Op"), "list")
RESULT_FUNS = (RECF, DECF)


def seq_of(o):
    return vtypes.wrap(SEQ_OP, o)


def len_arr(o):
    s = seq_of(o)
    return sym.lift(s.length()), s.node[2]


def act_of_seq_obj(o):
    """ordered action of the sequence object o"""
    n, arr = len_arr(o)
    j = z3.Int("j!as")
    return PROD(n, z3.Lambda([j], ACT(z3.Select(arr, j))))


def actseq(x):
    """ordered action of a sequence value built by the code: a literal list, a sequence object, or the flattening of per-element recursive results"""
    s = SSeq.of(x)
    node = s.node
    while node[0] == "cat" and node[1][0] == "lit" and not node[1][1]:
        node = node[2]
    if node[0] == "lit":
        vals = node[1]
        if not vals:
            return UNIT
        if len(vals) != 1:
            raise sym.Unsupported("literal sequence of length > 1")
        return ACT(sym.lift(vals[0]))
    if node[0] == "arr":
        n, arr = sym.lift(s.length()), node[2]
        j = z3.Int("j!as")
        return PROD(n, z3.Lambda([j], ACT(z3.Select(arr, j))))
    if node[0] == "fun":
        # an identity comprehension over a sequence object: the same sequence
        k = z3.Int("k!in")
        c = sym.cur()
        c.nofork += 1
        try:
            el = sym.lift(SSeq(node, "list").get(SInt(k)))
        finally:
            c.nofork -= 1
        if z3.is_select(el) and el.arg(1).eq(k) and z3.is_app(el.arg(0)) and el.arg(0).num_args() == 1:
            cand = el.arg(0).arg(0)
            n_c, arr_c = len_arr(cand)
            if arr_c.eq(el.arg(0)) and z3.is_true(z3.simplify(sym.lift(SSeq(node, "list").length()) == n_c)):
                return act_of_seq_obj(cand)
        raise sym.Unsupported("ordered action of a computed sequence")
    if node[0] == "flat":
        outer = node[1]
        n = sym.lift(outer.length())
        j = z3.Int("j!as")
        c = sym.cur()
        c.nofork += 1
        try:
            inner = SSeq.of(outer.get(SInt(j)))
        finally:
            c.nofork -= 1
        # the part for element j must be exactly the sequence returned by the recursive call on that element (read through an identity comprehension)
        k = z3.Int("k!in")
        c.nofork += 1
        try:
            el = sym.lift(inner.get(SInt(k)))
        finally:
            c.nofork -= 1
        src = None
        if z3.is_select(el) and el.arg(1).eq(k) and z3.is_app(el.arg(0)) and el.arg(0).num_args() == 1:
            cand = el.arg(0).arg(0)
            n_c, arr_c = len_arr(cand)
            if z3.is_app(cand) and any(cand.decl().eq(f) for f in RESULT_FUNS) and arr_c.eq(el.arg(0)) and z3.is_true(z3.simplify(sym.lift(inner.length()) == n_c)):
                src = cand
        if src is None:
            raise sym.Unsupported("flattened sequence whose parts are not results of the recursive call")
        # flattening law: the product of the concatenation is the product of the per-element products; each per-element product is, by the induction
        # hypothesis (applied here, under the binder, where the solver does not instantiate axioms), the action of the element itself
        return PROD(n, z3.Lambda([j], ACT(src.arg(0))))
    raise sym.Unsupported(f"ordered action of a {node[0]} sequence")


def prod_congr(t1, t2):
    """instance of: products of point-wise equal sequences of equal length are equal (`prod_congr_pointwise`, lean/Prelude.lean)"""
    if not (z3.is_app(t1) and z3.is_app(t2) and t1.decl().eq(PROD) and t2.decl().eq(PROD)):
        return
    n1, a1, n2, a2 = t1.arg(0), t1.arg(1), t2.arg(0), t2.arg(1)
    i = z3.Int("i!pc")
    sym.cur().axioms.append(z3.Implies(z3.And(n1 == n2, z3.ForAll([i], z3.Implies(z3.And(0 <= i, i < n1), z3.Select(a1, i) == z3.Select(a2, i)))), t1 == t2))


def none_applies(rules, o):
    """no rule of the (symbolic) list applies to the operation o"""
    rs = SSeq.of(rules)
    i = z3.Int("i!na")
    c = sym.cur()
    c.nofork += 1
    try:
        ri = sym.lift(rs.get(SInt(i)))
    finally:
        c.nofork -= 1
    return z3.ForAll([i], z3.Implies(z3.And(0 <= i, i < sym.lift(rs.length())), z3.Not(PRED(ri, o))))


def is_singleton(seq_obj, o):
    n, arr = len_arr(seq_obj)
    return z3.And(n == 1, z3.Select(arr, 0) == o)


def axioms(state):
    c = sym.cur()
    if "c18" in c.axioms_done:
        return
    c.axioms_done.add("c18")
    r, o = z3.Const("r!18", Obj), z3.Const("o!18", Obj)
    a = z3.Const("a!18", z3.ArraySort(I, Obj))
    c.axioms += [
        # hypothesis on every rule: where the predicate holds, the produced sequence has the operation's action
        z3.ForAll([r, o], z3.Implies(PRED(r, o), act_of_seq_obj(PRODN(r, o)) == ACT(o)), patterns=[PRODN(r, o)]),
        # induction hypothesis: the recursive call (remaining, strictly fewer rules) preserves the action and returns [o] when none of the remaining rules applies
        z3.ForAll([o], z3.And(act_of_seq_obj(RECF(o)) == ACT(o), z3.Implies(none_applies(state["rest"], o), is_singleton(RECF(o), o))), patterns=[RECF(o)]),
        # contract of decompose_operation as used by decompose_operations (proved by the obligation above, same rule list)
        z3.ForAll([o], z3.And(act_of_seq_obj(DECF(o)) == ACT(o), z3.Implies(none_applies(state["rules"], o), is_singleton(DECF(o), o))), patterns=[DECF(o)]),
        z3.ForAll([a], PROD(1, a) == z3.Select(a, 0), patterns=[PROD(1, a)]),
    ]


def build(fb=None):
    state = {}
    sym.OBJ_SCHEMAS["Op"] = {}
    sym.OBJ_SCHEMAS["Rule"] = {"predicate": lambda self: (lambda op: sym.wrap_expr(PRED(self.e, sym.lift(op)))),
                               "production": lambda self: (lambda op: seq_of(PRODN(self.e, sym.lift(op))))}

    def setup(args, ns):
        rules = args["decomposition_rules"]
        state["rules"] = rules
        state["rest"] = sym.seq_slice(rules, 1, rules.length())
        state["outer_len"] = rules.length()
        axioms(state)

    def rec_stub(op, rules):
        """the function's own contract at the recursive call; sound by induction because the call is on a strictly shorter rule list (checked)"""
        c = sym.cur()
        c.check("decompose_operation.call[decompose_operation].decreases", sym.lift(SSeq.of(rules).length()) < sym.lift(state["outer_len"]),
                "the recursive call is made on strictly fewer rules")
        return seq_of(RECF(sym.lift(op)))

    def preserves(result, operation):
        got = actseq(result)
        want = ACT(sym.lift(operation))
        # the flattening law gives a product of per-element products; by the induction hypothesis each factor is the element's action
        if z3.is_app(got) and got.decl().eq(PROD):
            n = got.arg(0)
            for cand in state.get("bases", []):
                prod_congr(got, cand)
        r = SSeq.of(result)
        c = sym.cur()
        c.nofork += 1
        try:
            if r.node[0] == "flat" or (isinstance(r.length(), int) and r.length() == 0):
                unchanged = z3.BoolVal(False)
            else:
                unchanged = z3.And(sym.lift(r.length()) == 1, sym.lift(r.get(0)) == sym.lift(operation))
        finally:
            c.nofork -= 1
        return sym.wrap_expr(z3.And(got == want, z3.Implies(none_applies(state["rules"], sym.lift(operation)), unchanged)))

    def track_base(seq):
        """remember the product over the sequence the comprehension runs over (its point-wise congruence with the flattened product is instantiated)"""
        s = SSeq.of(seq)
        if s.node[0] == "arr":
            j = z3.Int("j!as")
            state.setdefault("bases", []).append(PROD(sym.lift(s.length()), z3.Lambda([j], ACT(z3.Select(s.node[2], j)))))
        return seq
    c1 = vc.Contract(key=DM + ":decompose_operation", params={"operation": "Obj:Op", "decomposition_rules": "Seq[Obj:Rule]"},
                     ensures="PRESERVES(result, operation)", spec={"PRESERVES": preserves},
                     doc="for ANY rule list: an operation no rule applies to comes back as [operation] (in particular with an empty rule list); the ordered action of the decomposition equals the action of the operation, given that every rule's production does where its "
                         "predicate holds (induction on the number of rules; the recursive call enters by this contract on strictly fewer rules)")
    obs = [vprop.fn_ob("C18", c1, {}, call=lambda ns, a: ns["_orig_decompose_operation"](a["operation"], a["decomposition_rules"]), setup=setup, fallback=fb,
                       obid="C18.decompose_operation.all_rule_lists.contract", desc=c1.doc, timeout_ms=60000, ob_timeout=90.0, max_paths=60,
                       extra_stubs=lambda: {"decompose_operation": rec_stub, "__track_base": track_base})]
    # ---- decompose_operations: the per-operation results concatenated in the order of the operations -------------------------------------------------
    def setup2(args, ns):
        state["rules"] = args["decomposition_rules"]
        state["rest"] = sym.seq_slice(args["decomposition_rules"], 1, args["decomposition_rules"].length())
        axioms(state)

    def preserves_all(result, operations):
        return sym.wrap_expr(actseq(result) == actseq(operations))
    c2 = vc.Contract(key=DM + ":decompose_operations", params={"operations": "Seq[Obj:Op]", "decomposition_rules": "Seq[Obj:Rule]"},
                     ensures="PRESERVES_ALL(result, operations)", spec={"PRESERVES_ALL": preserves_all},
                     doc="for ANY operation list and rule list: the result is the concatenation, in the order of the operations, of the per-operation decompositions, so its "
                         "ordered action equals the ordered action of the operations (callee decompose_operation by its contract)")
    obs.append(vprop.fn_ob("C18", c2, {}, setup=setup2, fallback=fb, obid="C18.decompose_operations.all_lists.contract", desc=c2.doc, timeout_ms=60000,
                           extra_stubs=lambda: {"decompose_operation": lambda op, rules: (seq_of(DECF(sym.lift(op))) if rules is state["rules"] else
                                                                                            (_ for _ in ()).throw(sym.Unsupported("callee invoked with another rule list")))}))
    return obs
