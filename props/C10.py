"""C10 - statistics computed from measurements are the exact sample statistics.

The statistics code is vectorised numpy over Python dict views: outside the VC generators' fragment.  What contracts
decide here:
  * frame contracts (Engine F, all inputs): the query methods do not modify the measurement set or the operator;
  * the algebraic lemma the correlation code relies on - eps_A(b) * eps_B(b) = eps_{A symmetric-difference B}(b) for
    all subsets A, B of a W-qubit register and all bitstrings b - is decided by z3 over bit-vectors (W = 12);
  * the value-level contracts (values, correlations, covariances with/without Bessel, counts, distribution,
    parities) are checked EXHAUSTIVELY over all multisets of <= 4 shots on <= 3 qubits x operator shapes with
    overlapping, repeated and constant terms, and on wide registers (qubit indices >= 10) - bounded stand-in.
"""
from __future__ import annotations

import itertools

import z3

from vfw import core, frame, vprop
from vfw.core import Ob

LEVEL = "proof"
M = "orquestra.quantum.measurements.measurements"
PA = "orquestra.quantum.measurements.parities"
MANIFEST = {
    "engine": "engine-V",
    "category": "proof",
    "technique": "contract-based deductive verification (Engine V: the real function text executed over z3-backed symbolic values with an abstract numpy, loops cut by sidecar invariants, callees by contract): check_parity_of_vector (entry k = 1 iff row k has even parity on the marked qubits), check_parity (tuple and string form, loop invariant), get_expectation_value_from_frequencies (= sum of count x (+-1) / total), Measurements.get_expectation_values (values, correlations through the symmetric difference, covariances with / without Bessel; two nested loop invariants), get_parities_from_measurements (even / odd tallies per term and equal / different tallies per ordered pair; three loop invariants), Measurements.get_distribution (= counts / number of shots; loop invariant over a symbolic dictionary) - for ALL shot tables, operators and marked-qubit lists; the parity-product lemma by z3 bit-vectors; frame conditions by static ownership analysis; counts <-> bitstrings conversions and numeric float paths by exhaustive small-domain enumeration (bounded)",
    "text": "Every statistic named in the property (term expectation = coefficient x sample mean of the eigenvalue, correlations, covariances with both denominators, parity tallies, empirical distribution) is a postcondition discharged for all inputs from the current text of the function that computes it, each callee entering through its own contract. What remains bounded: the Counter / tuple-to-string conversions behind get_counts and add_counts (collections.Counter is an assumed contract: the table of distinct shots with multiplicities) - 'counts sum to the number of shots' and 'from_counts / get_counts are inverse' are decided by exhaustive enumeration only.",
    "note": "Trusted: the abstract numpy used by this text (fancy column indexing, sum(axis=1), element-wise + - * / %, fromiter, ones, zeros, abs, views of a 3-d array), collections.Counter as the table of distinct shots, _convert_bitstrings_to_vector (string -> digit table, bounded natively), floats as reals, Engine V / F, z3. Bounds of the enumerations in the evidence.",
}
TRUSTED = ["vfw/frame.py", "z3 5.1 bit-vectors", "numpy executed natively in the bounded part",
           "props/C10vec.py abstract numpy (fancy column indexing, sum(axis=1), element-wise arithmetic, fromiter, ones, zeros, abs, 3-d views) = assumed contract of numpy for the verified text",
           "collections.Counter = table of distinct shots with multiplicities (assumed)", "_convert_bitstrings_to_vector: entry (k, q) = digit q of key k (assumed; bounded natively)",
           "sum over an empty range is zero; definitional tally functions instantiated at the loop index (z3 does not rewrite under a summand's binder)"]
ASSUMPTIONS = ["counts <-> bitstrings conversion clauses bounded: <= 4 shots, <= 3 qubits exhaustive; wide registers by listed cases", "floats as reals up to 1e-12 in comparisons"]
EXTRA = {"explanation": "frame obligations decided statically; parity lemma by z3; statistics by exhaustive small-domain enumeration against the definitions"}

F_OPS = [M + ":Measurements.get_counts", M + ":Measurements.get_distribution", M + ":Measurements.get_expectation_values", M + ":get_expectation_value_from_frequencies",
         M + ":_convert_bitstrings_to_vector", PA + ":get_parities_from_measurements", PA + ":check_parity_of_vector", PA + ":check_parity"]


def _ops():
    from orquestra.quantum.operators import PauliSum, PauliTerm
    return [
        PauliSum([PauliTerm("Z0", 1.5), PauliTerm("Z1*Z2", -2.0), PauliTerm("I0", 0.75)]),
        PauliSum([PauliTerm("Z0*Z1", 1.0), PauliTerm("Z1*Z2", 1.0), PauliTerm("Z0*Z1", 0.5), PauliTerm("Z0*Z1*Z2", -1.0)]),
        PauliSum([PauliTerm("I0", 2.0), PauliTerm("I0", -0.5)]),
        PauliSum([PauliTerm("Z2", 3.0)]),
    ]


def _cases(tier):
    maxshots = 3 if tier == "quick" else 4

    def gen():
        for n in (1, 2, 3):
            outs = list(itertools.product((0, 1), repeat=n))
            for k in range(1, maxshots + 1):
                for shots in itertools.combinations_with_replacement(outs, k):
                    yield (n, list(shots))
    return gen


def _eps(b, S):
    return (-1) ** sum(b[q] for q in S)


def _check_stats(case):
    import numpy as np
    from orquestra.quantum.measurements import Measurements, get_parities_from_measurements
    n, shots = case
    m = Measurements([tuple(s) for s in shots])
    N = len(shots)
    counts = m.get_counts()
    want_counts = {}
    for s in shots:
        k = "".join(map(str, s))
        want_counts[k] = want_counts.get(k, 0) + 1
    if dict(counts) != want_counts or sum(counts.values()) != N:
        return False, f"counts {dict(counts)} expected {want_counts}"
    if m.get_counts() != counts:
        return False, "second get_counts differs"
    dist = m.get_distribution().distribution_dict
    if {"".join(map(str, k)): v for k, v in dist.items()} != {k: v / N for k, v in want_counts.items()}:
        return False, f"distribution {dist}"
    back = Measurements.from_counts(counts)
    if sorted(back.bitstrings) != sorted(tuple(s) for s in shots) or back.get_counts() != counts:
        return False, "from_counts / get_counts are not inverse"
    from orquestra.quantum.operators import PauliSum
    for op0 in _ops():
        if any(q >= n for t in op0.terms for q in t.qubits):
            continue
        # the statistics are homogeneous in the coefficients: the same data with every coefficient scaled by 1e-5 / 3e3 (small and large
        # operators) must give the scaled statistics to RELATIVE precision - no absolute threshold may swallow a small covariance
        for scale in (1.0, 1e-5, 3e3):
            op = op0 if scale == 1.0 else PauliSum([t.copy(new_coefficient=t.coefficient * scale) for t in op0.terms])
            terms = [t for t in op.terms]
            for bessel in (False, True):
                if bessel and N < 2:
                    continue
                ev = m.get_expectation_values(op, use_bessel_correction=bessel)
                vals = [t.coefficient * sum(_eps(s, t.qubits) for s in shots) / N for t in terms]
                if not np.allclose(ev.values, vals, rtol=1e-9, atol=1e-13 * scale):
                    return False, f"values {list(ev.values)} expected {vals} for {op} on {shots}"
                corr = [[a.coefficient * b.coefficient * sum(_eps(s, a.qubits) * _eps(s, b.qubits) for s in shots) / N for b in terms] for a in terms]
                if not np.allclose(ev.correlations[0], corr, rtol=1e-9, atol=1e-13 * scale ** 2):
                    return False, f"correlations {ev.correlations[0].tolist()} expected {corr} for {op} on {shots}"
                cov = (np.array(corr) - np.outer(vals, vals)) / (N - 1 if bessel else N)
                if not np.allclose(ev.estimator_covariances[0], cov, rtol=1e-7, atol=1e-13 * scale ** 2):
                    return False, f"covariances (bessel={bessel}) {np.array(ev.estimator_covariances[0]).tolist()} expected {cov.tolist()} for {op} on {shots}"
        op = op0
        terms = [t for t in op.terms]
        par = get_parities_from_measurements([tuple(s) for s in shots], op)
        for i, t in enumerate(terms):
            even = sum(1 for s in shots if _eps(s, t.qubits) == 1)
            if list(par.values[i]) != [even, N - even]:
                return False, f"parity tallies {par.values[i]} expected {[even, N - even]} for term {t}"
        if par.correlations is not None:
            for i, a in enumerate(terms):
                for j, b in enumerate(terms):
                    same = sum(1 for s in shots if _eps(s, a.qubits) == _eps(s, b.qubits))
                    if list(par.correlations[0][i][j]) != [same, N - same]:
                        return False, f"parity correlations [{i}][{j}] = {par.correlations[0][i][j]} expected {[same, N - same]}"
    if list(m.bitstrings) != [tuple(s) for s in shots]:
        return False, "measurement set modified by the queries"
    return True, "ok"


def _check_wide(i):
    """wide registers (indices >= 10, supports whose digit strings collide), repeated queries, in-place edits between queries"""
    import numpy as np
    from orquestra.quantum.measurements import Measurements
    from orquestra.quantum.operators import PauliSum, PauliTerm
    rng = np.random.default_rng(17 + i)
    n = 14
    shots = [tuple(int(x) for x in rng.integers(0, 2, size=n)) for _ in range(9)]
    m = Measurements(list(shots))
    supports = [{12, 13}, {1, 2, 13}, {1, 23 % n}, {1, 2, 3}, {11}, {1, 1 + 0}, {10, 3}, {1, 0, 3}]
    terms = [PauliTerm({q: "Z" for q in S}, 0.5 + k) for k, S in enumerate(supports)]
    op = PauliSum(terms)
    for rnd in range(2):
        ev = m.get_expectation_values(op)
        vals = [t.coefficient * sum(_eps(s, t.qubits) for s in m.bitstrings) / len(m.bitstrings) for t in terms]
        if not np.allclose(ev.values, vals, atol=1e-12):
            return False, f"wide register: values {list(np.round(ev.values, 3))} expected {list(np.round(vals, 3))}"
        corr = [[a.coefficient * b.coefficient * sum(_eps(s, a.qubits) * _eps(s, b.qubits) for s in m.bitstrings) / len(m.bitstrings) for b in terms] for a in terms]
        if not np.allclose(ev.correlations[0], corr, atol=1e-12):
            return False, "wide register: correlations differ"
        # statistics must follow the measurement set: rewrite the shots in place (same length) and query again
        m.bitstrings[:] = [tuple(reversed(s)) for s in m.bitstrings]
        want = {}
        for s in m.bitstrings:
            want["".join(map(str, s))] = want.get("".join(map(str, s)), 0) + 1
        if dict(m.get_counts()) != want:
            return False, "counts do not follow the (edited) measurement set"
    return True, "ok"


def _check_very_wide(n):
    """registers of 33 .. 100 qubits (beyond machine-word widths): expectation values, correlations, parity tallies and the frequency-based
    expectation are computed from shots that agree on the low qubits and differ on the high ones (and the other way round); marked
    qubits may be given as any iterable, also a one-shot one"""
    import numpy as np
    from orquestra.quantum.measurements import Measurements, get_parities_from_measurements
    from orquestra.quantum.measurements.measurements import get_expectation_value_from_frequencies
    from orquestra.quantum.operators import PauliSum, PauliTerm
    one_hot = lambda q: tuple(1 if i == q else 0 for i in range(n))
    shots = [one_hot(n - 1)] * 3 + [one_hot(n - 2)] * 2 + [one_hot(0)] + [tuple([1] * n)] * 2 + [one_hot(n // 2)] + [tuple([0] * n)] * 4
    m = Measurements(list(shots))
    supports = [{n - 1}, {0}, {n - 2, n - 1}, {0, n - 1}, {n // 2}, {0, 1, n - 1}, {32 % n, n - 1}, set()]
    terms = [PauliTerm({q: "Z" for q in S} if S else "I0", 0.5 + k) for k, S in enumerate(supports)]
    op = PauliSum(terms)
    N = len(shots)
    ev = m.get_expectation_values(op)
    vals = [t.coefficient * sum(_eps(s, t.qubits) for s in shots) / N for t in terms]
    if not np.allclose(ev.values, vals, atol=1e-12):
        return False, f"{n} qubits: values {list(np.round(ev.values, 3))} expected {list(np.round(vals, 3))}"
    corr = [[a.coefficient * b.coefficient * sum(_eps(s, a.qubits) * _eps(s, b.qubits) for s in shots) / N for b in terms] for a in terms]
    if not np.allclose(ev.correlations[0], corr, atol=1e-12):
        return False, f"{n} qubits: correlations differ"
    par = get_parities_from_measurements(list(shots), op)
    for i, t in enumerate(terms):
        even = sum(1 for s in shots if _eps(s, t.qubits) == 1)
        if list(par.values[i]) != [even, N - even]:
            return False, f"{n} qubits: parity tallies of the term on {sorted(t.qubits)} are {list(par.values[i])}, expected {[even, N - even]}"
    counts = dict(m.get_counts())
    if sum(counts.values()) != N or len(counts) != len(set(shots)):
        return False, f"{n} qubits: counts {len(counts)} distinct outcomes / {sum(counts.values())} shots"
    for S in supports:
        want = sum(_eps(s, S) for s in shots) / N
        kinds = {"tuple": tuple(S), "list": sorted(S), "set": set(S), "frozenset": frozenset(S), "generator": (q for q in sorted(S)), "iterator": iter(sorted(S)),
                 "map": map(int, sorted(S)), "dict keys": {q: None for q in S}.keys(), "range": range(min(S), max(S) + 1) if S and max(S) - min(S) + 1 == len(S) else tuple(S)}
        for kind, marked in kinds.items():
            got = get_expectation_value_from_frequencies(marked, counts)
            if abs(got - want) > 1e-12:
                return False, f"{n} qubits: get_expectation_value_from_frequencies with the marked qubits {sorted(S)} given as a {kind} returns {got}, the sample mean is {want}"
    # the single-bitstring parity helper: position k of a tuple AND character k of a count string are qubit k
    from orquestra.quantum.measurements.parities import check_parity
    for bits in ((1, 0, 0, 1, 0), (0, 1, 1, 0, 0, 0, 1), tuple(one_hot(n - 1)) if n <= 12 else (1, 0, 0)):
        for marks in ((0,), (len(bits) - 1,), (0, 1), (1, 3) if len(bits) > 3 else (0,), tuple(range(len(bits)))):
            want_even = sum(bits[q] for q in marks) % 2 == 0
            for kind, arg in (("tuple", tuple(bits)), ("list", list(bits)), ("str", "".join(map(str, bits)))):
                if bool(check_parity(arg, marks)) != want_even:
                    return False, f"check_parity({kind} {arg}, marked qubits {marks}) says {'even' if check_parity(arg, marks) else 'odd'}, the marked bits sum to {sum(bits[q] for q in marks)}"
    return True, "ok"


def _expectation_values_ob(fb):
    """values / correlations / covariances of Measurements.get_expectation_values for ALL operators (any number of terms): Engine V over abstract
    numpy arrays; `get_expectation_value_from_frequencies` is an uninterpreted function EF(qubit set, counts) (its own contract is the bounded part)"""
    import z3
    from vfw import sym, vcontract as vc, vtypes, vrt
    from vfw.sym import Obj, SObj, SSeq, SInt, SReal
    R = z3.RealSort()
    EF = z3.Function("expectation_from_frequencies", Obj, Obj, R)
    SD = z3.Function("symmetric_difference", Obj, Obj, Obj)
    COUNTS = z3.Function("get_counts", Obj, Obj)
    Arr2 = z3.ArraySort(z3.IntSort(), z3.ArraySort(z3.IntSort(), R))
    sym.OBJ_SCHEMAS["IsingOp"] = {"is_ising": "Bool", "terms": "Seq[Obj:ITerm]"}
    sym.OBJ_SCHEMAS["ITerm"] = {"coefficient": "Real", "qubits": "Obj:QSet"}
    sym.OBJ_SCHEMAS["QSet"] = {"symmetric_difference": lambda self: (lambda o: SObj("QSet", SD(self.e, sym.lift(o))))}

    def real(x):
        e = sym.lift(x)
        return z3.ToReal(e) if e.sort() == z3.IntSort() else e

    class A2:
        """2-D real array: element (i, j) -> value; either a z3 array-of-arrays (mutable store) or a lazily defined function"""

        def __init__(self, arr=None, fn=None):
            self.arr, self.fn = arr, fn

        def at(self, i, j):
            if self.fn is not None:
                return self.fn(i, j)
            return z3.Select(z3.Select(self.arr, sym.lift(i)), sym.lift(j))

        def __getitem__(self, ij):
            i, j = ij
            return SReal(self.at(i, j))

        def __setitem__(self, ij, v):
            i, j = ij
            if self.fn is not None:
                raise sym.Unsupported("assignment into a derived array")
            row = z3.Select(self.arr, sym.lift(i))
            self.arr = z3.Store(self.arr, sym.lift(i), z3.Store(row, sym.lift(j), real(v)))

        def _bin(self, o, f):
            if isinstance(o, A2):
                return A2(fn=lambda i, j: f(self.at(i, j), o.at(i, j)))
            return A2(fn=lambda i, j: f(self.at(i, j), real(o)))

        def __sub__(self, o): return self._bin(o, lambda a, b: a - b)
        def __mul__(self, o): return self._bin(o, lambda a, b: a * b)
        def __truediv__(self, o): return self._bin(o, lambda a, b: a / b)

    class A1:
        def __init__(self, seq):
            self.seq = SSeq.of(seq)

        def __getitem__(self, idx):
            if isinstance(idx, tuple) and len(idx) == 2:
                a, b = idx
                if isinstance(a, slice) and b is None:
                    return A2(fn=lambda i, j: real(self.seq.get(i if isinstance(i, (int, SInt)) else SInt(i))))
                if a is None and isinstance(b, slice):
                    return A2(fn=lambda i, j: real(self.seq.get(j if isinstance(j, (int, SInt)) else SInt(j))))
            return self.seq[idx]

    class NP:
        newaxis = None
        @staticmethod
        def array(x, *a, **k): return A1(x)
        @staticmethod
        def zeros(shape, dtype=None):
            zero_row = z3.K(z3.IntSort(), z3.RealVal(0))
            return A2(arr=z3.K(z3.IntSort(), zero_row))

    def fresh_a2(name):
        return A2(arr=sym.cur().fresh(name, Arr2))

    class EVHolder:
        def __init__(self, values, correlations=None, estimator_covariances=None):
            self.values, self.correlations, self.estimator_covariances = values, correlations, estimator_covariances

    def ef_stub(qubits, freqs):
        return SReal(EF(sym.lift(qubits), sym.lift(freqs)))

    state = {}

    def axioms():
        c = sym.cur()
        x, y = z3.Consts("x!sd y!sd", Obj)
        c.axioms.append(z3.ForAll([x, y], SD(x, y) == SD(y, x), patterns=[SD(x, y)]))    # the symmetric difference of sets is commutative

    def spec_corr(op, freqs, a, b):
        """c_a c_b EF(qubits_a symmetric-difference qubits_b) for a != b, c_a^2 on the diagonal"""
        ta, tb = op.terms.get(a), op.terms.get(b)
        ca, cb = sym.lift(ta.coefficient), sym.lift(tb.coefficient)
        off = ca * cb * EF(SD(sym.lift(ta.qubits), sym.lift(tb.qubits)), sym.lift(freqs))
        return SReal(z3.If(sym.lift(a) == sym.lift(b), ca * ca, off))

    def setup(args, ns):
        M_ = ns["Measurements"]
        m = M_.__new__(M_)
        m.bitstrings = vtypes.mk("List[Obj:Shot]", "bitstrings")
        me = sym.cur().fresh("measurements", Obj)
        m.get_counts = lambda: SObj("Counts", COUNTS(me))
        state["counts"] = SObj("Counts", COUNTS(me))
        args["self"] = m
        axioms()
    CORR = "all(C.at(a, b) == SPEC(ising_operator, FREQS(), a, b) for a in range({A}) for b in range({A}))"
    c = vc.Contract(
        key=M + ":Measurements.get_expectation_values", params={"self": "Any", "ising_operator": "Obj:IsingOp", "use_bessel_correction": "Bool"},
        requires="len(self.bitstrings) >= 2",
        raises={"TypeError": "not ising_operator.is_ising"},
        ensures="all(result.values.seq[i] == ising_operator.terms[i].coefficient * EFS(ising_operator.terms[i].qubits, FREQS()) for i in range(len(ising_operator.terms))) and "
                + CORR.replace("C.at", "result.correlations[0].at").format(A="len(ising_operator.terms)") + " and "
                "all(result.estimator_covariances[0].at(a, b) == (SPEC(ising_operator, FREQS(), a, b) - result.values.seq[a] * result.values.seq[b]) / "
                "(len(self.bitstrings) - 1 if use_bessel_correction else len(self.bitstrings)) for a in range(len(ising_operator.terms)) for b in range(len(ising_operator.terms)))",
        loops={"for#0": {"invariant": CORR.replace("C.at", "correlations.at").format(A="k"), "types": {"correlations": fresh_a2}},
               "for#1": {"invariant": CORR.replace("C.at", "correlations.at").format(A="i") + " and correlations.at(i, i) == SPEC(ising_operator, FREQS(), i, i) and "
                                      "all(correlations.at(i, b) == SPEC(ising_operator, FREQS(), i, b) and correlations.at(b, i) == SPEC(ising_operator, FREQS(), i, b) for b in range(k))",
                         "types": {"correlations": fresh_a2}}},
        spec={"SPEC": spec_corr, "FREQS": lambda: state["counts"], "EFS": lambda q, f: SReal(EF(sym.lift(q), sym.lift(f)))},
        doc="values_i = c_i E(S_i); correlations_ab = c_a c_b E(S_a symmetric-difference S_b) (c_a^2 on the diagonal, symmetric); covariances = (correlations - values x values) / N, "
            "or / (N - 1) with Bessel's correction; a non-Ising operator raises TypeError")

    def call(ns, a):
        return a["self"].get_expectation_values(a["ising_operator"], a["use_bessel_correction"])
    return vprop.fn_ob("C10", c, {}, call=call, setup=setup, overrides={"np": NP}, fallback=fb, obid="C10.get_expectation_values.contract", timeout_ms=60000,
                       extra_stubs=lambda: {"get_expectation_value_from_frequencies": ef_stub, "ExpectationValues": EVHolder},
                       desc="get_expectation_values for ALL Ising operators (any number of terms): values, correlations via the symmetric difference (diagonal c^2, symmetric fill) and "
                            "covariances with / without Bessel's correction match their definitions in terms of the per-support expectation (two nested loop invariants)")


def build(tier, seed):
    obs = []
    fb = vprop.enum_ob("x", [], _cases("quick"), _check_stats, "").run
    obs.append(_expectation_values_ob(fb))
    from props import C10vec
    obs.extend(C10vec.build(fb))

    def frame_ob(key):
        def run():
            st, finds, summ = frame.frame_outcome(key)
            txt = "; ".join(f"{f.kind} at {f.where}: {f.what} [{f.target}]" for f in finds[:4])
            if st == "discharged":
                return core.discharged("engine-F")
            if st == "refuted":
                rep = None
                try:
                    o = vprop.enum_ob("x", [], lambda: range(2), _check_wide, "").run()
                    rep = o.replay if o.status == "bounded-fail" else None
                except Exception:
                    pass
                return core.refuted("engine-F", f"{key.split(':')[1]} writes through an argument / keeps hidden state: {txt}", cex=[f.__dict__ for f in finds[:5]], replay=rep)
            return core.undecided("engine-F", txt)
        return Ob(f"C10.frame[{key.split(':')[1]}]", "proof", [key], run, f"{key.split(':')[1]} modifies neither the measurement set nor the operator (no cached state)", fallback=fb)
    for k in F_OPS:
        obs.append(frame_ob(k))

    def lemma():
        Wd = 12
        b, A, B = z3.BitVecs("b A B", Wd)

        def par(x):
            r = z3.Extract(0, 0, x)
            for i in range(1, Wd):
                r = r ^ z3.Extract(i, i, x)
            return r
        s = z3.Solver()
        s.add(par(b & A) ^ par(b & B) != par(b & (A ^ B)))
        r = s.check()
        if r == z3.unsat:
            return core.discharged("z3-bitvector", sample={"width": Wd})
        return core.refuted("z3-bitvector", str(s.model())) if r == z3.sat else core.undecided("z3", "unknown")
    obs.append(Ob("C10.lemma.parity_product", "finite", [M + ":Measurements.get_expectation_values"], lemma,
                  "eps_A(b) * eps_B(b) = eps_(A symmetric-difference B)(b) for all subsets A, B and bitstrings b of a 12-qubit register (why the correlation code may use the symmetric difference)"))
    obs.append(vprop.enum_ob("C10.stats.enum", F_OPS[:4] + [PA + ":get_parities_from_measurements"], _cases(tier), _check_stats,
                             "bounded-exhaustive: every multiset of <= 3 (thorough 4) shots on 1..3 qubits x 4 operator shapes (overlapping, repeated, constant terms): values, correlations, "
                             "covariances (with / without Bessel), counts, distribution, counts<->bitstrings, parity tallies equal their definitions", timeout=900))
    obs.append(vprop.enum_ob("C10.very_wide.enum", F_OPS[:3] + ["orquestra.quantum.measurements.parities:get_parities_from_measurements",
                                                    "orquestra.quantum.measurements.measurements:get_expectation_value_from_frequencies"], lambda: [3, 31, 32, 33, 40, 63, 64, 65, 72, 100], _check_very_wide,
                             "bounded: registers of 3 .. 100 qubits with shots that differ only on the highest / lowest qubits: values, correlations, parity tallies, counts; the frequency-based "
                             "expectation with the marked qubits given as nine kinds of iterable (incl. one-shot ones)", exhaustive=False))
    obs.append(vprop.enum_ob("C10.wide.enum", F_OPS[:3], lambda: range(3), _check_wide,
                             "bounded: 14-qubit registers with multi-digit qubit indices and look-alike supports; repeated queries after in-place edits follow the measurement set", exhaustive=False))
    from vfw import lean
    obs.append(lean.prelude_ob('C10', 'parity of a symmetric difference'))
    return obs
