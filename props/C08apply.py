"""C08, `apply_gate_to_qubits` under contract (Engine V): for ANY circuit, ANY collection of qubit indices (unordered, with duplicates) and EVERY order in which
Python may iterate the set of its distinct elements: the result keeps the circuit's operations, unchanged and in order, and appends exactly ONE gate per distinct
qubit - with parameter rows: the j-th row builds the gate placed on the j-th qubit of the set's iteration order, every row used once (fewer / more rows than
distinct qubits trip the assertion); without rows: the given gate on every distinct qubit.  Every appended operation sits on a qubit of the collection and
every qubit of the collection gets one.  `circuit + operation` enters through the contract of `_append_operation`.
"""
from __future__ import annotations

import types

import z3

from vfw import sym, vcontract as vc, vprop, vrt, vtypes
from vfw.sym import Obj, SSeq, SInt, SObj

GEN = "orquestra.quantum.circuits._generators"
I_ = z3.IntSort()
GATE_FROM_ROW = z3.Function("gate_factory_applied_to_row", Obj, Obj, Obj)       # (factory, parameter row) -> gate
OP_ON = z3.Function("gate_on_qubit", Obj, I_, Obj)                              # (gate, qubit) -> operation


class Circ:
    def __init__(self, ops, n):
        self.operations, self.n_qubits = ops, n

    def __add__(self, op):
        if not (isinstance(op, SObj) and op.cls == "PlacedOp"):
            raise sym.Unsupported("only operations built by the gate factory are appended here")
        q = op.e.arg(1)
        n = sym.lift(self.n_qubits)
        return Circ(self.operations + [op], sym.wrap_expr(z3.If(q + 1 > n, q + 1, n)))


def build(fb=None):
    obs = []
    for with_rows in (True, False):
        state = {}

        def schemas():
            sym.OBJ_SCHEMAS["AnyOp"] = {}
            sym.OBJ_SCHEMAS["PlacedOp"] = {}
            sym.OBJ_SCHEMAS["Row"] = {}
            sym.OBJ_SCHEMAS["BuiltGate"] = {"__call__": lambda self: (lambda q: SObj("PlacedOp", OP_ON(self.e, sym.lift(q))))}

            def factory_call(self):
                def call(*a):
                    if len(a) == 1 and isinstance(a[0], vrt.Star):
                        row = a[0].seq
                        if isinstance(row, SObj):
                            return SObj("BuiltGate", GATE_FROM_ROW(self.e, row.e))
                        raise sym.Unsupported("factory called with a computed argument list")
                    if len(a) == 1:                     # gate_factory(qubit): the factory IS a gate
                        return SObj("PlacedOp", OP_ON(self.e, sym.lift(a[0])))
                    raise sym.Unsupported("factory call shape")
                return call
            sym.OBJ_SCHEMAS["Factory8"] = {"__call__": factory_call}

        def setup(args, ns, with_rows=with_rows):
            schemas()
            c = sym.cur()
            ops = vtypes.mk("List[Obj:AnyOp]", "circuit.operations")
            n = vtypes.mk("Int", "circuit.n_qubits")
            c.assume(sym.lift(n) >= 0)
            args["circuit"] = Circ(ops, n)
            state["ops0"], state["n0"], state["len0"] = ops, n, ops.length()
            if not with_rows:
                args["parameters"] = None
            state["qi"] = args["qubit_indices"]
            state["set"] = vrt.SSetView(args["qubit_indices"])
            state["order"] = state["set"].order
            c.inputs["circuit.len"] = ops.length()

        def appended_ok(x, k, qubit_indices, gate_factory, parameters):
            """x = original operations ++ [the gate for the j-th element of the set's iteration order, j < k]"""
            ops0, l0 = state["ops0"], sym.lift(state["len0"])
            order = state["order"]()
            xs = SSeq.of(x.operations)
            c = sym.cur()
            c.n += 1
            j = z3.Int(f"j!ap{c.n}")
            kk = sym.lift(k)
            c.nofork += 1
            try:
                xj, oj, xa = sym.lift(xs.get(SInt(j))), sym.lift(ops0.get(SInt(j))), sym.lift(xs.get(SInt(l0 + j)))
                uj = sym.lift(order.get(SInt(j)))
                if parameters is None:
                    want = OP_ON(sym.lift(gate_factory), uj)
                else:
                    want = OP_ON(GATE_FROM_ROW(sym.lift(gate_factory), sym.lift(SSeq.of(parameters).get(SInt(j)))), uj)
            finally:
                c.nofork -= 1
            return sym.wrap_expr(z3.And(sym.lift(xs.length()) == l0 + kk,
                                        z3.ForAll([j], z3.Implies(z3.And(0 <= j, j < l0), xj == oj)),
                                        z3.ForAll([j], z3.Implies(z3.And(0 <= j, j < kk), xa == want))))

        def set_stub(x):
            if x is not state["qi"]:
                raise sym.Unsupported("set() of something else than the qubit collection")
            return state["set"]

        def n_distinct():
            return state["set"].size()

        def mk_circ(name):
            return Circ(vtypes.mk("List[Obj:AnyOp]", name + ".operations"), vtypes.mk("Int", name + ".n_qubits"))
        params = {"circuit": "Any", "qubit_indices": "Seq[Int]", "gate_factory": "Obj:Factory8", "parameters": "Seq[Obj:Row]" if with_rows else "Any"}
        inv = "APPENDED(circuit, k, qubit_indices, gate_factory, parameters)"
        c = vc.Contract(key=GEN + ":apply_gate_to_qubits", params=params,
                        raises=({"AssertionError": "len(parameters) != NDISTINCT(qubit_indices)"} if with_rows else {}),
                        ensures="APPENDED(result, NDISTINCT(qubit_indices), qubit_indices, gate_factory, parameters)",
                        loops={"for#0": {"invariant": inv if with_rows else "True", "types": {"circuit": mk_circ}},
                               "for#1": {"invariant": inv if not with_rows else "True", "types": {"circuit": mk_circ}}},
                        spec={"APPENDED": appended_ok, "NDISTINCT": lambda q: n_distinct()},
                        doc=("with parameter rows: " if with_rows else "without rows: ") + "the circuit's operations kept, then exactly one gate per DISTINCT qubit of the collection, in the set's "
                            "iteration order" + (", the j-th row on the j-th of them; a row count different from the number of distinct qubits trips the assertion" if with_rows else "")
                            + " - for every order a set may iterate in")
        obs.append(vprop.fn_ob("C08", c, {}, setup=setup, fallback=fb, obid=f"C08.apply_gate_to_qubits[{'rows' if with_rows else 'no rows'}].all_sizes.contract", desc=c.doc, timeout_ms=60000,
                               extra_stubs=lambda: {"set": set_stub, "warn": lambda *a, **k: None, "cast": lambda t, x: x}))
    return obs
