"""C12 - a wavefunction object is normalised after every operation on it.

Deductive part:
  * Engine V on the real `Wavefunction.__setitem__`: from any state satisfying the class invariant
    Inv = Ok(amplitude vector) (Ok = "`_check_normalization` returns", an uninterpreted predicate of the vector's
    content, so the proof holds for whatever the check computes), an accepted assignment leaves exactly the
    updated vector and Ok holds; a rejected one raises ValueError and leaves the vector EXACTLY as it was,
    element by element.  With `__init__` establishing Inv this gives Inv after every history (induction).
  * z3 bit-vectors on the real text of `_get_next_number_with_same_hamming_weight`: for every v below 2^W the result
    has the same popcount, is larger, and nothing strictly between has that popcount (W = 16 quick / 24 thorough).
Bounded part: constructor acceptance/rejection, adversarial assignment/binding histories (numeric, symbolic, mixed),
Dicke states n <= 10, qubit-order reversal n <= 10, save/load.
"""
from __future__ import annotations

import itertools

import z3

from vfw import core, sym, vcontract as vc, vprop, vtypes, src, replay as rp
from vfw.core import Ob
from vfw.sym import SSeq

LEVEL = "proof"
W = "orquestra.quantum.wavefunction"
MANIFEST = {
    "engine": "engine-V",
    "category": "proof",
    "technique": "contract-based deductive verification: class invariant + exceptional postcondition (exact rollback) on the real Wavefunction.__setitem__ by symbolic execution with the normalisation check abstracted to an uninterpreted predicate (z3, all vectors / indices / values); the Dicke bit trick decided in z3 bit-vector arithmetic from the real function text for all operands below 2^W; constructor, binding, Dicke loop, bit reversal and save/load by bounded native enumeration",
    "text": "Invariant preservation by the only element mutator plus establishment by the constructor gives normalisation after every call history by induction, including rejected calls (exact rollback is proved element-wise). The bit trick is decided for every operand of the stated width. Numeric tolerance (np.isclose) and sympy-vs-numpy storage paths are exercised by bounded histories only.",
    "note": "Trusted: Engine V encoding of item assignment on a mutable vector, z3; integer index (slices are outside the property); the bit-vector reading of Python's unbounded &,|,-,//,>> below 2^W. Bounded: everything listed as bounded in the evidence.",
}
TRUSTED = ["props/C12ctor.py: _check_normalization as the abstract predicate OK; np.asarray, popcount of the length, sympy subs uninterpreted", "vfw Engine V", "z3 5.1 (arrays, bit-vectors)", "np.isclose / numpy item assignment (abstracted in the proof, exercised natively)"]
ASSUMPTIONS = ["the amplitude store behaves as a mutable sequence under integer indexing (numpy array / sympy Matrix)",
               "bit trick proved for operands below 2^16 (quick) / 2^24 (thorough) in bit-vector arithmetic with two headroom bits",
               "floating-point rounding and tolerance thresholds are not modelled in the proofs"]
EXTRA = {"explanation": "VCs from the current text of wavefunction.py (Engine V) and a bit-vector validity query built by executing the real bit-trick function on z3 terms"}

_OK = z3.Function("Ok", z3.ArraySort(z3.IntSort(), z3.RealSort()), z3.IntSort(), z3.BoolSort())


def _okv(seq):
    seq = SSeq.of(seq)
    arr, _ = sym.node_to_array(seq.node)
    return sym.wrap_expr(_OK(arr, sym.lift(seq.length())))


def _upd(seq, i, v):
    c = SSeq(SSeq.of(seq).node, "list")
    c.nofork_set = True
    n = c.length()
    old = c.node
    c.node = ("fun", n, lambda j: sym.ite_value(sym.lift(j) == sym.lift(i), v, lambda: sym._sget(old, j)))
    return c


def _copy(seq):
    return SSeq(SSeq.of(seq).node, "list")


C_SET = vc.contract(
    W + ":Wavefunction.__setitem__",
    params={"self": "Any", "idx": "Int", "val": "Real"},
    requires="0 <= idx and idx < len(self._amplitude_vector) and OKV(self._amplitude_vector)",
    ghost={"old": "COPY(self._amplitude_vector)"},
    raises={"ValueError": "not OKV(UPD(old, idx, val))"},
    ensures="OKV(self._amplitude_vector) and self._amplitude_vector == UPD(old, idx, val)",
    spec={"OKV": _okv, "UPD": _upd, "COPY": _copy, "on_ValueError": "self._amplitude_vector == old"},
    doc="accepted: exactly the updated vector, normalised; rejected: ValueError and the vector is element-wise what it was")


def _setup(args, ns):
    Wf = ns["Wavefunction"]
    w = Wf.__new__(Wf)
    w._amplitude_vector = vtypes.mk("List[Real]", "amplitudes")
    sym.cur().inputs["amplitudes"] = w._amplitude_vector

    def check(arr):
        if sym.cur().decide(z3.Not(sym.fml(_okv(arr)))):
            raise ValueError("Vector does not result in a unit probability.")
    w._check_normalization = check
    args["self"] = w


def _bv_trick(width):
    def run():
        import time
        t0 = time.time()
        Wd = width + 2

        class BV:
            def __init__(s, e): s.e = e
            def _w(s, o): return o.e if isinstance(o, BV) else z3.BitVecVal(o, Wd)
            def __or__(s, o): return BV(s.e | s._w(o))
            def __and__(s, o): return BV(s.e & s._w(o))
            def __sub__(s, o): return BV(s.e - s._w(o))
            def __add__(s, o): return BV(s.e + s._w(o))
            def __neg__(s): return BV(-s.e)
            def __floordiv__(s, o): return BV(z3.UDiv(s.e, s._w(o)))
            def __rshift__(s, o): return BV(z3.LShR(s.e, s._w(o)))
        mod = src.shadow_load(W, {})
        v = z3.BitVec("v", Wd)
        nxt = mod._get_next_number_with_same_hamming_weight(BV(v)).e

        def pc(x):
            return z3.Sum([z3.ZeroExt(5, z3.Extract(i, i, x)) for i in range(Wd)]) if Wd + 5 <= 64 else None
        pre = z3.And(z3.UGT(v, 0), z3.ULT(v, z3.BitVecVal(2 ** width, Wd)))
        s = z3.Solver()
        s.set("timeout", 240000)
        x = z3.BitVec("x", Wd)
        s.add(pre)
        s.add(z3.Or(pc(nxt) != pc(v), z3.ULE(nxt, v), z3.And(z3.UGT(x, v), z3.ULT(x, nxt), pc(x) == pc(v))))
        r = s.check()
        if r == z3.unsat:
            return core.discharged("z3-bitvector", time.time() - t0, sample={"width": width, "formula": "popcount(next(v)) = popcount(v) and next(v) > v and no x in (v, next(v)) has that popcount"})
        if r == z3.sat:
            m = s.model()
            vv = m[v].as_long()
            code = f"""
from orquestra.quantum.wavefunction import _get_next_number_with_same_hamming_weight as nx
v = {vv}
n = nx(v)
pc = lambda z: bin(z).count("1")
OK = bool(pc(n) == pc(v) and n > v and not any(pc(z) == pc(v) for z in range(v + 1, min(n, v + 100000))))
OBSERVED = f"next({{v}}) = {{n}}"
"""
            return core.refuted("z3-bitvector", f"bit trick fails for v={vv}", cex={"v": vv}, replay=rp.replay_dict(code, "next number with the same Hamming weight"))
        return core.undecided("z3-bitvector", s.reason_unknown())
    return run


# ------------------------------------------------------------------------------------------------ bounded

def _check_ctor(mode):
    import numpy as np
    import sympy
    from orquestra.quantum.wavefunction import Wavefunction
    a, b = sympy.symbols("a b")
    good = [[1.0], [1, 0], [0.6, 0.8j], [0.5, 0.5, -0.5, 0.5j], [a, 0.6, 0, 0.1], [a, b], [a, b, 0.9, 0.1j], np.array([0, 0, 0, 1.0])]
    bad_len = [[], [1, 0, 0], [0.5] * 5, [a, b, a], np.ones(6) / np.sqrt(6)]
    bad_norm = [[1, 1], [0.6, 0.7], [0.9j, 0.9], [a, 0.8, 0.8, 0], [a, 0.8j, 0.8, 0], [1.0, 1e-2], [b, 1.0, 0.5j, a]]
    for v in good:
        try:
            w = Wavefunction(v)
        except ValueError as e:
            return False, f"valid vector {v} rejected: {e}"
        if not w.free_symbols and abs(sum(w.get_probabilities()) - 1) > 1e-6:
            return False, f"probabilities of {v} do not sum to 1"
        if not w.free_symbols and not np.allclose(w.get_probabilities(), np.abs(np.array(v, dtype=complex)) ** 2):
            return False, "probabilities are not the squared magnitudes"
    for v in bad_len + bad_norm:
        try:
            Wavefunction(v)
            return False, f"invalid vector {v} accepted"
        except ValueError:
            pass
    return True, "ok"


def _check_flip_history(sizes):
    """flips of registers of several sizes one after the other in ONE process (descending, ascending, repeated): each is the bit-reversal permutation of ITS vector"""
    import numpy as np
    from orquestra.quantum.wavefunction import flip_amplitudes
    for step, n in enumerate(sizes):
        v = np.arange(2 ** n, dtype=float) + 0.5
        f = np.array(flip_amplitudes(v))
        want = np.array([v[int(format(i, f"0{n}b")[::-1], 2) if n else 0] for i in range(2 ** n)])
        if f.shape != want.shape or not np.array_equal(f, want):
            return False, f"sizes flipped so far {list(sizes[:step + 1])}: the flip of the {n}-qubit vector is not its bit-reversal permutation"
    return True, "ok"


def _bind_map_cases():
    choices = ["absent", "small", "big", "other", "self+other", "other/2", "imag"]
    for t in range(3):
        k = 2 if t < 2 else 3
        for combo in itertools.product(choices, repeat=k):
            yield (t, combo)


def _check_bind_map(case):
    """symbolic states whose numeric entries already carry norm 0.5: binding any mixture of numbers (small / too large), other symbols and expressions
    that re-introduce a bound symbol either raises and leaves the receiver as it was, or returns a state whose numeric entries do not exceed norm 1"""
    import sympy
    from orquestra.quantum.wavefunction import Wavefunction
    t, combo = case
    a, b, c = sympy.symbols("a b c")
    syms = [a, b, c][:len(combo)]
    vec = [[a, b, 0.5, 0.5], [0.5, a + b, sympy.I / 2, b], [a, 0.5, b, c, 0.5, 0, 0, a / 2]][t]
    mp = {}
    for i, (s_, ch) in enumerate(zip(syms, combo)):
        o = syms[(i + 1) % len(syms)]
        if ch != "absent":
            mp[s_] = {"small": 0.1, "big": 0.9, "other": o, "self+other": s_ + o, "other/2": o / 2, "imag": 0.75j}[ch]
    w = Wavefunction(list(vec))
    before = [w.amplitudes[i] for i in range(len(vec))]
    try:
        res = w.bind(dict(mp))
    except ValueError:
        res = None
    if [w.amplitudes[i] for i in range(len(vec))] != before:
        return False, f"bind({mp}) changed the receiver {before}"
    if res is None:
        return True, "rejected"
    ents = [sympy.sympify(x) for x in (list(res.amplitudes) if not hasattr(res.amplitudes, "reshape") else res.amplitudes.reshape(-1).tolist())]
    tot = sum(abs(complex(sympy.N(e))) ** 2 for e in ents if not e.free_symbols)
    full = all(not e.free_symbols for e in ents)
    if tot > 1 + 1e-6 or (full and abs(tot - 1) > 1e-6):
        return False, f"Wavefunction({vec}).bind({mp}) returned {ents}: numeric entries of total probability {tot:.4f}"
    return True, "ok"


def _check_history(case):
    """adversarial histories: after every step the object must still be a valid wavefunction (its own amplitudes are
    accepted by the constructor) and a rejected step must leave it exactly unchanged"""
    import numpy as np
    import sympy
    from orquestra.quantum.wavefunction import Wavefunction
    kind, steps = case
    a, b = sympy.symbols("a b")
    if kind == "numeric":
        w = Wavefunction(np.array([0.5, 0.5, 0.5, 0.5], dtype=complex))
    elif kind == "symbolic":
        w = Wavefunction([a, 0.5, b, 0.5])
    else:
        w = Wavefunction([a, 0.6, 0.0, 0.0])

    def snapshot():
        return [complex(x) if not getattr(x, "free_symbols", None) else x for x in list(w)]

    def valid():
        try:
            Wavefunction(list(w) if w.free_symbols else np.array(w.amplitudes))
            return True
        except ValueError:
            return False
    for idx, val in steps:
        before = snapshot()
        try:
            w[idx] = val
        except ValueError:
            if snapshot() != before:
                return False, f"{kind}: rejected assignment w[{idx}] = {val} changed the object: {before} -> {snapshot()}"
            continue
        if not valid():
            return False, f"{kind}: after the accepted assignment w[{idx}] = {val} (history {steps}) the object's own amplitudes are rejected by the constructor"
        after = snapshot()
        touched = set(range(len(before))[idx]) if isinstance(idx, slice) else {idx % len(before)}
        if any(x != y for j, (x, y) in enumerate(zip(before, after)) if j not in touched):
            return False, f"{kind}: assignment to index {idx} changed another entry"
    if w.free_symbols:
        for m in ({a: 0.1}, {a: 5.0}, {a: 0.8, b: 0.0}, {b: 0.7j}, {sympy.Symbol("zz"): 1.0}):
            before = snapshot()
            try:
                w2 = w.bind(m)
            except ValueError:
                w2 = None
            if snapshot() != before:
                return False, f"{kind}: bind({m}) modified the receiver"
            if w2 is not None:
                try:
                    Wavefunction(list(w2) if w2.free_symbols else np.array(w2.amplitudes))
                except ValueError:
                    return False, f"{kind}: bind({m}) returned an object violating the invariant"
    return True, "ok"


def _histories(tier):
    eps = 0.9e-5
    drift = [(0, 0.5 + k * eps) for k in range(1, 8)] + [(1, 0.5 + k * eps) for k in range(1, 8)]
    cases = [("numeric", drift), ("numeric", [(0, 2.0), (1, 0.5), (0, -0.5), (3, 0.5j), (2, 0.6), (0, 0.5 + eps), (0, 0.5 + 2 * eps), (0, 0.5 + 3 * eps)]),
             ("numeric", [(k % 4, 0.5 * (1 + (k + 1) * 0.4e-5)) for k in range(40)]),
             ("symbolic", [(1, 0.9), (3, 0.9), (1, 0.5), (0, 0.9j), (0, 0.1), (2, 0.7), (2, 0.9)]),
             ("symbolic", [(0, 0.9j), (2, 0.1j), (1, 0.9), (3, -0.9)]),
             ("mixed", [(1, 0.9j), (2, 0.9), (2, 0.5j), (3, 0.9), (0, 0.1), (1, 0.99)]),
             # slices and negative indices: a rejected slice assignment must be rolled back too (the saved old value must not be a view)
             ("numeric", [(slice(0, 2), [0.9, 0.9]), (slice(0, 2), [0.5j, -0.5]), (slice(1, 3), [0.1, 0.1]), (-1, 0.9), (-1, -0.5), (slice(0, 4, 2), [0.5, 0.5j]),
                          (slice(0, 4, 2), [0.7, 0.7]), (slice(None), [0.5, 0.5, 0.5, 0.6]), (slice(None), [0.5j, 0.5, -0.5, 0.5])]),
             ("symbolic", [(slice(1, 3), [0.9, 0.9]), (slice(1, 4, 2), [0.3, 0.4]), (-1, 0.99), (slice(0, 1), [2.0])]),
             ("mixed", [(slice(1, 3), [0.9, 0.9]), (slice(2, 4), [0.5, 0.5]), (-2, 1.5)])]
    return lambda: cases


def _check_dicke(n):
    import math
    import numpy as np
    from orquestra.quantum.wavefunction import Wavefunction
    idx = np.arange(2 ** n)
    weight = np.zeros(2 ** n, dtype=int)
    for b in range(n):
        weight += (idx >> b) & 1
    for k in range(0, n + 1):
        w = Wavefunction.dicke_state(n, k)
        p = np.asarray(w.get_probabilities())
        support = np.nonzero(p > 0)[0]
        want = np.nonzero(weight == k)[0]
        if len(support) != len(want) or (support != want).any():
            missing = sorted(set(want.tolist()) - set(support.tolist()))[:4]
            return False, f"dicke_state({n},{k}) support has {len(support)} states, expected the {len(want)} states of weight {k} (missing e.g. {missing})"
        if not np.allclose(p[want], 1 / math.comb(n, k), rtol=1e-9, atol=0):
            return False, f"dicke_state({n},{k}) probabilities are not all 1/C(n,k)"
    for bad in ((n, n + 1), (n, -1), (0, 0), (-1, 0)):
        try:
            Wavefunction.dicke_state(*bad)
            return False, f"dicke_state{bad} accepted"
        except ValueError:
            pass
    return True, "ok"


def _check_flip(n):
    import json
    import os
    import tempfile
    import numpy as np
    from orquestra.quantum.wavefunction import Wavefunction, flip_wavefunction, flip_amplitudes, load_wavefunction, save_wavefunction
    rng = np.random.default_rng(n)
    v = rng.normal(size=2 ** n) + 1j * rng.normal(size=2 ** n)
    v /= np.linalg.norm(v)
    f = flip_amplitudes(v)
    rev = lambda i: int(format(i, f"0{n}b")[::-1], 2) if n else 0
    if any(f[i] != v[rev(i)] for i in range(2 ** n)):
        return False, f"flip_amplitudes is not the bit-reversal permutation for n={n}"
    w = Wavefunction(v)
    if not np.array_equal(flip_wavefunction(flip_wavefunction(w)).amplitudes, w.amplitudes):
        return False, "reversing qubit order twice is not the identity"
    if n == 2:
        # save / load of states whose imaginary parts cancel, are all zero, or carry everything
        from orquestra.quantum.utils import convert_array_to_dict, convert_dict_to_array
        h = 0.5
        for amps in ([h, h * 1j, -h * 1j, h], [1j / np.sqrt(2), -1j / np.sqrt(2), 0, 0], [h * 1j, h * 1j, -h * 1j, -h * 1j], [1, 0, 0, 0], [0, 0, 0, 1j], [h, h, h, -h],
                     [np.sqrt(0.5), 0, 0, np.sqrt(0.5) * 1j]):
            d0 = tempfile.mkdtemp()
            try:
                p0 = os.path.join(d0, "w.json")
                w0 = Wavefunction(np.array(amps, dtype=complex))
                save_wavefunction(w0, p0)
                try:
                    back = load_wavefunction(p0)
                except ValueError as e:
                    return False, f"load_wavefunction of the saved state {amps} raised: {e}"
                if not np.array_equal(np.asarray(back.amplitudes), np.asarray(w0.amplitudes)):
                    return False, f"save/load changed the amplitudes {amps} into {list(back.amplitudes)}"
                arr = np.array(amps, dtype=complex)
                if not np.array_equal(convert_dict_to_array(json.loads(json.dumps(convert_array_to_dict(arr)))), arr):
                    return False, f"array <-> dict conversion changed {amps}"
            finally:
                import shutil
                shutil.rmtree(d0, ignore_errors=True)
    d = tempfile.mkdtemp()
    try:
        p = os.path.join(d, "w.json")
        save_wavefunction(w, p)
        if not np.array_equal(load_wavefunction(p).amplitudes, w.amplitudes):
            return False, "save/load changed the amplitudes"
        with open(p) as fh:
            if not np.array_equal(load_wavefunction(fh).amplitudes, w.amplitudes):
                return False, "load from an open file changed the amplitudes"
    finally:
        import shutil
        shutil.rmtree(d, ignore_errors=True)
    return True, "ok"


def build(tier, seed):
    obs = []
    fbh = vprop.enum_ob("x", [], _histories(tier), _check_history, "").run

    def call(ns, a):
        return a["self"].__setitem__(a["idx"], a["val"])
    from props import C12ctor
    obs.extend(C12ctor.build(vprop.enum_ob("x", [], lambda: [0], _check_ctor, "").run))
    obs.append(vprop.fn_ob("C12", C_SET, {}, call=call, setup=_setup, fallback=fbh,
                           desc="Wavefunction.__setitem__: accepted => exactly the updated vector and Ok; rejected => ValueError and the vector element-wise unchanged "
                                "(for every vector, index, value; Ok abstracts _check_normalization)"))
    obs.append(Ob("C12.dicke.bits", "proof", [W + ":_get_next_number_with_same_hamming_weight"], _bv_trick(16 if tier == "quick" else 24),
                  "bit trick: same popcount, strictly larger, and nothing in between with that popcount, for all 0 < v < 2^W (bit-vector arithmetic, bounded by width)", timeout=300))
    obs.append(vprop.enum_ob("C12.ctor.enum", [W + ":Wavefunction.__init__", W + ":Wavefunction._check_normalization", W + ":Wavefunction.get_probabilities"],
                             lambda: [0], _check_ctor, "bounded: constructor accepts exactly power-of-two, normalised (or symbolically feasible, incl. imaginary numeric entries) vectors; probabilities are squared magnitudes"))
    obs.append(vprop.enum_ob("C12.history.enum", [C_SET.key, W + ":Wavefunction.bind"], _histories(tier), _check_history,
                             "bounded: adversarial assignment / binding histories (tolerance-sized drifts, rejected then accepted writes, numeric / symbolic / mixed): "
                             "the object stays valid for its own constructor, rejected steps change nothing", exhaustive=False))
    obs.append(vprop.enum_ob("C12.flip_history.enum", [W + ":flip_amplitudes", W + ":_get_ordering"],
                             lambda: [(6, 6, 4, 2, 4, 1, 3, 6), (1, 2, 3, 4, 5, 4, 3, 2, 1), (7, 3, 7, 3), (5, 4, 3, 2, 1, 1, 2, 3, 4, 5), (8, 1, 8)], _check_flip_history,
                             "bounded: register sizes flipped in descending / ascending / repeated order within one process: every flip is the bit reversal of its own vector (no state carried between sizes)"))
    obs.append(vprop.enum_ob("C12.bind_maps.enum", [W + ":Wavefunction.bind", W + ":Wavefunction._check_normalization", W + ":_is_number"], _bind_map_cases, _check_bind_map,
                             "bounded: three symbolic states with numeric norm 0.5 x every assignment of {absent, 0.1, 0.9, 0.75j, another symbol, self + another, another / 2} to each of their 2..3 symbols: "
                             "the bound state is valid or the call raises; the receiver never changes"))
    obs.append(vprop.enum_ob("C12.dicke.enum", [W + ":Wavefunction.dicke_state", W + ":_most_significant_set_bit"], lambda: range(1, 17 if tier == "quick" else 21), _check_dicke,
                             "bounded: dicke_state(n,k) has equal probability on exactly the C(n,k) states of weight k; bad arguments raise"))
    obs.append(vprop.enum_ob("C12.flip.enum", [W + ":flip_amplitudes", W + ":_get_ordering", W + ":save_wavefunction", W + ":load_wavefunction"],
                             lambda: range(1, 9 if tier == "quick" else 11), _check_flip,
                             "bounded: reversal is the bit-reversal permutation and an involution; save/load returns the same amplitudes (path and open file)"))
    return obs
