"""C17, constructor chain (Engine V): the validators, the normaliser and `MeasurementOutcomeDistribution.__init__` under contract, for ALL
dictionaries keyed by integer tuples (string keys are text parsing: bounded, `C17.ctor.enum`).

  * `_is_non_negative`, `_is_key_length_fixed`, `_are_keys_non_negative_integer_tuples`: the returned boolean IS the quantified statement;
  * `is_measurement_outcome_distribution` = non-empty and the three validators (callees by contract);
  * `preprocess_distibution_dict`: a NEW dictionary with exactly the input's members and values (loop invariant over the iteration order);
  * `normalize_measurement_outcome_distribution`: raises on a zero / denormal total, otherwise every key keeps its membership and holds
    old value x (1 / total) (loop invariant) - "same proportions"; non-negative values stay non-negative; "sums to 1" is then linearity of the sum
    (`lean/Prelude.lean: sum_scaled_eq_one`), listed as a lemma with a Lean twin;
  * `__init__`: rejects exactly when the dictionary is not a distribution; otherwise holds the input's content unchanged when it is normalised
    (math.isclose) or normalisation is off, and scaled by 1 / total otherwise (callees by contract);
  * `compute_jensen_shannon_divergence`: half the clipped NLL in each direction (callee pure by contract) - symmetric by commutativity.
Floats are treated as reals (stated in the evidence).
"""
from __future__ import annotations

import sys
import types

import z3

from vfw import core, sym, vcontract as vc, vprop, vrt, vtypes
from vfw.sym import Obj, SSeq

D = "orquestra.quantum.distributions._measurement_outcome_distribution"

KEYAT = z3.Function("outcome_at", Obj, z3.IntSort(), z3.IntSort())
KEYLEN = z3.Function("outcome_len", Obj, z3.IntSort())
IDX = z3.Function("position_of_key", z3.ArraySort(z3.IntSort(), Obj), Obj, z3.IntSort())   # the position of a member in the iteration order
ISCLOSE1 = z3.Function("math_isclose_to_1", z3.RealSort(), z3.BoolSort())
FLOATMIN = sys.float_info.min


def key_schema():
    sym.OBJ_SCHEMAS["Key"] = {"__getitem__": lambda self: (lambda i: sym.wrap_expr(KEYAT(self.e, sym.lift(i)))),
                              "__len__": lambda self: sym.wrap_expr(KEYLEN(self.e)),
                              "__iter__": lambda self: SSeq(("fun", sym.wrap_expr(KEYLEN(self.e)), lambda t: sym.wrap_expr(KEYAT(self.e, sym.lift(t)))), "tuple")}
    sym.OBJ_SCHEMAS["Key"]["__concretize__"] = _concretize_key
    vc.CLASS_TAGS["Key"] = (tuple,)
    c = sym.cur()
    if "keylen" not in c.axioms_done:
        c.axioms_done.add("keylen")
        o = z3.Const("o!kl", Obj)
        c.axioms.append(z3.ForAll([o], KEYLEN(o) >= 0, patterns=[KEYLEN(o)]))


def _concretize_key(v, m):
    n = m.eval(KEYLEN(v.e), model_completion=True)
    n = n.as_long() if z3.is_int_value(n) else 0
    return [int(str(m.eval(KEYAT(v.e, z3.IntVal(j)), model_completion=True))) for j in range(max(0, min(n, 6)))]


def mk_input(name="input_dict"):
    """an arbitrary dictionary keyed by integer tuples, with the dictionary invariant 'the iteration order lists exactly the members'"""
    key_schema()
    d = vtypes.mk("Dict[Key,Real]", name)
    arr, n = d.keyseq.node[2], sym.lift(d.keyseq.length())
    o = z3.Const("o!mem", Obj)
    sym.cur().inputs[name] = d
    sym.cur().assume(z3.ForAll([o], z3.Implies(z3.Select(d.has, o), z3.And(0 <= IDX(arr, o), IDX(arr, o) < n, z3.Select(arr, IDX(arr, o)) == o)),
                               patterns=[z3.Select(d.has, o)]))
    return d


# ---- spec functions (z3 formulas over dictionaries) ---------------------------------------------------------------------------------------

def _f(e):
    return sym.wrap_expr(e)


def total(d):
    """sum of the values in iteration order; side lemma (trusted, Lean twin `sum_nonneg_of_nonneg`): a sum of non-negative reals is non-negative"""
    t = vrt.v_sum(d.values())
    c = sym.cur()
    key = ("sum_nonneg", str(d.val), str(d.keyseq.node[2]))
    if key not in c.axioms_done:
        c.axioms_done.add(key)
        arr, n = d.keyseq.node[2], sym.lift(d.keyseq.length())
        i = z3.Int(f"i!tn{_n()}")
        c.axioms.append(z3.Implies(z3.ForAll([i], z3.Implies(z3.And(0 <= i, i < n), z3.Select(d.val, z3.Select(arr, i)) >= 0), patterns=[z3.Select(arr, i)]),
                                   sym.lift(t) >= 0))
    return t


def same_content(r, src, k=None):
    """r has exactly the first k members of src (all of them when k is None) with src's values"""
    arr, n = src.keyseq.node[2], sym.lift(src.keyseq.length())
    o = z3.Const(f"o!sc{_n()}", Obj)
    kk = n if k is None else sym.lift(k)
    rhas = z3.Select(r.has, o) if not isinstance(r, dict) else z3.BoolVal(False)
    rval = z3.Select(r.val, o) if not isinstance(r, dict) else z3.RealVal(0)
    if isinstance(r, dict) and r:
        raise sym.Unsupported("non-empty concrete dictionary")
    return _f(z3.ForAll([o], z3.And(rhas == z3.And(z3.Select(src.has, o), IDX(arr, o) < kk),
                                    z3.Implies(rhas, rval == z3.Select(src.val, o))), patterns=[z3.Select(src.has, o)] + _pats(r, o)))


def scaled(r, src, tot, k=None):
    """r has src's members; the first k of them (all when k is None) hold src's value x (1 / tot), the others src's value"""
    arr, n = src.keyseq.node[2], sym.lift(src.keyseq.length())
    o = z3.Const(f"o!sd{_n()}", Obj)
    kk = n if k is None else sym.lift(k)
    t = sym.lift(tot)
    return _f(z3.ForAll([o], z3.And(z3.Select(r.has, o) == z3.Select(src.has, o),
                                    z3.Implies(z3.Select(src.has, o),
                                               z3.Select(r.val, o) == z3.If(IDX(arr, o) < kk, z3.Select(src.val, o) * (1 / t), z3.Select(src.val, o)))),
                             patterns=[z3.Select(src.has, o)] + _pats(r, o)))


def _pats(r, o):
    """triggers on the dictionary r - only when its arrays are plain constants (a Store chain is rewritten by z3 and is not a valid pattern)"""
    if isinstance(r, dict):
        return []
    return [z3.Select(a, o) for a in (r.has, r.val) if z3.is_const(a)]


def nonneg(d):
    o = z3.Const(f"o!nn{_n()}", Obj)
    return _f(z3.ForAll([o], z3.Implies(z3.Select(d.has, o), z3.Select(d.val, o) >= 0), patterns=_pats(d, o) or None))


def is_mod(d):
    """the property's notion of an acceptable input: non-empty, no negative value, keys of one length, entries non-negative"""
    arr, n = d.keyseq.node[2], sym.lift(d.keyseq.length())
    i = z3.Int(f"i!im{_n()}")
    j = z3.Int(f"j!im{_n()}")
    key = z3.Select(arr, i)
    inr = z3.And(0 <= i, i < n)
    return _f(z3.And(n >= 1,
                     z3.ForAll([i], z3.Implies(inr, z3.Select(d.val, key) >= 0), patterns=[z3.Select(arr, i)]),
                     z3.ForAll([i], z3.Implies(inr, KEYLEN(key) == KEYLEN(z3.Select(arr, 0))), patterns=[z3.Select(arr, i)]),
                     z3.ForAll([i, j], z3.Implies(z3.And(inr, 0 <= j, j < KEYLEN(key)), KEYAT(key, j) >= 0), patterns=[KEYAT(z3.Select(arr, i), j)])))


def _n():
    c = sym.cur()
    c.n += 1
    return c.n


SPEC = {"TOTAL": total, "SAME": same_content, "SCALED": scaled, "NONNEG": nonneg, "ISMOD": is_mod, "ISCLOSE1": lambda x: _f(ISCLOSE1(sym.lift(x) if not isinstance(x, (int, float)) else z3.RealVal(x))),
        "FLOATMIN": FLOATMIN}

# ---- contracts --------------------------------------------------------------------------------------------------------------------------------

DT = "Dict[Key,Real]"
C_NONNEG = vc.Contract(key=D + ":_is_non_negative", params={"input_dict": DT}, result="Bool",
                       ensures="result == all(v >= 0 for v in input_dict.values())",
                       doc="True iff no value is negative")
C_KEYLEN = vc.Contract(key=D + ":_is_key_length_fixed", params={"input_dict": DT}, result="Bool", requires="len(input_dict.keys()) >= 1",
                       ensures="result == all(len(k) == len(input_dict.keys()[0]) for k in input_dict.keys())",
                       doc="True iff every key has the length of the first one")
C_KEYINT = vc.Contract(key=D + ":_are_keys_non_negative_integer_tuples", params={"input_dict": DT}, result="Bool",
                       ensures="result == all(all(e >= 0 for e in k) for k in input_dict.keys())",
                       doc="True iff every entry of every key is a non-negative integer (entries are integers by typing of the model)")
C_ISMOD = vc.Contract(key=D + ":is_measurement_outcome_distribution", params={"input_dict": DT}, result="Bool",
                      ensures="result == ISMOD(input_dict)", spec=SPEC,
                      doc="accepts exactly: non-empty, no negative value, keys of one length with non-negative entries")
C_ISNORM = vc.Contract(key=D + ":is_normalized", params={"input_dict": DT}, result="Bool",
                       ensures="result == ISCLOSE1(TOTAL(input_dict))", spec=SPEC,
                       doc="math.isclose(sum of the values, 1)  (math.isclose is an uninterpreted predicate)")
C_PRE = vc.Contract(key=D + ":preprocess_distibution_dict", params={"input_dict": DT}, result="New" + DT,
                    ensures="SAME(result, input_dict)", spec=SPEC,
                    loops={"for#0": {"invariant": "SAME(res_dict, input_dict, k)", "types": {"res_dict": "New" + DT}}},
                    doc="tuple keys: a new dictionary with exactly the input's members and values")
C_NORMALIZE = vc.Contract(
    key=D + ":normalize_measurement_outcome_distribution", params={"measurement_outcome_distribution": DT}, result="New" + DT,
    ghost={"src": "measurement_outcome_distribution", "tot": "TOTAL(measurement_outcome_distribution)"},
    raises={"ValueError": "tot == 0 or (0 < tot and tot < FLOATMIN)"},
    ensures="(SCALED(result, src, tot) if tot != 1 else SAME(result, src)) and implies(NONNEG(src) and tot > 0, NONNEG(result))", spec=SPEC,
    loops={"for#0": {"invariant": "SCALED(measurement_outcome_distribution, src, tot, k)", "types": {"measurement_outcome_distribution": "New" + DT}}},
    doc="every member keeps its membership and holds old value x (1 / total): same proportions; a zero or denormal total raises ValueError")
C_INIT = vc.Contract(
    key=D + ":MeasurementOutcomeDistribution.__init__", params={"self": "Any", "input_dict": DT, "normalize": "Bool"},
    ghost={"tot": "TOTAL(input_dict)"},
    raises={"RuntimeError": "not ISMOD(input_dict)",
            "ValueError": "ISMOD(input_dict) and not ISCLOSE1(tot) and normalize and (tot == 0 or (0 < tot and tot < FLOATMIN))"},
    ensures="(SCALED(dd, input_dict, tot) if (normalize and not ISCLOSE1(tot) and tot != 1) else SAME(dd, input_dict)) and NONNEG(dd)", spec=SPEC,
    doc="rejects exactly the inputs that are not distributions (empty, a negative value, keys of unequal length); holds the input's members with value / total "
        "when normalisation is on and the total is not already 1 (math.isclose), the input's content otherwise; probabilities are non-negative")


# ---- native reading of the same contracts (replay of candidate counter-models, bounded fallback) ---------------------------------------------

def _valid(d):
    ks = list(d)
    return bool(ks) and all(v >= 0 for v in d.values()) and all(len(k) == len(ks[0]) for k in ks) and all(e >= 0 for k in ks for e in k)


def judge(case):
    """case = (function name, [[key, value], ...], normalize): run the real function on the dictionary and compare with the contract, read natively"""
    import math
    import warnings
    import orquestra.quantum.distributions._measurement_outcome_distribution as M
    fn, pairs, normalize = case
    d = {tuple(k): v for k, v in pairs}
    src = dict(d)
    tot = sum(d.values())
    with warnings.catch_warnings():
        warnings.simplefilter("ignore")
        if fn == "_is_non_negative":
            return M._is_non_negative(d) == all(v >= 0 for v in src.values()), "returned the wrong boolean"
        if fn == "_is_key_length_fixed":
            if not d:
                return None, "precondition"
            return M._is_key_length_fixed(d) == all(len(k) == len(next(iter(src))) for k in src), "returned the wrong boolean"
        if fn == "_are_keys_non_negative_integer_tuples":
            return M._are_keys_non_negative_integer_tuples(d) == all(e >= 0 for k in src for e in k), "returned the wrong boolean"
        if fn == "is_measurement_outcome_distribution":
            return bool(M.is_measurement_outcome_distribution(d)) == _valid(src), f"is_measurement_outcome_distribution({src}) is not {_valid(src)}"
        if fn == "is_normalized":
            return M.is_normalized(d) == math.isclose(tot, 1), "returned the wrong boolean"
        if fn == "preprocess_distibution_dict":
            r = M.preprocess_distibution_dict(d)
            return r == src and list(r) == list(src) and r is not d and d == src, f"preprocess_distibution_dict({src}) = {r}"
        if fn == "normalize_measurement_outcome_distribution":
            must_raise = tot == 0 or 0 < tot < FLOATMIN
            try:
                r = M.normalize_measurement_outcome_distribution(d)
            except ValueError:
                return must_raise, f"ValueError on total {tot}"
            if must_raise:
                return False, f"total {tot} accepted"
            want = src if tot == 1 else {k: v * (1.0 / tot) for k, v in src.items()}
            ok = set(r) == set(want) and all(abs(r[k] - want[k]) <= 1e-12 * abs(want[k]) for k in want)
            return ok, f"normalize({src}) = {r}, expected {want}"
        if fn == "__init__":
            valid = _valid(src)
            try:
                obj = M.MeasurementOutcomeDistribution(d, normalize=normalize)
            except RuntimeError:
                return (not valid), f"RuntimeError on a valid distribution {src}"
            except ValueError:
                return valid and normalize and not math.isclose(tot, 1) and (tot == 0 or 0 < tot < FLOATMIN), f"ValueError on {src}"
            if not valid:
                return False, f"invalid input {src} accepted"
            if d != src:
                return False, "the input dictionary was modified"
            want = {k: v * (1.0 / tot) for k, v in src.items()} if (normalize and not math.isclose(tot, 1) and tot != 1) else src
            got = obj.distribution_dict
            ok = set(got) == set(want) and all(abs(got[k] - want[k]) <= 1e-12 * abs(want[k]) and got[k] >= 0 for k in want)
            if ok and normalize and abs(sum(got.values()) - 1) > 1e-9:
                return False, f"normalised probabilities sum to {sum(got.values())}"
            return ok, f"MeasurementOutcomeDistribution({src}, normalize={normalize}).distribution_dict = {got}, expected {want}"
    raise ValueError(fn)


def fallback_cases(fn):
    """a family chosen by structure, not by known failures: 0..6 keys, totals equal to / next to / far from 1, zero and negative values,
    keys of unequal length, negative entries, both normalisation modes"""
    import itertools
    keys = [(0, 0, 1), (0, 1, 0), (1, 12, 0), (12, 1, 1), (2, 0, 7), (3, 3, 3)]
    vals = {"unit": [0.5, 0.25, 0.125, 0.0625, 0.03125, 0.03125], "big": [2.0, 3.0, 0.0, 1.5, 4.0, 0.5], "near": [0.5, 0.25, 0.25 + 1e-7, 0.0, 0.0, 0.0],
            "zero": [0.0] * 6, "neg": [0.5, -0.25, 0.75, 0.0, 0.0, 0.0], "tiny": [1e-320, 0.0, 0.0, 0.0, 0.0, 0.0], "one": [1.0, 0.0, 0.0, 0.0, 0.0, 0.0],
            "ints": [1, 2, 3, 4, 5, 6]}
    for n in range(0, 7):
        for name, vs in vals.items():
            for normalize in (True, False):
                yield (fn, [[list(k), v] for k, v in zip(keys[:n], vs[:n])], normalize)
    for normalize in (True, False):
        yield (fn, [[[0, 1], 0.5], [[1], 0.5]], normalize)
        yield (fn, [[[0, 1], 0.5], [[1, 0], 0.25], [[1, 1, 0], 0.25]], normalize)
        yield (fn, [[[0, -1], 1.0]], normalize)
        yield (fn, [[[0, 1], 0.3], [[1, -2], 0.7]], normalize)
        yield (fn, [[[], 1.0]], normalize)


def _replay_for(fn):
    def replay(model):
        pairs = model.get("input_dict") or model.get("measurement_outcome_distribution")
        if not isinstance(pairs, list) or not all(isinstance(p, list) and len(p) == 2 and isinstance(p[0], list) and isinstance(p[1], (int, float)) for p in pairs):
            return None
        normalize = model.get("normalize", True)
        return (f"from props.C17ctor import judge\nOK, OBSERVED = judge(({fn!r}, {pairs!r}, {bool(normalize)!r}))\nOK = True if OK is None else bool(OK)")
    return replay


def _ob(c, callees=None, fb=None, call=None, setup=None, post_env=None, extra=None, obid=None, desc="", timeout_ms=30000):
    def default_setup(args, ns):
        for p, t in c.params.items():
            if t == DT:
                args[p] = mk_input(p)
    fname = c.qualname.split(".")[-1]
    fb = fb or vprop.enum_ob("x", [], lambda: fallback_cases(fname), judge, "").run
    return vprop.fn_ob("C17", c, callees or {}, call=call, setup=setup or default_setup, post_env=post_env, extra_stubs=extra, fallback=fb,
                       replay_code=_replay_for(fname), expected=c.doc,
                       obid=obid or f"C17.{c.qualname.split('.')[-1].strip('_')}.contract", desc=desc or c.doc, timeout_ms=timeout_ms)


JS = "orquestra.quantum.distributions.jensen_shannon_divergence"
C_NLL = vc.Contract(key="orquestra.quantum.distributions.clipped_negative_log_likelihood:compute_clipped_negative_log_likelihood",
                    params={"target_distribution": "Obj:Dist", "measured_distribution": "Obj:Dist", "distance_measure_parameters": "Obj:Params"}, result="Real", pure=True,
                    doc="a function of its three arguments (no state: Engine F frame obligation of the same check)")


def _nll(a, b, p):
    return vc._pure_result(C_NLL, [a, b, p])


C_JSD = vc.Contract(key=JS + ":compute_jensen_shannon_divergence",
                    params={"target_distribution": "Obj:Dist", "measured_distribution": "Obj:Dist", "distance_measure_parameters": "Obj:Params"}, result="Real",
                    ensures="result == NLL(target_distribution, measured_distribution, distance_measure_parameters) / 2 + NLL(measured_distribution, target_distribution, distance_measure_parameters) / 2 "
                            "and NLL(target_distribution, measured_distribution, distance_measure_parameters) / 2 + NLL(measured_distribution, target_distribution, distance_measure_parameters) / 2 "
                            "== NLL(measured_distribution, target_distribution, distance_measure_parameters) / 2 + NLL(target_distribution, measured_distribution, distance_measure_parameters) / 2",
                    spec={"NLL": _nll},
                    doc="the symmetrised divergence is half the clipped NLL in each direction with the SAME parameters - hence symmetric in its two distributions")


def build(fb_ctor=None, fb_dist=None):
    obs = []
    sym.OBJ_SCHEMAS.setdefault("Dist", {})
    sym.OBJ_SCHEMAS.setdefault("Params", {})
    obs.append(vprop.fn_ob("C17", C_JSD, {"compute_clipped_negative_log_likelihood": C_NLL}, fallback=fb_dist, obid="C17.jsd.symmetric.contract", desc=C_JSD.doc))
    obs.append(_ob(C_NONNEG, fb=fb_ctor))
    obs.append(_ob(C_KEYLEN, fb=fb_ctor))
    obs.append(_ob(C_KEYINT, fb=fb_ctor))
    obs.append(_ob(C_ISMOD, {"_is_non_negative": C_NONNEG, "_is_key_length_fixed": C_KEYLEN, "_are_keys_non_negative_integer_tuples": C_KEYINT}, fb=fb_ctor))
    mathstub = types.SimpleNamespace(isclose=lambda a, b: SPEC["ISCLOSE1"](a) if b == 1 else (_ for _ in ()).throw(sym.Unsupported("math.isclose(x, y != 1)")))
    obs.append(_ob(C_ISNORM, fb=fb_ctor, extra=lambda: {"math": mathstub}))
    obs.append(_ob(C_PRE, fb=fb_ctor))
    obs.append(_ob(C_NORMALIZE, fb=fb_ctor, timeout_ms=60000))

    def setup_init(args, ns):
        Cls = ns["MeasurementOutcomeDistribution"]
        args["self"] = Cls.__new__(Cls)
        args["input_dict"] = mk_input("input_dict")

    warn = types.SimpleNamespace(warn=lambda *a, **k: None)

    def pre_stub(d):
        """C_PRE read at the level of the dictionary model: a NEW dictionary object with the input's members, values and iteration order"""
        return vrt.SDict(d.valtype, d.has, d.val, d.keyseq)
    obs.append(_ob(C_INIT, {"is_measurement_outcome_distribution": C_ISMOD, "is_normalized": C_ISNORM,
                            "normalize_measurement_outcome_distribution": C_NORMALIZE}, fb=fb_ctor,
                   call=lambda ns, a: ns["MeasurementOutcomeDistribution"].__init__(a["self"], a["input_dict"], a["normalize"]),
                   setup=setup_init, post_env=lambda a, ns: {"dd": a["self"].distribution_dict}, extra=lambda: {"warnings": warn, "preprocess_distibution_dict": pre_stub},
                   obid="C17.ctor.contract", timeout_ms=60000))
    obs.append(vprop.enum_ob("C17.ctor.family.enum", [C_INIT.key, C_NORMALIZE.key, C_ISMOD.key], lambda: fallback_cases("__init__"), judge,
                             "bounded: the constructor contract read natively on a structural family (0..6 tuple keys; totals equal to / next to / far from 1 / zero / denormal; "
                             "negative values; keys of unequal length; negative entries; both normalisation modes)"))
    return obs
