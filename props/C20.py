"""C20 - value-returning operations never modify their arguments (and read no hidden state).

Deductive part (Engine F, static frame/ownership analysis of the real AST, re-read on every run): for every listed
operation the obligation `modifies(arguments, self, module state) = {}` is generated; each mutating statement
(attribute / item assignment, del, augmented assignment, mutating method call, call of a repository function whose
own summary mutates an argument or returns an alias of one that is later mutated) must have a FRESH target.
Frozen dataclasses are checked to be declared frozen.  Declared ghost caches: PauliTerm._circuit, PauliSum._circuits,
PauliSum._is_ising (written once, read only by the property they cache).
Bounded part: deep snapshots of every argument before / after each listed call on sample objects, and
"same call twice gives equal results".
"""
from __future__ import annotations

import copy

from vfw import core, frame, vprop, replay as rp
from vfw.core import Ob

LEVEL = "proof"
MANIFEST = {
    "engine": "engine-F",
    "category": "proof",
    "technique": "contract-based deductive verification of frame conditions: for each listed operation the contract 'modifies nothing reachable from its arguments, the receiver or module-level state' is decided by a static ownership/alias analysis of the current AST (fresh / reaches-parameter / module-state provenance, interprocedural summaries of repository callees, assumed effect summaries for library calls); deep before/after snapshots on sample objects as bounded cross-check and replay vehicle",
    "text": "A frame condition is a universal statement over all arguments and call histories; the analysis proves, per operation, that every write goes to an object allocated in that activation. Where the analysis cannot classify a write (unknown static type of an augmented assignment target) the obligation is undecided and handed to the bounded snapshot oracle, and the evidence says so.",
    "note": "Trusted: the analysis' effect summaries for numpy/scipy/sympy/json/itertools/copy (they do not modify their arguments), the list of mutating method names, scalar-attribute inference from annotations. Not covered: writes performed inside C extensions.",
}
TRUSTED = ["vfw/frame.py provenance analysis (sound for the Python statements it models; library calls by assumed summaries)",
           "dataclass(frozen=True) prevents attribute writes (checked to be declared)"]
ASSUMPTIONS = ["library calls (numpy, scipy, sympy, json, itertools, functools, copy, collections, re) do not modify their arguments",
               "attributes inferred scalar from their annotations (coefficient, exponent, num_qubits, ...) hold immutable numbers",
               "ghost caches PauliTerm._circuit, PauliSum._circuits, PauliSum._is_ising are not observable through the listed operations"]
EXTRA = {"explanation": "one frame obligation per listed operation, decided statically on the current AST; undecided ones fall back to before/after snapshots"}

_C = "orquestra.quantum.circuits._circuit:"
_G = "orquestra.quantum.circuits._gates:"
_P = "orquestra.quantum.operators._pauli_operators:"
_M = "orquestra.quantum.measurements.measurements:"
_D = "orquestra.quantum.distributions._measurement_outcome_distribution:"
_W = "orquestra.quantum.wavefunction:"
OPS = (
    [_C + "Circuit." + m for m in ("__add__", "bind", "inverse", "controlled", "to_unitary", "free_symbols", "collect_custom_gate_definitions", "__eq__")]
    + [_C + "_append_operation", _C + "_append_circuit", _C + "split_circuit"]
    + ["orquestra.quantum.circuits._serde:" + m for m in ("to_dict", "circuit_from_dict", "circuitset_from_dict", "_gate_from_dict", "custom_gate_def_from_dict")]
    + [_G + m for m in ("GateOperation.bind", "GateOperation.replace_params", "GateOperation.lifted_matrix", "GateOperation.apply",
                        "MatrixFactoryGate.matrix", "MatrixFactoryGate.bind", "MatrixFactoryGate.replace_params", "MatrixFactoryGate.controlled",
                        "MatrixFactoryGate.dagger", "MatrixFactoryGate.power", "MatrixFactoryGate.exp",
                        "ControlledGate.matrix", "ControlledGate.controlled", "ControlledGate.dagger", "ControlledGate.power", "ControlledGate.bind",
                        "ControlledGate.replace_params", "Dagger.matrix", "Dagger.controlled", "Dagger.bind", "Dagger.replace_params",
                        "Power.matrix", "Power.controlled", "Power.dagger", "Power.replace_params", "Exponential.matrix", "Exponential.dagger",
                        "CustomGateMatrixFactory.__call__", "CustomGateDefinition.__call__")]
    + ["orquestra.quantum.circuits._unitary_tools:_lift_matrix", "orquestra.quantum.circuits._operations:sub_symbols", "orquestra.quantum.circuits._operations:get_free_symbols"]
    + [_P + "PauliTerm." + m for m in ("__add__", "__radd__", "__sub__", "__rsub__", "__mul__", "__rmul__", "__truediv__", "__pow__", "copy", "__eq__", "__hash__",
                                       "_multiply_by_operator", "__repr__")]
    + [_P + "PauliSum." + m for m in ("__add__", "__radd__", "__sub__", "__rsub__", "__mul__", "__rmul__", "__truediv__", "__pow__", "simplify", "__eq__", "__repr__")]
    + [_P + "_efficient_exponentiation"]
    + ["orquestra.quantum.operators._openfermion_utils.operator_utils:hermitian_conjugated", "orquestra.quantum.operators._openfermion_utils.operator_utils:is_hermitian",
       "orquestra.quantum.operators._io:convert_op_to_dict", "orquestra.quantum.operators._io:convert_dict_to_op",
       "orquestra.quantum.operators._openfermion_utils.sparse_tools:get_sparse_operator", "orquestra.quantum.operators._utils:reverse_qubit_order",
       "orquestra.quantum.operators._utils:get_expectation_value", "orquestra.quantum.operators._utils:get_pauliop_from_matrix"]
    + [_M + "Measurements." + m for m in ("get_counts", "get_distribution", "get_expectation_values", "save", "get_measurements_representing_distribution")]
    + [_M + "get_expectation_value_from_frequencies", "orquestra.quantum.measurements.parities:get_parities_from_measurements",
       "orquestra.quantum.measurements.parities:check_parity_of_vector"]
    + [_D + m for m in ("MeasurementOutcomeDistribution.__init__", "MeasurementOutcomeDistribution.subdistribution", "preprocess_distibution_dict", "is_normalized",
                        "save_measurement_outcome_distribution", "change_tuple_dict_keys_to_comma_separated_integers", "evaluate_distribution_distance")]
    + ["orquestra.quantum.distributions.mmd:compute_mmd", "orquestra.quantum.distributions.clipped_negative_log_likelihood:compute_clipped_negative_log_likelihood",
       "orquestra.quantum.distributions.jensen_shannon_divergence:compute_jensen_shannon_divergence"]
    + [_W + m for m in ("Wavefunction.get_probabilities", "Wavefunction.get_outcome_probs", "Wavefunction.bind", "Wavefunction.amplitudes", "sample_from_wavefunction",
                        "flip_wavefunction", "flip_amplitudes")]
    + ["orquestra.quantum.circuits._itertools:" + m for m in ("_combine_measurements", "combine_measurement_counts", "combine_bitstrings", "expand_sample_sizes")]
    + ["orquestra.quantum.decompositions._decomposition:decompose_operations", "orquestra.quantum.decompositions._decomposition:decompose_operation",
       "orquestra.quantum.evolution:time_evolution", "orquestra.quantum.evolution:time_evolution_for_term", "orquestra.quantum.estimation._estimation:evaluate_estimation_circuits",
       "orquestra.quantum.circuits._wavefunction_operations:MultiPhaseOperation.apply", "orquestra.quantum.circuits._wavefunction_operations:MultiPhaseOperation.bind",
       "orquestra.quantum.runners.symbolic_simulator:SymbolicSimulator._get_wavefunction_from_native_circuit",
       "orquestra.quantum.circuits.symbolic.translations:translate_expression", "orquestra.quantum.circuits.symbolic.translations:translate_function_call",
       "orquestra.quantum.circuits.symbolic.sympy_expressions:expression_from_sympy"]
)
GHOST = {"PauliTerm": ("_circuit",), "PauliSum": ("_circuits", "_is_ising")}
FROZEN = ["GateOperation", "MatrixFactoryGate", "ControlledGate", "Dagger", "Power", "Exponential", "CustomGateDefinition", "CustomGateMatrixFactory", "MultiPhaseOperation"]


def _snap(x, depth=0):
    """structural deep snapshot (order of dict items included)"""
    import numpy as np
    if depth > 6:
        return repr(type(x))
    if isinstance(x, np.ndarray):
        return ("nd", x.shape, x.tobytes(), str(x.dtype))
    if isinstance(x, dict):
        return ("dict", [(_snap(k, depth + 1), _snap(v, depth + 1)) for k, v in x.items()])
    if isinstance(x, (list, tuple)):
        return (type(x).__name__, [_snap(v, depth + 1) for v in x])
    if isinstance(x, (set, frozenset)):
        return ("set", sorted(repr(_snap(v, depth + 1)) for v in x))
    if isinstance(x, (int, float, complex, str, bytes, bool)) or x is None:
        return x
    if hasattr(x, "__dict__"):
        d = {k: v for k, v in vars(x).items() if k not in ("_circuit", "_circuits", "_is_ising")}
        return (type(x).__name__, _snap(d, depth + 1))
    if hasattr(x, "__dataclass_fields__"):
        return (type(x).__name__, [_snap(getattr(x, f), depth + 1) for f in x.__dataclass_fields__])
    return repr(x)


def _samples():
    """name -> thunk returning (callable, args list).  The callable's result must be deterministic."""
    import io
    import numpy as np
    import sympy
    from orquestra.quantum.circuits import Circuit, X, Z, H, RX, RY, CNOT, T, to_dict, circuit_from_dict
    from orquestra.quantum.circuits import _itertools as it
    from orquestra.quantum.distributions import MeasurementOutcomeDistribution, compute_mmd, compute_clipped_negative_log_likelihood, compute_jensen_shannon_divergence
    from orquestra.quantum.measurements import Measurements, get_parities_from_measurements
    from orquestra.quantum.operators import PauliSum, PauliTerm, convert_op_to_dict, convert_dict_to_op, get_sparse_operator, hermitian_conjugated, is_hermitian, \
        reverse_qubit_order, get_expectation_value
    from orquestra.quantum.wavefunction import Wavefunction, sample_from_wavefunction, flip_wavefunction
    th = sympy.Symbol("theta")

    def circ():
        return Circuit([X(0), RX(th)(1), CNOT(0, 2), T(1), RY(0.3).controlled(1)(2, 0)], n_qubits=4)

    def ps():
        return PauliSum([PauliTerm("Z0*Z1", 0.5), PauliTerm("Z0*Z1", 0.25), PauliTerm("X0", 2.0), PauliTerm("I0", 1.5)])

    def meas():
        return Measurements([(0, 1, 0), (1, 1, 0), (0, 1, 0), (1, 0, 1)])

    def dist():
        return MeasurementOutcomeDistribution({(0, 1, 1): 1.0, (1, 1, 0): 2.0, (0, 0, 0): 1.0}, normalize=False)
    S = {}
    S["Circuit.__add__(circuit)"] = lambda: (lambda a, b: a + b, [circ(), circ()])
    S["Circuit.__add__(op)"] = lambda: (lambda a, b: a + b, [circ(), Z(3)])
    S["Circuit.bind"] = lambda: (lambda c, m: c.bind(m), [circ(), {th: 0.5}])
    S["Circuit.inverse"] = lambda: (lambda c: c.bind({th: 0.1}).inverse(), [circ()])
    S["Circuit.controlled"] = lambda: (lambda c: c.controlled(1), [circ()])
    S["Circuit.to_unitary"] = lambda: (lambda c: np.array(c.bind({th: 0.2}).to_unitary(), dtype=complex).round(12).tolist(), [circ()])
    S["Circuit.free_symbols"] = lambda: (lambda c: c.free_symbols, [circ()])
    S["to_dict/from_dict"] = lambda: (lambda c: circuit_from_dict(to_dict(c)), [circ()])
    S["Gate.modifiers"] = lambda: (lambda g: (g.controlled(2), g.dagger, g.bind({th: 1.0}), g.replace_params((0.2,)), g.bind({th: 1.0}).power(2).matrix), [RX(th)])
    def _sim_state(c, v):
        from orquestra.quantum.circuits import MultiPhaseOperation
        from orquestra.quantum.runners.symbolic_simulator import SymbolicSimulator
        cc = Circuit([MultiPhaseOperation((0.1, 0.2, 0.3, 0.4)), X(0), MultiPhaseOperation((0.0, -0.5, 0.25, 1.0))], n_qubits=2)
        return np.array(SymbolicSimulator().get_wavefunction(cc, v).amplitudes).round(12).tolist()
    S["simulator(initial_state, phase ops first)"] = lambda: (_sim_state, [None, np.array([0.5, 0.5j, -0.5, 0.5], dtype=complex)])
    S["MultiPhaseOperation.apply"] = lambda: (lambda op, v: np.array(op.apply(v)).round(12).tolist(),
                                              [__import__("orquestra.quantum.circuits", fromlist=["x"]).MultiPhaseOperation((0.3, 1.1, -0.4, 2.0)), np.array([0.5, 0.5j, -0.5, 0.5], dtype=complex)])
    S["Op.lifted/apply"] = lambda: (lambda op, v: (np.array(op.lifted_matrix(3)).tolist(), np.array(op.apply(v)).tolist()), [CNOT(2, 0), np.arange(8, dtype=complex) / 12.0])
    a, b = PauliTerm("Z0*Z1", 0.5), PauliTerm("Z0*Z1", 0.25)
    S["PauliTerm.arith"] = lambda: (lambda x, y: (x + y, x - y, x * y, y * x, 2 * x, x / 2, x ** 2, x == y, hash(x), x.copy(), str(x)), [PauliTerm("Z0*Z1", 0.5), PauliTerm("X0*Z1", 0.25)])
    S["PauliTerm.liketerms"] = lambda: (lambda x, y: (x + y, x + y), [PauliTerm("Z0*Z1", 0.5), PauliTerm("Z0*Z1", 0.25)])
    S["PauliSum.arith"] = lambda: (lambda s, t: (s + t, s - t, s * t, t * s, s * s, 3 * s, s / 2, s ** 2, s + 1, 1 - s, s == s, str(s)), [ps(), PauliTerm("Y1", 1j)])
    S["PauliSum.simplify"] = lambda: (lambda s: (s.simplify(), s.simplify()), [ps()])
    S["hermitian_conjugated/is_hermitian"] = lambda: (lambda s: (hermitian_conjugated(s), is_hermitian(s), is_hermitian(s * 1j)), [ps()])
    S["op dict"] = lambda: (lambda s: convert_dict_to_op(convert_op_to_dict(s)), [ps()])
    S["convert_dict_to_op"] = lambda: (convert_dict_to_op, [convert_op_to_dict(ps())])
    S["get_sparse_operator"] = lambda: (lambda s: get_sparse_operator(s, 3).toarray().tolist(), [ps()])
    S["reverse_qubit_order"] = lambda: (lambda s: reverse_qubit_order(s, 3), [ps()])
    S["get_expectation_value"] = lambda: (lambda s, w: complex(get_expectation_value(s, w)), [ps(), Wavefunction(np.array([0.5, 0.5, 0.5, 0.5], dtype=complex))])
    S["Measurements.queries"] = lambda: (lambda m, o: (m.get_counts(), m.get_distribution().distribution_dict, m.get_expectation_values(o).values.tolist(),
                                                          m.get_counts(), get_parities_from_measurements(m.bitstrings, o).values.tolist()),
                                         [meas(), PauliSum([PauliTerm("Z0", 1.0), PauliTerm("Z1*Z2", 2.0), PauliTerm("I0", 3.0)])])
    def _save(m):
        import os
        import tempfile
        d = tempfile.mkdtemp()
        try:
            m.save(os.path.join(d, "m.json"))
            return Measurements.load_from_file(os.path.join(d, "m.json")).bitstrings
        finally:
            import shutil
            shutil.rmtree(d, ignore_errors=True)
    S["Measurements.save"] = lambda: (_save, [meas()])
    S["Distribution.__init__"] = lambda: (lambda d: MeasurementOutcomeDistribution(d).distribution_dict, [{(0, 1): 2.0, (1, 1): 6.0}])
    S["Distribution.__init__(str keys)"] = lambda: (lambda d: MeasurementOutcomeDistribution(d).distribution_dict, [{"01": 2.0, "11": 6.0}])
    S["Distribution(normalize from other's dict)"] = lambda: (lambda d: MeasurementOutcomeDistribution(d.distribution_dict, normalize=True).distribution_dict, [dist()])
    S["subdistribution"] = lambda: (lambda d: (d.subdistribution([2, 0]).distribution_dict, d.subdistribution([1]).distribution_dict), [dist()])
    nd = lambda: MeasurementOutcomeDistribution({"00": 0.5, "11": 0.5})
    md = lambda: MeasurementOutcomeDistribution({"00": 1.0})
    S["distances"] = lambda: (lambda t, m, p: (compute_mmd(t, m, p), compute_clipped_negative_log_likelihood(t, m, p), compute_jensen_shannon_divergence(t, m, p),
                                               compute_jensen_shannon_divergence(m, t, p)), [nd(), md(), {"sigma": 0.7, "epsilon": 1e-6}])
    S["Wavefunction.reads"] = lambda: (lambda w: (w.get_probabilities().tolist(), w.get_outcome_probs(), w.amplitudes.tolist(), flip_wavefunction(w).amplitudes.tolist()),
                                       [Wavefunction(np.array([0.5, 0.5j, -0.5, 0.5], dtype=complex))])
    # amplitudes typed with 6-7 significant digits (norm off by 1e-7, accepted by the constructor), a caller-owned array, a wide state
    S["Wavefunction.reads (rounded amplitudes)"] = lambda: (lambda w: (w.get_probabilities().tolist(), w.get_outcome_probs(), w.amplitudes.tolist()),
                                                            [Wavefunction(np.array([0.707107, 0.707107], dtype=complex))])
    S["Wavefunction.reads (caller's array)"] = lambda: (lambda a: (lambda w: (w.get_probabilities().tolist(), w.get_outcome_probs()))(Wavefunction(a)),
                                                        [np.array([0.5000001, 0.4999999j, -0.5, 0.5], dtype=complex)])
    S["Wavefunction.reads (10 qubits, rounded)"] = lambda: (lambda w: (float(np.sum(w.get_probabilities())), len(w.get_outcome_probs()), w.amplitudes[:4].tolist()),
                                                            [Wavefunction(np.round(np.full(1024, 1 / 32.0) * (1 + 1e-7 * np.cos(np.arange(1024))), 9).astype(complex))])
    S["Wavefunction.bind"] = lambda: (lambda w, m: w.bind(m).amplitudes.tolist(), [Wavefunction([sympy.Symbol("a"), 0.6, 0.0, 0.0]), {sympy.Symbol("a"): 0.8}])
    S["sample_from_wavefunction"] = lambda: (lambda w: sample_from_wavefunction(w, 5, 3), [Wavefunction(np.array([0.5, 0.5j, -0.5, 0.5], dtype=complex))])
    S["represent distribution"] = lambda: (lambda d: len(Measurements.get_measurements_representing_distribution(d, 7).bitstrings), [MeasurementOutcomeDistribution({"00": 0.3, "11": 0.7})])
    shared = {"0": 2, "1": 1}
    S["combine counts (aliased copies)"] = lambda: (lambda ms, mult: it.combine_measurement_counts(ms, mult), [[{"0": 2, "1": 1}] * 1 + [{"0": 1}, {"0": 1}], [2, 1]])
    S["combine counts (same dict object)"] = lambda: (lambda ms, mult: it.combine_measurement_counts(ms, mult), [(lambda d: [d, d, d])({"0": 2, "1": 1}), [3]])
    S["combine bitstrings"] = lambda: (lambda bs, mult: it.combine_bitstrings(bs, mult), [[["0", "1"], ["1"], ["0"]], [2, 1]])
    return S


def _ghost_cases():
    return [(i, q, f) for i in range(6) for q in range(6) for f in range(7)]


def _check_ghost(case):
    """the three declared ghost caches (PauliTerm._circuit, PauliSum._circuits, PauliSum._is_ising) are invisible: an operation applied after a query
    gives a result that is observably the same (terms, is_ising, is_constant, qubits, circuits, text) as the operation applied to an equal object that was never queried"""
    from orquestra.quantum.operators import PauliSum, PauliTerm, hermitian_conjugated, convert_op_to_dict, convert_dict_to_op
    i, q, f = case

    def mk():
        return [PauliSum([PauliTerm("Z0", 1.0), PauliTerm("X1", 0.5), PauliTerm("X1", -0.5)]),            # the X terms cancel on simplification
                PauliSum([PauliTerm("Z0*Z1", 1.0), PauliTerm("Y0", 0.0), PauliTerm("Z1", 2.0)]),           # a zero-coefficient Y term
                PauliSum([PauliTerm("Z0", 1.0), PauliTerm("Z1*Z2", -0.5), PauliTerm("I0", 0.25)]),         # Ising
                PauliSum([PauliTerm("X0", 1.0), PauliTerm("Z1", 1.0)]),                                    # not Ising
                PauliSum([PauliTerm("X0*Y1", 1.0), PauliTerm("X0*Y1", -1.0), PauliTerm("I0", 2.0)]),       # simplifies to a constant
                PauliSum([PauliTerm("Z3", 1.0), PauliTerm("X3", 1e-12)])][i]                               # a negligible X term

    queries = [lambda s: s.is_ising, lambda s: s.circuits, lambda s: [t.circuit for t in s.terms], lambda s: (s.n_qubits, s.is_constant, str(s), hash(s)),
               lambda s: __import__("orquestra.quantum.measurements", fromlist=["Measurements"]).Measurements([(0, 1, 0, 1)] * 3).get_expectation_values(s), lambda s: s.simplify().is_ising]
    ops = [lambda s: s.simplify(), lambda s: s + PauliTerm("Z0", 1.0), lambda s: s * 2.0, lambda s: (s * s).simplify(), lambda s: hermitian_conjugated(s),
           lambda s: convert_dict_to_op(convert_op_to_dict(s)), lambda s: PauliSum(list(s.terms)) - PauliTerm("X1", 0.5)]

    def observe(r):
        return ([(sorted(t.operations), complex(t.coefficient)) for t in r.terms], r.is_ising, r.is_constant, sorted(r.qubits), [str(c) for c in r.circuits], str(r),
                PauliSum(list(r.terms)).is_ising)
    plain = observe(ops[f](mk()))
    b = mk()
    try:
        queries[q](b)
    except Exception:
        pass
    after = observe(ops[f](b))
    if plain != after:
        return False, f"operator #{i}: operation #{f} after query #{q} gives {after[:3]}, without the query {plain[:3]}"
    if after[1] != after[6]:
        return False, f"operator #{i}: the result of operation #{f} reports is_ising = {after[1]} but an equal operator built from its terms reports {after[6]}"
    return True, "ok"


def _check_sample(name):
    fn, args = _samples()[name]()
    before = _snap(args)
    r1 = fn(*args)
    after = _snap(args)
    if before != after:
        return False, f"{name}: an argument was modified by the call"
    r2 = fn(*args)
    if _snap(args) != before:
        return False, f"{name}: an argument was modified by the second call"
    try:
        same = _snap(r1) == _snap(r2) or r1 == r2
    except Exception:
        same = True
    if not same:
        return False, f"{name}: calling twice on the same arguments gave different results: {str(r1)[:150]} vs {str(r2)[:150]}"
    return True, "ok"


def build(tier, seed):
    obs = []
    dyn_all = vprop.enum_ob("x", [], lambda: list(_samples()), _check_sample, "").run

    REL = {"convert_dict_to_op": ["op dict", "convert_dict_to_op"]}

    def frame_ob(key):
        cls = key.split(":")[1].split(".")[0]
        rel = REL.get(key.split(":")[1])
        dyn = dyn_all if rel is None else vprop.enum_ob("x", [], lambda: rel, _check_sample, "").run
        allow = GHOST.get(cls, ())
        ignore = ("self",) if key.endswith(".__init__") else ()

        def run():
            st, finds, summ = frame.frame_outcome(key, allow_self_attrs=allow, ignore_params=ignore)
            txt = "; ".join(f"{f.kind} at {f.where}: {f.what} [{f.target}]" for f in finds[:4])
            if st == "discharged":
                return core.discharged("engine-F", sample={"returns_may_alias": sorted(str(t) for t in summ.returns.top), "text": key})
            if st == "refuted":
                # look for a concrete witness with the snapshot oracle
                rep = None
                try:
                    fbo = dyn_all()
                    if fbo.status == "bounded-fail":
                        rep = fbo.replay
                except Exception:
                    pass
                return core.refuted("engine-F", f"{key.split(':')[1]} writes through an argument / module state: {txt}", cex=[f.__dict__ for f in finds[:6]],
                                    replay=rep, finding_key=key)
            return core.undecided("engine-F", f"cannot classify: {txt}")
        return Ob(f"C20.frame[{key.split(':')[1]}]", "proof", [key], run,
                  f"{key.split(':')[1]} modifies nothing reachable from its arguments / receiver and no module-level state", fallback=dyn, timeout=300)
    for key in OPS:
        obs.append(frame_ob(key))

    def frozen():
        r = frame.repo()
        missing = [c for c in FROZEN if c not in r.frozen]
        if missing:
            return core.refuted("engine-F", f"classes no longer declared @dataclass(frozen=True): {missing}")
        return core.discharged("engine-F", queries=len(FROZEN))
    obs.append(Ob("C20.frozen", "proof", ["orquestra.quantum.circuits._gates:GateOperation"], frozen,
                  "gate and operation classes are frozen dataclasses (attribute writes impossible)"))
    obs.append(vprop.enum_ob("C20.snapshot.enum", OPS[:5], lambda: list(_samples()), _check_sample,
                             "bounded: deep structural snapshot of every argument before/after each listed operation on sample objects (incl. shared / aliased inputs), "
                             "and the same call twice gives equal results", exhaustive=False, timeout=600))
    obs.append(vprop.enum_ob("C20.ghost_caches.enum", [_P + "PauliSum.simplify", _P + "PauliSum.is_ising", _P + "PauliSum.circuits", _P + "PauliTerm.circuit"], _ghost_cases, _check_ghost,
                             "bounded: 6 operators (cancelling / zero / negligible X-Y terms) x 6 queries that fill a ghost cache x 7 operations: the operation's result is observably the "
                             "same with and without the earlier query, and its cached answers agree with an equal operator built afresh"))
    return obs
