#!/usr/bin/env bash
# tools/refac_eval.sh <dir with patch.diff + demo.py> <tag> <prop> [<prop>...]
# behaviour-preserving change: the demo must pass with it, and the checks must stay silent (exit 0, no VIOLATION)
set -u
SD=$1; TAG=$2; shift 2
W=/tmp/me/$TAG
rm -rf "$W"; mkdir -p "$W"
cp -r /repo/src "$W/src"
( cd "$W" && patch -s -p1 < "$SD/patch.diff" ) || { echo "$TAG patch-failed"; exit 9; }
SEED_SRC=$W/src timeout 600 /venv/bin/python "$SD/demo.py" > "$W/demo.log" 2>&1; drc=$?
cd /verif
for P in "$@"; do
  out=$(VFW_REPO=$W ./check "$P" --tier quick --no-evidence 2>&1)
  rc=$?
  v=$(echo "$out" | grep -oE "VIOLATION property=\S+ replay=replays/[^/]+/\S+" | sed -E 's#.*replays/[^/]+/##; s#\.json##' | tr '\n' ' ')
  u=$(echo "$out" | grep -E "^\s+\[(undecided|error|bounded-pass\] .*proof (undecided|attempt))" | cut -c1-160 | tr '\n' '|')
  s=$(echo "$out" | tail -1 | cut -c1-150)
  echo "$TAG demo=$drc $P exit=$rc viol=[$v] $s $u"
done
rm -rf "$W"
