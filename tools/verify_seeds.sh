#!/usr/bin/env bash
# tools/verify_seeds.sh <Cxx> <k> : confirm a candidate seeded change in a scratch worktree of /repo (outside /repo and /verif):
#   clean tree -> demo passes; patch applies; patched tree -> demo fails, baseline test set still passes.
# Writes /tmp/sv/result_<Cxx>_<k>.json and removes the worktree.
set -u
P=$1; K=$2
SRC=/tmp/seed/$P/_seed/$K
WT=/tmp/sv/wt_${P}_$K
OUT=/tmp/sv/result_${P}_$K.json
mkdir -p /tmp/sv
git -C /repo worktree add -q --detach "$WT" HEAD || exit 9
cd "$WT"
clean_rc=0; SEED_SRC=$WT/src timeout 600 /venv/bin/python "$SRC/demo.py" > /tmp/sv/demo_clean_${P}_$K.log 2>&1 || clean_rc=$?
apply_rc=0; git apply "$SRC/patch.diff" 2>/tmp/sv/apply_${P}_$K.log || apply_rc=$?
patched_rc=0; SEED_SRC=$WT/src timeout 600 /venv/bin/python "$SRC/demo.py" > /tmp/sv/demo_patched_${P}_$K.log 2>&1 || patched_rc=$?
PYTHONPATH=$WT/src timeout 1500 /venv/bin/python -m pytest -q -p no:cacheprovider --timeout=900 --continue-on-collection-errors --junitxml=/tmp/sv/junit_${P}_$K.xml > /tmp/sv/pytest_${P}_$K.log 2>&1
lost=$(python3 /verif/tools/junit_cmp.py /tmp/sv/junit_${P}_$K.xml | head -1 | sed -E 's/.*no longer passing ([0-9]+).*/\1/')
files=$(git diff --name-only | tr '\n' ' ')
cd /
git -C /repo worktree remove --force "$WT"
echo "{\"property\": \"$P\", \"k\": $K, \"demo_clean_exit\": $clean_rc, \"patch_applies\": $apply_rc, \"demo_patched_exit\": $patched_rc, \"baseline_tests_lost\": \"$lost\", \"files\": \"$files\"}" > "$OUT"
cat "$OUT"
