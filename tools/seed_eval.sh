#!/usr/bin/env bash
# tools/seed_eval.sh <seed-dir containing patch.diff> <tag> <prop> [<prop>...]
# Run quick checks against a scratch copy of /repo/src with the patch applied (VFW_REPO), never touching /repo.
# Prints one line per property: <tag> <prop> exit=<rc> <violating obligations...>
set -u
SD=$1; TAG=$2; shift 2
W=/tmp/me/$TAG
rm -rf "$W"; mkdir -p "$W"
cp -r /repo/src "$W/src"
( cd "$W" && patch -s -p1 < "$SD/patch.diff" ) || { echo "$TAG patch-failed"; exit 9; }
cd /verif
for P in "$@"; do
  out=$(VFW_REPO=$W ./check "$P" --tier quick --no-evidence 2>&1)
  rc=$?
  v=$(echo "$out" | grep -oE "VIOLATION property=\S+ replay=replays/[^/]+/\S+" | sed -E 's#.*replays/[^/]+/##; s#\.json##' | tr '\n' ' ')
  u=$(echo "$out" | grep -E "^\s+\[(undecided|error)" | cut -c1-200 | tr '\n' '|')
  echo "$TAG $P exit=$rc viol=[$v] $u"
done
rm -rf "$W"
