#!/usr/bin/env python3
"""tools/record_refactorings.py store|eval
store: copy the behaviour-preserving refactorings written by independent sub-agents (/tmp/refac/<P>/_seed/<k>) to refactorings/<P>-r<k>/ (only those that still apply).
eval : for every directory under refactorings/: scratch copy of /repo/src with the patch applied (VFW_REPO), the agent's own property demo must pass, and the quick checks
       of the property and of C20 must stay silent (exit 0, no VIOLATION line); updates meta.json and refactorings/SUMMARY.json."""
import concurrent.futures as cf, json, os, re, shutil, subprocess, sys
ROOT = os.path.dirname(os.path.dirname(os.path.abspath(__file__)))
RD = os.path.join(ROOT, "refactorings")


def store():
    os.makedirs(RD, exist_ok=True)
    for P in [f"C{i:02d}" for i in range(1, 21)]:
        for k in (1, 2, 3):
            src = f"/tmp/refac/{P}/_seed/{k}"
            if not os.path.exists(os.path.join(src, "patch.diff")):
                continue
            if subprocess.run(["git", "-C", "/repo", "apply", "--check", os.path.join(src, "patch.diff")], capture_output=True).returncode != 0:
                print("does not apply to the current tree, skipped:", P, k)
                continue
            dst = os.path.join(RD, f"{P}-r{k}")
            os.makedirs(dst, exist_ok=True)
            for f in ("patch.diff", "demo.py"):
                shutil.copy(os.path.join(src, f), os.path.join(dst, f))
            am = json.load(open(os.path.join(src, "meta.json")))
            json.dump({"id": f"{P}-r{k}", "property": P, "kind": "behaviour-preserving refactoring", "summary": am.get("summary"), "why_equivalent": am.get("why_equivalent"),
                       "files_changed": am.get("files_changed"), "written_by": "independent sub-agent given only the property text and a scratch worktree; asked for realistic clean-ups "
                       "of the central functions that keep behaviour exactly (demo passes on both trees, 0 baseline tests lost as run by the agent)"}, open(os.path.join(dst, "meta.json"), "w"), indent=1)
            print("stored", f"{P}-r{k}")


def one(rid):
    d = os.path.join(RD, rid)
    P = rid.split("-")[0]
    r = subprocess.run([os.path.join(ROOT, "tools", "refac_eval.sh"), d, "rf-" + rid] + sorted({P, "C20"}), capture_output=True, text=True, timeout=7200)
    out, demo = {}, None
    for line in r.stdout.splitlines():
        m = re.match(r"^rf-\S+ demo=(\d+) (C\d+) exit=(\d+) viol=\[(.*?)\] (C\d+: (\d+)/(\d+) proof obligations discharged, (\d+) bounded)?", line)
        if m:
            demo = int(m.group(1))
            out[m.group(2)] = {"exit": int(m.group(3)), "violations": m.group(4).split(), "proofs_discharged": f"{m.group(6)}/{m.group(7)}" if m.group(6) else None}
    return rid, demo, out


def evaluate():
    rids = sorted(x for x in os.listdir(RD) if os.path.isdir(os.path.join(RD, x)))
    rows = []
    with cf.ThreadPoolExecutor(int(os.environ.get("JOBS", "12"))) as ex:
        for rid, demo, out in ex.map(one, rids):
            mp = os.path.join(RD, rid, "meta.json")
            meta = json.load(open(mp))
            meta["demo_exit_with_patch"] = demo
            meta["checks_run_against_it"] = out
            meta["false_alarm"] = any(v["exit"] == 1 or v["violations"] for v in out.values())
            json.dump(meta, open(mp, "w"), indent=1)
            rows.append([rid, demo, meta["false_alarm"], {p: (v["exit"], v["proofs_discharged"]) for p, v in out.items()}])
            print(rid, "demo", demo, "FALSE ALARM" if meta["false_alarm"] else "silent", rows[-1][3], flush=True)
    json.dump(rows, open(os.path.join(RD, "SUMMARY.json"), "w"), indent=1)
    print(sum(1 for r in rows if not r[2]), "of", len(rows), "silent")


if __name__ == "__main__":
    {"store": store, "eval": evaluate}[sys.argv[1]]()
