#!/usr/bin/env python3
"""tools/gen_seed_table.py: rewrite the table of DESIGN.md section 8.7 (between the header row and the next blank line) from seeded/*/meta.json"""
import json, os, re
ROOT = os.path.dirname(os.path.dirname(os.path.abspath(__file__)))
SD = os.path.join(ROOT, "seeded")


def key(s):
    p, k = s.split("-")
    return (p, int(k))


rows = []
for sid in sorted((x for x in os.listdir(SD) if os.path.isdir(os.path.join(SD, x))), key=key):
    m = json.load(open(os.path.join(SD, sid, "meta.json")))
    summ = " ".join(str(m.get("summary") or "").split()).replace("|", "/")
    summ = summ[:150] + ("..." if len(summ) > 150 else "")
    runs = m.get("checks_run_against_it", {})
    P = m["property"]
    own = [v.split(".", 1)[1] if v.startswith(P + ".") else v for v in runs.get(P, {}).get("violations", [])][:3]
    other = {p: [v.split(".", 1)[1] for v in r.get("violations", [])][:2] for p, r in runs.items() if p != P and r.get("n_violations")}
    txt = ", ".join(own) if own else "MISSED"
    for p, vs in other.items():
        if P != p:
            txt += f" (+{p}: {', '.join(vs)})"
    rows.append(f"| {sid} | {summ} | {txt} |")
p = os.path.join(ROOT, "DESIGN.md")
s = open(p).read()
head = "| id | change (abridged) | failing obligations of the property's own check |\n|---|---|---|\n"
a = s.index(head) + len(head)
b = s.index("\n\n", a)
s = s[:a] + "\n".join(rows) + s[b:]
open(p, "w").write(s)
print(len(rows), "rows")
