#!/usr/bin/env bash
# tools/verify_seeds2.sh <Cxx> <k> <srcroot> : as verify_seeds.sh, reading the candidate from <srcroot>/<Cxx>/_seed/<k>
set -u
P=$1; K=$2; ROOTS=$3
SRC=$ROOTS/$P/_seed/$K
WT=/tmp/sv2/wt_${P}_$K
OUT=/tmp/sv2/result_${P}_$K.json
mkdir -p /tmp/sv2
[ -f "$SRC/patch.diff" ] || { echo "{\"property\": \"$P\", \"k\": $K, \"missing\": true}" > "$OUT"; exit 0; }
git -C /repo worktree add -q --detach "$WT" HEAD || exit 9
cd "$WT"
clean_rc=0; SEED_SRC=$WT/src timeout 900 /venv/bin/python "$SRC/demo.py" > /tmp/sv2/demo_clean_${P}_$K.log 2>&1 || clean_rc=$?
apply_rc=0; git apply "$SRC/patch.diff" 2>/tmp/sv2/apply_${P}_$K.log || apply_rc=$?
patched_rc=0; SEED_SRC=$WT/src timeout 900 /venv/bin/python "$SRC/demo.py" > /tmp/sv2/demo_patched_${P}_$K.log 2>&1 || patched_rc=$?
PYTHONPATH=$WT/src timeout 1500 /venv/bin/python -m pytest -q -p no:cacheprovider --timeout=900 --continue-on-collection-errors --junitxml=/tmp/sv2/junit_${P}_$K.xml > /tmp/sv2/pytest_${P}_$K.log 2>&1
lost=$(python3 /verif/tools/junit_cmp.py /tmp/sv2/junit_${P}_$K.xml | head -1 | sed -E 's/.*no longer passing ([0-9]+).*/\1/')
cd /
git -C /repo worktree remove --force "$WT"
echo "{\"property\": \"$P\", \"k\": $K, \"demo_clean_exit\": $clean_rc, \"patch_applies\": $apply_rc, \"demo_patched_exit\": $patched_rc, \"baseline_tests_lost\": \"$lost\"}" > "$OUT"
cat "$OUT"
