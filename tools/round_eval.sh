#!/usr/bin/env bash
# tools/round_eval.sh <root> <P> <K> : confirm candidate <root>/<P>/_seed/<K> (scratch worktree) and run <P>'s quick check against it (scratch copy)
ROOT=$1; P=$2; K=$3
mkdir -p /tmp/sv2
/verif/tools/verify_seeds2.sh $P $K $ROOT > /dev/null 2>&1
conf=$(cat /tmp/sv2/result_${P}_$K.json 2>/dev/null)
ev=$(/verif/tools/seed_eval.sh $ROOT/$P/_seed/$K $P-$(basename $ROOT)-$K $P 2>&1 | cut -c1-260)
echo "$conf || $ev"
