#!/usr/bin/env python3
"""Regenerate MANIFEST.json from props/*.py metadata (MANIFEST dict in each module) so that it
is always schema-valid and lists every property either as a check or as not_applicable."""
import importlib, json, os, sys
ROOT = os.path.dirname(os.path.dirname(os.path.abspath(__file__)))
sys.path.insert(0, ROOT)
props = [json.loads(l)["id"] for l in open(os.path.join(ROOT, "properties.jsonl"))]
import ast
checks, na = [], []
NOT_BUILT = "check not built yet in this round (see DESIGN.md section 6 build order); nothing is claimed"
for p in props:
    path = os.path.join(ROOT, "props", p + ".py")
    meta = None
    if os.path.exists(path):
        tree = ast.parse(open(path).read())
        for node in tree.body:
            if isinstance(node, ast.Assign) and getattr(node.targets[0], "id", "") == "MANIFEST":
                meta = ast.literal_eval(node.value)
    if meta is None or meta.get("not_applicable"):
        na.append({"property_id": p, "reason": (meta or {}).get("not_applicable", NOT_BUILT)})
        continue
    checks.append({
        "property_id": p,
        "quick_cmd": f"./check {p} --tier quick",
        "thorough_cmd": f"./check {p} --tier thorough",
        "evidence_file": f"evidence/{p}.json",
        "replay_cmd_template": f"./check {p} --replay {{path}}",
        "engine": meta["engine"],
        "level_claimed": {"category": meta["category"], "text": meta["text"], "design_ref": meta.get("design_ref", "DESIGN.md section 3, " + p)},
        "level_note": meta["note"],
        "technique": meta["technique"],
    })
def _serves(*mods):
    out = []
    for pid in props:
        path = os.path.join(ROOT, "props", pid + ".py")
        txt = open(path).read() if os.path.exists(path) else ""
        if any(("vfw import" in l or "from vfw" in l) and any(m in l for m in mods) for l in txt.splitlines()) or any(f"vfw.{m}" in txt or f"import {m}" in txt for m in mods):
            out.append(pid)
    return out


engines = [
    {"name": "engine-M", "path": "vfw/trig.py", "serves_properties": _serves("trig", "mcheck", "circ_m", "gates_m"),
     "kind_free_text": "shadow execution of the real matrix-expression code (src.shadow_load) over an exact trig-polynomial domain; identities decided by ring normal form + z3 nlsat (vfw/trig.py, gates_m.py, circ_m.py, mcheck.py)"},
    {"name": "engine-V", "path": "vfw/vcontract.py", "serves_properties": _serves("vcontract", "cmodel", "exmodel"),
     "kind_free_text": "VC generation by shadow execution of the real function text over z3-backed symbolic values; loops cut by sidecar invariants; callees replaced by their contracts; abstract models for circuits (cmodel.py) and sympy expressions (exmodel.py); candidate counter-models replayed natively (vfw/sym.py, vtypes.py, xform.py, vrt.py, vcontract.py, vprop.py, vnative.py)"},
    {"name": "engine-F", "path": "vfw/frame.py", "serves_properties": list(props),
     "kind_free_text": "static frame / ownership / purity checker over the real AST; pinned modifies clauses for every function of the anchored modules (contracts/frames.json) checked by every property"},
    {"name": "lean-prelude", "path": "lean/Prelude.lean", "serves_properties": [pid for pid in props if os.path.exists(os.path.join(ROOT, "props", pid + ".py")) and "lean.prelude_ob" in open(os.path.join(ROOT, "props", pid + ".py")).read()],
     "kind_free_text": "Lean 4 / Mathlib twins of the trusted rewriting rules and prelude lemmas, re-checked in the thorough tier"},
]
m = {
    "version": 1,
    "setup_cmd": "./setup.sh",
    "hooks": {"guard": "ORQUESTRA_QUANTUM_VERIF", "enable": "no hooks are needed: contracts are sidecars under /verif and the real source is re-read on every run",
              "baseline_off_cmd": "cd /repo && /venv/bin/python -m pytest -ra -q -p no:cacheprovider --timeout=900 --continue-on-collection-errors",
              "source_commits": [], "add_only": True},
    "engines": engines,
    "checks": checks,
    "not_applicable": na,
    "notes": "Contract-based deductive verification with home-grown VC generators over the real source (no Python deductive verifier exists in the sandbox); see DESIGN.md. Exit codes: 0 held, 1 violation (VIOLATION line), 2 undecided, 3 checker error.",
}
json.dump(m, open(os.path.join(ROOT, "MANIFEST.json"), "w"), indent=1)
import jsonschema
jsonschema.validate(m, json.load(open("/root/.vp/MANIFEST.schema.json")))
print("MANIFEST.json:", len(checks), "checks,", len(na), "not_applicable; valid")
