#!/usr/bin/env python3
"""Regenerate MANIFEST.json from props/*.py metadata (MANIFEST dict in each module) so that it
is always schema-valid and lists every property either as a check or as not_applicable."""
import importlib, json, os, sys
ROOT = os.path.dirname(os.path.dirname(os.path.abspath(__file__)))
sys.path.insert(0, ROOT)
props = [json.loads(l)["id"] for l in open(os.path.join(ROOT, "properties.jsonl"))]
import ast
checks, na = [], []
NOT_BUILT = "check not built yet in this round (see DESIGN.md section 6 build order); nothing is claimed"
for p in props:
    path = os.path.join(ROOT, "props", p + ".py")
    meta = None
    if os.path.exists(path):
        tree = ast.parse(open(path).read())
        for node in tree.body:
            if isinstance(node, ast.Assign) and getattr(node.targets[0], "id", "") == "MANIFEST":
                meta = ast.literal_eval(node.value)
    if meta is None or meta.get("not_applicable"):
        na.append({"property_id": p, "reason": (meta or {}).get("not_applicable", NOT_BUILT)})
        continue
    checks.append({
        "property_id": p,
        "quick_cmd": f"./check {p} --tier quick",
        "thorough_cmd": f"./check {p} --tier thorough",
        "evidence_file": f"evidence/{p}.json",
        "replay_cmd_template": f"./check {p} --replay {{path}}",
        "engine": meta["engine"],
        "level_claimed": {"category": meta["category"], "text": meta["text"], "design_ref": meta.get("design_ref", "DESIGN.md section 3, " + p)},
        "level_note": meta["note"],
        "technique": meta["technique"],
    })
engines = [
    {"name": "engine-M", "path": "vfw/trig.py", "serves_properties": ["C02", "C07", "C16", "C18"],
     "kind_free_text": "shadow execution of the real matrix-expression code over an exact trig-polynomial domain; identities decided by ring normal form + z3 nlsat"},
    {"name": "engine-V", "path": "vfw/symex.py", "serves_properties": [c["property_id"] for c in checks if "V" in c["engine"]],
     "kind_free_text": "VC generation by shadow execution of the real function text over z3-backed symbolic values; loops cut by sidecar invariants; callees replaced by their contracts"},
    {"name": "engine-F", "path": "vfw/frame.py", "serves_properties": ["C20", "C17", "C12"],
     "kind_free_text": "static frame/ownership checker over the real AST"},
]
m = {
    "version": 1,
    "setup_cmd": "./setup.sh",
    "hooks": {"guard": "ORQUESTRA_QUANTUM_VERIF", "enable": "no hooks are needed: contracts are sidecars under /verif and the real source is re-read on every run",
              "baseline_off_cmd": "cd /repo && /venv/bin/python -m pytest -ra -q -p no:cacheprovider --timeout=900 --continue-on-collection-errors",
              "source_commits": [], "add_only": True},
    "engines": engines,
    "checks": checks,
    "not_applicable": na,
    "notes": "Contract-based deductive verification with home-grown VC generators over the real source (no Python deductive verifier exists in the sandbox); see DESIGN.md. Exit codes: 0 held, 1 violation (VIOLATION line), 2 undecided, 3 checker error.",
}
json.dump(m, open(os.path.join(ROOT, "MANIFEST.json"), "w"), indent=1)
import jsonschema
jsonschema.validate(m, json.load(open("/root/.vp/MANIFEST.schema.json")))
print("MANIFEST.json:", len(checks), "checks,", len(na), "not_applicable; valid")
