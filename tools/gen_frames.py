#!/usr/bin/env python3
"""Pin the frame (modifies clause + memoisation decorators) of every function of the anchored modules from the reviewed tree.
Run at build time only (never by a check):  .venv/bin/python tools/gen_frames.py"""
import json, os, sys
ROOT = os.path.dirname(os.path.dirname(os.path.abspath(__file__)))
sys.path.insert(0, ROOT)
from vfw import frame
mods = set()
for l in open(os.path.join(ROOT, "properties.jsonl")):
    d = json.loads(l)
    for f in d["anchors"]["files"]:
        mods.add(f[len("src/"):-3].replace("/", "."))
out = {m: frame.write_profile(m) for m in sorted(mods)}
os.makedirs(os.path.join(ROOT, "contracts"), exist_ok=True)
json.dump(out, open(os.path.join(ROOT, "contracts", "frames.json"), "w"), indent=1, sort_keys=True)
print(len(out), "modules,", sum(len(v) for v in out.values()), "functions;", sum(1 for v in out.values() for p in v.values() if p["writes"]), "with a non-empty frame")
