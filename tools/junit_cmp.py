#!/usr/bin/env python3
"""junit_cmp.py <junit.xml>: compare the passed-test set with BASELINE.json's stable_pass."""
import json, sys, xml.etree.ElementTree as ET
base = set(json.load(open('/root/.vp/BASELINE.json'))['stable_pass'])
t = ET.parse(sys.argv[1])
passed = set()
for tc in t.iter('testcase'):
    if not any(ch.tag in ('failure', 'error', 'skipped') for ch in tc):
        passed.add(f"{tc.get('classname')}::{tc.get('name')}")
missing = sorted(base - passed)
print(f"baseline {len(base)}  passed now {len(passed)}  baseline tests no longer passing {len(missing)}  newly passing {len(passed - base)}")
for m in missing[:30]:
    print("  LOST", m)
sys.exit(1 if missing else 0)
