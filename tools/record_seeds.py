#!/usr/bin/env python3
"""Store the confirmed seeded changes under /verif/seeded/<id>/ and record which checks catch them.
For each change: apply to /repo, run the quick check of its property (and C20), undo."""
import json, os, re, shutil, subprocess, sys
ROOT = os.path.dirname(os.path.dirname(os.path.abspath(__file__)))
out_rows = []
for P in [f"C{i:02d}" for i in range(1, 21)]:
    for k in (1, 2):
        src = f"/tmp/seed/{P}/_seed/{k}"
        res = json.load(open(f"/tmp/sv/result_{P}_{k}.json"))
        confirmed = res["demo_clean_exit"] == 0 and res["patch_applies"] == 0 and res["demo_patched_exit"] != 0 and res["baseline_tests_lost"] == "0"
        if not confirmed:
            print("skip (not confirmed)", P, k)
            continue
        sid = f"{P}-{k}"
        dst = os.path.join(ROOT, "seeded", sid)
        os.makedirs(dst, exist_ok=True)
        shutil.copy(os.path.join(src, "patch.diff"), os.path.join(dst, "patch.diff"))
        shutil.copy(os.path.join(src, "demo.py"), os.path.join(dst, "demo.py"))
        meta = json.load(open(os.path.join(src, "meta.json")))
        assert subprocess.run(["git", "-C", "/repo", "diff", "--quiet"]).returncode == 0, "/repo dirty"
        subprocess.run(["git", "-C", "/repo", "apply", os.path.join(dst, "patch.diff")], check=True)
        caught = {}
        try:
            for prop in sorted({P, "C20"}):
                r = subprocess.run(["./check", prop, "--tier", "quick", "--no-evidence"], cwd=ROOT, capture_output=True, text=True, timeout=3000)
                obs = re.findall(r"VIOLATION property=\S+ replay=replays/[^/]+/(\S+?)\.json", r.stdout)
                caught[prop] = {"exit": r.returncode, "violations": obs[:12], "n_violations": len(obs)}
        finally:
            subprocess.run(["git", "-C", "/repo", "checkout", "--", "."], check=True)
        meta_out = {
            "id": sid, "property": P, "summary": meta.get("summary"), "needs_to_manifest": meta.get("needs_to_manifest"), "files_changed": meta.get("files_changed"),
            "written_by": "independent sub-agent given only the property text and a scratch worktree",
            "confirmed_by_me": {"scratch_worktree": "git worktree of /repo HEAD under /tmp/sv (removed afterwards)", "demo_on_clean_tree_exit": res["demo_clean_exit"],
                                "patch_applies_with_git_apply": res["patch_applies"] == 0, "demo_with_patch_exit": res["demo_patched_exit"],
                                "baseline_tests_lost_with_patch": int(res["baseline_tests_lost"]),
                                "commands": ["SEED_SRC=<wt>/src /venv/bin/python demo.py", "git apply patch.diff", "PYTHONPATH=<wt>/src /venv/bin/python -m pytest ... --junitxml; tools/junit_cmp.py"]},
            "checks_run_against_it": caught,
            "caught": any(v["n_violations"] > 0 for v in caught.values()),
        }
        json.dump(meta_out, open(os.path.join(dst, "meta.json"), "w"), indent=1)
        out_rows.append((sid, meta_out["caught"], {p: v["violations"][:3] for p, v in caught.items() if v["n_violations"]}))
        print(sid, "caught" if meta_out["caught"] else "MISSED", {p: v["violations"][:2] for p, v in caught.items() if v["n_violations"]}, flush=True)
json.dump(out_rows, open(os.path.join(ROOT, "seeded", "SUMMARY.json"), "w"), indent=1)
