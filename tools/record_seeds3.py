#!/usr/bin/env python3
"""tools/record_seeds3.py store|eval
store: copy the confirmed round-3 candidates (/tmp/seed3/<P>/_seed/<k>, confirmation in /tmp/sv2/result_<P>_<k>.json) to seeded/<P>-<k+2>/.
eval : run the quick checks of the seed's property and of C20 against a scratch copy of /repo/src with the patch applied (VFW_REPO; /repo itself
       is never touched), for EVERY directory under seeded/, 14 at a time; update meta.json and SUMMARY.json."""
import concurrent.futures as cf, json, os, re, shutil, subprocess, sys
ROOT = os.path.dirname(os.path.dirname(os.path.abspath(__file__)))
SD = os.path.join(ROOT, "seeded")


def store(root="/tmp/seed3", offset=2, rnd=3):
    for P in [f"C{i:02d}" for i in range(1, 21)]:
        for k in (1, 2, 3):
            src = f"{root}/{P}/_seed/{k}"
            rf = f"/tmp/sv2/result_{P}_{k}.json"
            if not os.path.exists(rf) or not os.path.exists(os.path.join(src, "patch.diff")):
                continue
            res = json.load(open(rf))
            ok = res.get("demo_clean_exit") == 0 and res.get("patch_applies") == 0 and res.get("demo_patched_exit") not in (0, None) and res.get("baseline_tests_lost") == "0"
            if not ok:
                print("not confirmed, skipped:", P, k, res)
                continue
            sid = f"{P}-{k + offset}"
            dst = os.path.join(SD, sid)
            os.makedirs(dst, exist_ok=True)
            shutil.copy(os.path.join(src, "patch.diff"), os.path.join(dst, "patch.diff"))
            shutil.copy(os.path.join(src, "demo.py"), os.path.join(dst, "demo.py"))
            am = json.load(open(os.path.join(src, "meta.json")))
            json.dump(am, open(os.path.join(dst, "agent_meta.json"), "w"), indent=1)
            meta = {"id": sid, "property": P, "round": rnd, "summary": am.get("summary"), "needs_to_manifest": am.get("needs_to_manifest"), "files_changed": am.get("files_changed"),
                    "written_by": "independent sub-agent given only the property text and a scratch worktree (round 3: three changes per property, asked for state leaks, boundary inputs, histories; "
                                  "round 4: value-level defects on degenerate cases, sizes beyond the tests, unusual argument types, tolerance misuse, two-step sequences; "
                                  "round 5: personas generaliser / over-corrector / maintainer; round 6: COMBINATION defects that need two or three independent features to coincide)",
                    "confirmed_by_me": {"scratch_worktree": "git worktree of /repo HEAD under /tmp/sv2 (removed afterwards)", "demo_on_clean_tree_exit": res["demo_clean_exit"],
                                        "patch_applies_with_git_apply": True, "demo_with_patch_exit": res["demo_patched_exit"], "baseline_tests_lost_with_patch": 0,
                                        "commands": ["SEED_SRC=<wt>/src /venv/bin/python demo.py", "git apply patch.diff", "PYTHONPATH=<wt>/src /venv/bin/python -m pytest ... --junitxml; tools/junit_cmp.py"]}}
            json.dump(meta, open(os.path.join(dst, "meta.json"), "w"), indent=1)
            print("stored", sid)


def one(sid):
    d = os.path.join(SD, sid)
    P = sid.split("-")[0]
    props = sorted({P, "C20"})
    r = subprocess.run([os.path.join(ROOT, "tools", "seed_eval.sh"), d, "rec-" + sid] + props, capture_output=True, text=True, timeout=7200)
    out = {}
    for line in r.stdout.splitlines():
        m = re.match(r"^rec-\S+ (C\d+) exit=(\d+) viol=\[(.*?)\]", line)
        if m:
            v = m.group(3).split()
            out[m.group(1)] = {"exit": int(m.group(2)), "violations": v[:12], "n_violations": len(v)}
    return sid, out


def evaluate(only=None):
    sids = sorted(x for x in os.listdir(SD) if os.path.isdir(os.path.join(SD, x)) and (not only or x in only))
    rows = []
    commit = subprocess.run(["git", "-C", ROOT, "rev-parse", "--short", "HEAD"], capture_output=True, text=True).stdout.strip()
    with cf.ThreadPoolExecutor(int(os.environ.get("JOBS", "12"))) as ex:
        for sid, out in ex.map(one, sids):
            mp = os.path.join(SD, sid, "meta.json")
            meta = json.load(open(mp))
            meta["checks_run_against_it"] = out
            meta["how_checks_were_run"] = ("quick checks with VFW_REPO pointing at a scratch copy of /repo/src with patch.diff applied (tools/seed_eval.sh); /repo itself untouched; "
                                           f"/verif at or after commit {commit}")
            meta["caught"] = any(v["n_violations"] > 0 for v in out.values())
            meta["caught_by_own_property"] = bool(out.get(meta["property"], {}).get("n_violations"))
            json.dump(meta, open(mp, "w"), indent=1)
            rows.append([sid, meta["caught"], {p: v["violations"][:3] for p, v in out.items() if v["n_violations"]}])
            print(sid, "caught" if meta["caught"] else "MISSED", rows[-1][2], flush=True)
    if only:
        old = {r[0]: r for r in json.load(open(os.path.join(SD, "SUMMARY.json")))}
        old.update({r[0]: r for r in rows})
        rows = [old[k] for k in sorted(old)]
    json.dump(rows, open(os.path.join(SD, "SUMMARY.json"), "w"), indent=1)
    print(sum(1 for r in rows if r[1]), "of", len(rows), "caught")


if __name__ == "__main__":
    if sys.argv[1] == "store":
        store(*(sys.argv[2:3] or ["/tmp/seed3"]), offset=int(sys.argv[3]) if len(sys.argv) > 3 else 2, rnd=int(sys.argv[4]) if len(sys.argv) > 4 else 3)
    else:
        evaluate(set(sys.argv[2:]))
