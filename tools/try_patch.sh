#!/usr/bin/env bash
# tools/try_patch.sh <patch.diff> <prop> [<prop>...] : apply a patch to /repo, run the quick checks, undo the patch.
set -u
P=$1; shift
cd /verif
git -C /repo diff --quiet || { echo "/repo is dirty"; exit 9; }
git -C /repo apply "$P" || { echo "patch does not apply"; exit 9; }
trap 'git -C /repo checkout -- . ' EXIT
for prop in "$@"; do
  ./check "$prop" --tier quick --no-evidence 2>&1 | grep -E "VIOLATION|KNOWN|refuted|bounded-fail|undecided|error|^$prop:" | cut -c1-400
  echo "exit=$?"
done
