#!/usr/bin/env bash
# Build the overlay venv used by every check: python 3.12 of /venv (which has the repo,
# numpy, scipy, sympy installed) + z3-solver, cvc5, deal, icontract, crosshair from the
# offline wheelhouse.  Idempotent.
set -euo pipefail
cd "$(dirname "$0")"
V=.venv
if [ ! -x "$V/bin/python" ] || ! "$V/bin/python" -c "import z3, deal, orquestra.quantum" 2>/dev/null; then
  rm -rf "$V"
  /venv/bin/python -m venv "$V"
  SP=$("$V/bin/python" -c "import sysconfig; print(sysconfig.get_paths()['purelib'])")
  echo "import site; site.addsitedir('/venv/lib/python3.12/site-packages')" > "$SP/_base.pth"
  PIP_NO_INDEX=1 "$V/bin/pip" install -q --no-index --find-links /opt/veriftools/wheels \
      z3-solver cvc5 deal icontract crosshair-tool jsonschema
fi
"$V/bin/python" -c "import z3, cvc5, deal, icontract, orquestra.quantum, numpy, sympy, scipy; print('setup ok: z3', z3.get_version_string())"
