"""./check <property> [--tier quick|thorough] [--replay <file>] [--only <substr>] [--list]"""
from __future__ import annotations

import argparse
import importlib
import json
import os
import sys
import time

from . import core


def main(argv=None):
    ap = argparse.ArgumentParser(prog="check")
    ap.add_argument("prop")
    ap.add_argument("--tier", default=os.environ.get("VERIF_TIER") or "quick", choices=["quick", "thorough"])
    ap.add_argument("--replay")
    ap.add_argument("--only", default="")
    ap.add_argument("--list", action="store_true")
    ap.add_argument("-v", "--verbose", action="store_true")
    ap.add_argument("-j", "--jobs", type=int, default=0)
    ap.add_argument("--no-evidence", action="store_true")
    a = ap.parse_args(argv)
    seed = int(os.environ.get("VERIF_SEED") or 0)
    prop = a.prop
    sys.path.insert(0, core.ROOT)
    # the real package is imported from /repo's working tree (editable install points there);
    # make that explicit so a VFW_REPO scratch copy is honoured too.
    if core.SRC not in sys.path:
        sys.path.insert(0, core.SRC)
    t0 = time.time()
    try:
        mod = importlib.import_module(f"props.{prop}")
    except ModuleNotFoundError as e:
        if e.name == f"props.{prop}":
            print(f"no check for {prop}")
            return 3
        raise
    if a.replay:
        return mod.replay(a.replay) if hasattr(mod, "replay") else generic_replay(a.replay)
    obs = mod.build(a.tier, seed)
    if not getattr(mod, "NO_FRAMES", False):
        from . import vprop
        obs.append(vprop.frames_ob(prop))
    if not getattr(mod, "NO_RANDOM", False):
        from . import vprop
        ro = vprop.random_ob(prop, a.tier, seed)
        if ro is not None:
            obs.append(ro)
    obs = [o for o in obs if (a.tier == "thorough" or o.tier == "quick")]
    _attach_default_fallbacks(prop, obs)
    if a.only:
        obs = [o for o in obs if a.only in o.id]
    if a.list:
        for o in obs:
            print(o.kind, o.id, "-", o.desc)
        return 0
    if not obs:
        print(f"ERROR: zero obligations generated for {prop} (vacuity guard)")
        return 3
    outs = core.run_obligations(obs, a.jobs)
    known = core.load_known_findings()
    violations = 0
    errors = 0
    undecided = 0
    known_hits = []
    lines = []
    for ob, out in zip(obs, outs):
        if a.verbose or out.status not in ("discharged", "bounded-pass"):
            print(f"  [{out.status:12s}] {ob.id} ({out.backend}, {out.seconds:.2f}s) {(out.detail[-600:] if out.status == 'error' else out.detail[:400]) if out.status not in ('discharged','bounded-pass') or a.verbose else ''}")
        if out.status in ("refuted", "bounded-fail"):
            k = core.match_known(prop, ob, out, known)
            if k:
                msg = f"KNOWN-FINDING: property={prop} {ob.id}: {k['what']}"
                known_hits.append(msg)
                lines.append(msg)
                continue
            path = core.write_replay(prop, ob, out)
            violations += 1
            reproduced = bool(out.replay and out.replay.get("reproduced"))
            suffix = "" if reproduced else " no-failing-input-found"
            lines.append(f"VIOLATION property={prop} replay={path}{suffix}")
        elif out.status == "error":
            errors += 1
        elif out.status == "undecided":
            undecided += 1
    wall = time.time() - t0
    n_proof = sum(1 for o in obs if o.kind in ("proof", "finite"))
    n_dis = sum(1 for o, r in zip(obs, outs) if o.kind in ("proof", "finite") and r.status == "discharged")
    n_b = sum(1 for o, r in zip(obs, outs) if r.status == "bounded-pass")
    if not a.no_evidence and not a.only:
        extra = dict(getattr(mod, "EXTRA", {}))
        if hasattr(mod, "extra_evidence"):
            extra.update(mod.extra_evidence())
        core.write_evidence(prop, a.tier, seed, getattr(mod, "LEVEL", "proof"), obs, outs, wall,
                            list(getattr(mod, "ASSUMPTIONS", [])), list(getattr(mod, "TRUSTED", [])),
                            violations, known_hits, extra)
    for l in lines:
        print(l)
    print(f"{prop}: {n_dis}/{n_proof} proof obligations discharged, {n_b} bounded passed, "
          f"{len(known_hits)} known findings, {violations} violations, {undecided} undecided, {errors} errors, {wall:.1f}s")
    if violations:
        return 1
    if errors:
        return 3
    if undecided:
        return 2
    return 0


_FB_CACHE = {}


def _attach_default_fallbacks(prop, obs):
    """every proof obligation that can end undecided (the text left the engine's fragment) hands over to a bounded oracle of the same property instead of ending the
    run as 'undecided': obligations that name no oracle of their own get the property's native enumerations (run once per worker process, the first failure is the
    verdict).  Lean re-checks and pure lemma obligations are left alone (they do not depend on the repository's text)."""
    natives = [o for o in obs if o.kind == "bounded" and ("native" in o.id or o.id.endswith(".enum")) and not o.id.endswith("random.enum")]
    natives = [o for o in natives if "native" in o.id] or natives[:2]
    if not natives:
        return

    def run_natives():
        if "out" not in _FB_CACHE:
            res = None
            n = 0
            for o in natives:
                r = o.run()
                n += r.queries
                if r.status != "bounded-pass":
                    res = r
                    break
            _FB_CACHE["out"] = res or core.bounded_pass(f"{len(natives)} native enumeration(s) of the property, {n} cases", n)
        import copy
        return copy.copy(_FB_CACHE["out"])
    for o in obs:
        if o.kind in ("proof", "finite") and o.fallback is None and ".lean." not in o.id and ".lemma." not in o.id:
            o.fallback = run_natives


def generic_replay(path):
    """Re-run the native replay recorded in a replay file against the current tree."""
    from . import replay as rp
    d = json.load(open(path if os.path.isabs(path) else os.path.join(core.ROOT, path)))
    r = d.get("replay")
    if not r or "code" not in r:
        print("replay file carries no executable replay; obligation:", d["obligation"])
        print(d.get("solver_output", ""))
        return 2
    ok, observed = rp.run_code(r["code"])
    print("replay of", d["obligation"], "->", "property violated (reproduced)" if not ok else "holds now", observed)
    return 1 if not ok else 0


if __name__ == "__main__":
    sys.exit(main())
