"""Engine V, part 5: sidecar contracts, contract stubs for callees, and the per-function verification driver.

A contract is keyed by "module.path:QualName".  It is *verified* against the current text of that function in
/repo (re-read, rewritten by xform and executed over symbolic values) and it is *used instead of the body* at
call sites inside other verified functions (modular verification).
"""
from __future__ import annotations

import ast
import dataclasses
import importlib
import os
import sys
import time
import traceback
import types
from typing import Any, Callable, Dict, List, Optional

import z3

from . import core, src, sym, vrt, vtypes, xform
from .sym import Ctx, PathEnd, Unsupported, SSeq, SInt, Sym, SObj, cur, fml, lift

REGISTRY: Dict[str, "Contract"] = {}
CLASS_TAGS: Dict[str, tuple] = {}
ISINSTANCE_HOOKS: Dict[str, Callable] = {}   # SObj class tag -> (obj, types) -> bool / SBool   # SObj class tag -> tuple of real classes it is an instance of


def sobj_isinstance(x: SObj, ts):
    real = CLASS_TAGS.get(x.cls, ())
    return any(issubclass(r, t) for r in real for t in ts if isinstance(t, type))


@dataclasses.dataclass
class Contract:
    key: str
    params: Dict[str, str]                       # parameter name -> type string ('Any' = given concretely)
    requires: str = "True"
    ensures: str = "True"                        # over params, ghost names, `result`
    raises: Dict[str, str] = dataclasses.field(default_factory=dict)   # exception name -> condition over params/ghost (entry state)
    raises_exact: bool = True                    # the function raises E  iff  its condition holds (first match)
    result: str = "Any"
    ghost: Dict[str, str] = dataclasses.field(default_factory=dict)    # ghost name -> expression over params at entry
    loops: Dict[str, dict] = dataclasses.field(default_factory=dict)   # "for#0" -> {"invariant":..., "types":..., "modifies":...}
    modifies: List[str] = dataclasses.field(default_factory=list)      # e.g. ["self._n_jobs_executed"]: havoced by the stub
    modifies_types: Dict[str, str] = dataclasses.field(default_factory=dict)
    pure: bool = False                           # stub returns an uninterpreted function of the arguments
    doc: str = ""
    spec: Dict[str, Any] = dataclasses.field(default_factory=dict)      # extra names for contract expressions
    assumes: List[str] = dataclasses.field(default_factory=list)        # textual assumptions shown in evidence
    props: List[str] = dataclasses.field(default_factory=list)
    never_returns: bool = False                  # the contract says every call raises: the canary (a reachable normal exit) is replaced by 'an exceptional exit was checked'

    @property
    def module(self):
        return self.key.split(":")[0]

    @property
    def qualname(self):
        return self.key.split(":")[1]


def contract(key, **kw) -> Contract:
    c = Contract(key=key, **kw)
    REGISTRY[key] = c
    return c


# ------------------------------------------------------------------------------------------
# evaluating contract expressions

SPEC_NAMES: Dict[str, Any] = {}


def spec(name):
    def deco(f):
        SPEC_NAMES[name] = f
        return f
    return deco


@spec("seq_sum")
def _seq_sum(s, lo=None, hi=None):
    if lo is not None or hi is not None:
        s = sym.seq_slice(s, 0 if lo is None else lo, SSeq.of(s).length() if hi is None else hi)
    return sym.seq_sum(s)


@spec("psum")
def _psum(s, k):
    """prefix sum s[0] + ... + s[k-1] (uninterpreted ssum on the sequence's own array, unfolded at k)"""
    s = SSeq.of(s)
    arr, sort = sym.node_to_array(s.node)
    return sym.ssum_range(arr, sort, 0, k)


@spec("nonneg_prefix_sums")
def _nonneg_prefix_sums(s):
    """formula `all elements >= 0`; as a side effect the (trusted, Lean-twinned) lemma 'prefix sums of a sequence of
    non-negative integers are monotone' is made available for this sequence"""
    s = SSeq.of(s)
    arr, sort = sym.node_to_array(s.node)
    n = lift(s.length())
    allnn = sym.seq_forall(s, lambda v: v >= 0)
    f = sym._ssum_fn(sort)
    c = cur()
    key = ("psum_mono", str(arr))
    if key not in c.axioms_done:
        c.axioms_done.add(key)
        i, j = z3.Ints("i!mono j!mono")
        c.axioms.append(z3.Implies(allnn, z3.ForAll([i, j], z3.Implies(z3.And(0 <= i, i <= j, j <= n), f(arr, 0, i) <= f(arr, 0, j)),
                                                      patterns=[z3.MultiPattern(f(arr, 0, i), f(arr, 0, j))])))
    return sym.wrap_expr(allnn)


@spec("implies")
def _implies(a, b):
    return vrt.Implies(a, b)


@spec("old_len")
def _old_len(x):
    return vrt.v_len(x)


def eval_expr(expr: str, env: Dict[str, Any]):
    names = sorted(env)
    code = xform.compile_contract_expr(expr, names)
    g = {"_vfw": vrt, "__builtins__": __builtins__}
    g.update(vrt.REBOUND_BUILTINS)
    g.update(SPEC_NAMES)
    f = eval(code, g)
    c = cur()
    c.nofork += 1
    try:
        return f(*[env[n] for n in names])
    finally:
        c.nofork -= 1


# ------------------------------------------------------------------------------------------
# stubs: the contract instead of the body

class ContractRaise(Exception):
    pass


def make_stub(c: Contract, exc_ns: Dict[str, Any], owner: str = "", bound_self=None):
    pnames = list(c.params)

    def stub(*args, **kw):
        ctx = cur()
        env = {}
        for n, a in zip(pnames, args):
            env[n] = a
        env.update(kw)
        missing = [n for n in pnames if n not in env]
        if missing:
            raise Unsupported(f"stub {c.key}: missing arguments {missing}")
        for gname, gexpr in c.ghost.items():
            env[gname] = eval_expr(gexpr, dict(env, **c.spec))
        full = dict(env, **c.spec)
        req = eval_expr(c.requires, full)
        ctx.check(f"{owner}.call[{c.qualname}].requires", req,
                  f"precondition of {c.key} at its call site in {owner}")
        for ename, cond in c.raises.items():
            f = fml(eval_expr(cond, full))
            if ctx.decide(f):
                raise exc_ns[ename](f"[contract of {c.qualname}]")
        # effects
        for tgt in c.modifies:
            base, attr = tgt.rsplit(".", 1)
            obj = eval(base, {}, env)
            curv = getattr(obj, attr)
            ty = c.modifies_types.get(tgt) or vtypes.type_of_value(curv)
            if ty is None:
                raise Unsupported(f"stub {c.key}: cannot havoc {tgt}")
            setattr(obj, attr, vtypes.mk(ty, tgt))
        if c.pure:
            _pure_axiom(c, pnames)
            return _pure_result(c, [env[n] for n in pnames])
        res = vtypes.mk(c.result, f"ret.{c.qualname}") if c.result != "Any" else None
        full = dict(env, result=res, **c.spec)
        ctx.assume(vrt.Implies(req, eval_expr(c.ensures, full)))
        return res
    stub.__name__ = "stub_" + c.qualname.replace(".", "_")
    stub.__vfw_contract__ = c
    return stub


def _pure_axiom(c: Contract, pnames):
    """forall args. requires(args) => ensures(args, fn(args))   (added once per path)"""
    ctx = cur()
    if c.key in ctx.axioms_done:
        return
    ctx.axioms_done.add(c.key)
    vs = []
    env = {}
    for n in pnames:
        ty = vtypes.parse(c.params[n])
        if ty[0] not in ("int", "real", "bool", "obj", "str"):
            raise Unsupported(f"pure contract {c.key}: parameter {n} of non-scalar type")
        v = z3.Const(f"ax.{c.qualname}.{n}", vtypes.sort_of(ty))
        vs.append(v)
        env[n] = vtypes.wrap(ty, v)
    res = _pure_result(c, [env[n] for n in pnames])
    full = dict(env, **c.spec)
    body = z3.Implies(fml(eval_expr(c.requires, full)), fml(eval_expr(c.ensures, dict(full, result=res))))
    fapp = _pure_app(c, [env[n] for n in pnames])
    ctx.axioms.append(z3.ForAll(vs, body, patterns=[fapp]))


def _pure_app(c, args):
    es = [a.e if isinstance(a, Sym) else lift(a) for a in args]
    ty = vtypes.parse(c.result)
    f = z3.Function("fn_" + c.key.replace(":", "_"), *[e.sort() for e in es], vtypes.sort_of(ty))
    return f(*es)


def _pure_result(c: Contract, args):
    ty = vtypes.parse(c.result)
    sorts = []
    es = []
    for a in args:
        if isinstance(a, Sym):
            es.append(a.e)
        elif isinstance(a, (int, float, bool)):
            es.append(lift(a))
        else:
            raise Unsupported(f"pure stub {c.key}: argument of type {type(a).__name__}")
    f = z3.Function("fn_" + c.key.replace(":", "_"), *[e.sort() for e in es], vtypes.sort_of(ty))
    return vtypes.wrap(ty, f(*es))


# ------------------------------------------------------------------------------------------
# loading the real function text

class Shadow:
    """The current text of one module of /repo, re-created with rebound builtins, with every function that
    carries a contract rewritten by xform (loop cuts) and every *other* contracted callee replaced by its stub."""

    def __init__(self, modname: str, overrides: Optional[Dict[str, Any]] = None):
        self.modname = modname
        self.real = importlib.import_module(modname)
        self.tree = src.module_ast(modname)
        self.overrides = dict(overrides or {})

    def function_ast(self, qualname) -> ast.FunctionDef:
        return src.find_def(self.tree, qualname)

    def build(self, target: Contract, stubs: Dict[str, Any], extra_globals: Optional[Dict[str, Any]] = None):
        """namespace in which the module text has been executed with `target`'s function rewritten.
        `stubs`: global name or 'Class.method' -> callable replacing it."""
        tree = src.module_ast(self.modname)
        tree = src._DropImports().visit(tree)
        for node in ast.walk(tree):
            b = getattr(node, "body", None)
            if isinstance(b, list) and not b:
                b.append(ast.Pass())
        # rewrite the target function in place
        parts = target.qualname.split(".")
        holder = tree
        for p in parts[:-1]:
            holder = next(n for n in holder.body if isinstance(n, ast.ClassDef) and n.name == p)
        idx = max(i for i, n in enumerate(holder.body) if isinstance(n, (ast.FunctionDef,)) and n.name == parts[-1])
        ft = xform.FunctionTransformer(target.loops, target.ghost, target.qualname)
        holder.body[idx] = ft.transform(holder.body[idx])
        missing = [k for k in target.loops if k not in ft.seen]
        if missing:
            raise Unsupported(f"{target.key}: loop contract(s) {missing} do not match any loop of the current text "
                              f"(loops present: {ft.seen})")
        # a class that derives from a builtin (`class ValueEstimate(float)`) must name the real builtin class, not the symbolic-aware callable of the same name
        for node in ast.walk(tree):
            if isinstance(node, ast.ClassDef):
                node.bases = [ast.Attribute(value=ast.Name(id="_pybuiltins", ctx=ast.Load()), attr=b.id, ctx=ast.Load())
                              if isinstance(b, ast.Name) and b.id in vrt.REBOUND_BUILTINS and hasattr(__import__("builtins"), b.id) else b for b in node.bases]
        ast.fix_missing_locations(tree)
        ns = dict(self.real.__dict__)
        ns["__name__"] = self.modname
        ns["_vfw"] = vrt
        ns["_pybuiltins"] = __import__("builtins")
        ns.update(vrt.REBOUND_BUILTINS)
        for k, v in SPEC_NAMES.items():
            ns.setdefault(k, v)
        for k, v in target.spec.items():
            if callable(v):
                ns.setdefault(k, v)
        ns.update(self.overrides)
        if extra_globals:
            ns.update(extra_globals)
        code = compile(tree, src.path_of(self.modname), "exec")
        exec(code, ns)
        for name, st in stubs.items():
            if "." in name:
                cls, meth = name.split(".", 1)
                setattr(ns[cls], meth, st)
            else:
                if name in ns:
                    ns["_orig_" + name] = ns[name]     # the real (rewritten) function stays reachable for the driver
                ns[name] = st
        return ns


def shadow_all(modname: str, overrides: Optional[Dict[str, Any]] = None, loops_by_fn: Optional[Dict[str, dict]] = None) -> Dict[str, Any]:
    """Namespace in which the CURRENT text of the whole module has been executed with EVERY function (module level and
    methods) rewritten by xform - comprehensions, star calls, displays; loop cuts for the functions listed in
    `loops_by_fn` (qualname -> loops dict).  Decorators are kept (singledispatch registrations are part of the text)."""
    real = importlib.import_module(modname)
    tree = src.module_ast(modname)
    tree = src._DropImports().visit(tree)
    for node in ast.walk(tree):
        b = getattr(node, "body", None)
        if isinstance(b, list) and not b:
            b.append(ast.Pass())

    class _Ann(ast.NodeTransformer):
        """type annotations name the real builtin classes, not the rebound symbolic-aware callables (singledispatch reads them)"""

        def visit_Name(self, n):
            if n.id in vrt.REBOUND_BUILTINS and hasattr(__import__("builtins"), n.id):
                return ast.Attribute(value=ast.Name(id="_pybuiltins", ctx=ast.Load()), attr=n.id, ctx=ast.Load())
            return n

    def rewrite(holder, prefix):
        for i, n in enumerate(holder.body):
            if isinstance(n, ast.FunctionDef):
                for a in ast.walk(n.args):
                    if isinstance(a, ast.arg) and a.annotation is not None:
                        a.annotation = _Ann().visit(a.annotation)
                if n.returns is not None:
                    n.returns = _Ann().visit(n.returns)
                q = prefix + n.name
                ft = xform.FunctionTransformer((loops_by_fn or {}).get(q, {}), {}, q)
                holder.body[i] = ft.transform(n, keep_decorators=True)
            elif isinstance(n, ast.ClassDef):
                rewrite(n, prefix + n.name + ".")
    rewrite(tree, "")
    ast.fix_missing_locations(tree)
    ns = dict(real.__dict__)
    ns["__name__"] = modname
    ns["_vfw"] = vrt
    ns["_pybuiltins"] = __import__("builtins")
    ns.update(vrt.REBOUND_BUILTINS)
    for k, v in SPEC_NAMES.items():
        ns.setdefault(k, v)
    if overrides:
        ns.update(overrides)
    exec(compile(tree, src.path_of(modname), "exec"), ns)
    return ns


# ------------------------------------------------------------------------------------------
# verification of one function against its contract

@dataclasses.dataclass
class FnResult:
    key: str
    obligations: Dict[str, dict]      # name -> {"status", "vcs", "seconds", "detail", "model"}
    paths: int
    vcs: int
    seconds: float
    undecided_reason: str = ""
    canary_ok: bool = True
    span: str = ""


EXC_NS = {k: v for k, v in vars(__import__("builtins")).items() if isinstance(v, type) and issubclass(v, BaseException)}


def _origin_is_engine(tb) -> bool:
    last = traceback.extract_tb(tb)[-1]
    return "/vfw/" in last.filename or "/verif/props/" in last.filename


def _about_a_model_object(e) -> bool:
    """an AttributeError / TypeError caused by an operation our abstract models (symbolic values, the shim classes of props/*.py) do not implement says the
    code left the modelled fragment - it says nothing about the code"""
    if not isinstance(e, (AttributeError, TypeError)):
        return False
    obj = getattr(e, "obj", None)
    if obj is not None and ((type(obj).__module__ or "").split(".")[0] in ("vfw", "props") or isinstance(obj, types.SimpleNamespace)):
        return True          # (library stand-ins are SimpleNamespace objects or classes of props/*.py; the repository itself uses neither)
    names = set()
    for mn, m in list(sys.modules.items()):
        if mn.split(".")[0] in ("vfw", "props") and m is not None:
            names.update(n for n, v in vars(m).items() if isinstance(v, type) and (v.__module__ or "").split(".")[0] in ("vfw", "props"))
    msg = str(e)
    return any(("'" + n + "'") in msg for n in names)


def verify(c: Contract, call: Callable[[Dict[str, Any], Dict[str, Any]], Any],
           make_ns: Callable[[], Dict[str, Any]], max_paths=400, timeout_ms=20000,
           setup: Optional[Callable[[Dict[str, Any], Dict[str, Any]], None]] = None,
           post_env: Optional[Callable[[Dict[str, Any], Dict[str, Any]], Dict[str, Any]]] = None) -> FnResult:
    """call(ns, args) runs the rewritten real function in namespace ns on the symbolic arguments."""
    t0 = time.time()
    work: List[list] = [[]]
    obls: Dict[str, dict] = {}
    paths = 0
    vcs = 0
    undecided = ""
    normal_exits = 0
    owner = c.qualname

    def record(o):
        nonlocal vcs
        vcs += 1
        if os.environ.get("VFW_TRACE"):
            print(f"    [trace] {o['name']} {o['status']} {o['backend']} {o['s']:.2f}s", file=sys.stderr)
        d = obls.setdefault(o["name"], {"status": "discharged", "vcs": 0, "seconds": 0.0, "detail": o.get("detail", ""), "backends": set()})
        d["vcs"] += 1
        d["seconds"] += o["s"]
        d["backends"].add(o["backend"])
        if o["status"] == "refuted" and d["status"] != "refuted":
            d["status"] = "refuted"
            d["model"] = o.get("model")
            d["formula"] = o.get("formula")
        elif o["status"] == "undecided" and d["status"] == "discharged":
            d["status"] = "undecided"
            d["detail"] = o["detail"]
            d["candidate"] = o.get("candidate")

    vrt.LOOP_CONTRACTS = {k: dict(v, owner=owner) for k, v in c.loops.items()}
    ns = make_ns()
    while work:
        prefix = work.pop()
        paths += 1
        if paths > max_paths:
            undecided = f"more than {max_paths} paths"
            break
        ctx = Ctx(prefix, timeout_ms=timeout_ms)
        sym.set_cur(ctx)
        try:
            args = {}
            for n, t in c.params.items():
                if t != "Any":
                    args[n] = vtypes.mk(t, n)
                    ctx.inputs[n] = args[n]
            if setup is not None:
                setup(args, ns)
            env = dict(args, **c.spec)
            ghost = {}
            for gname, gexpr in c.ghost.items():
                ghost[gname] = eval_expr(gexpr, dict(env, **ghost))
            env.update(ghost)
            ctx.assume(eval_expr(c.requires, env))
            raise_conds = {e: fml(eval_expr(cond, env)) for e, cond in c.raises.items()}
            try:
                res = call(ns, args)
            except PathEnd:
                raise
            except Unsupported:
                raise
            except Exception as e:
                if type(e).__name__ == "_Timeout":
                    raise
                if _about_a_model_object(e) or (type(e).__module__ or "").startswith("z3"):
                    raise Unsupported(f"operation not modelled: {type(e).__name__}: {e}")
                if _origin_is_engine(e.__traceback__) and not isinstance(e, tuple(EXC_NS[k] for k in c.raises if k in EXC_NS)):
                    raise Unsupported(f"engine error {type(e).__name__}: {e} :: " + " <- ".join(f"{f.filename.split('/')[-1]}:{f.lineno}:{f.name}" for f in traceback.extract_tb(e.__traceback__)[-5:]))
                en = type(e).__name__
                if en in raise_conds:
                    ctx.check(f"{owner}.raises[{en}].only-when", raise_conds[en],
                              f"{en} is raised only when: {c.raises[en]}")
                    if f"on_{en}" in c.spec:
                        pe = dict(env, **(post_env(args, ns) if post_env is not None else {}))
                        ctx.check(f"{owner}.raises[{en}].state", eval_expr(c.spec[f"on_{en}"], pe),
                                  f"state when {en} is raised: {c.spec[f'on_{en}']}")
                else:
                    ctx.check(f"{owner}.no-unexpected-exception[{en}]", False,
                              f"{en}: {str(e)[:150]} is not allowed by the contract")
            else:
                normal_exits += 1
                if c.raises_exact:
                    for en, f in raise_conds.items():
                        ctx.check(f"{owner}.raises[{en}].whenever", z3.Not(f),
                                  f"normal return implies not ({c.raises[en]})")
                penv = dict(env, result=res)
                if post_env is not None:
                    penv.update(post_env(args, ns))
                ctx.check(f"{owner}.ensures", eval_expr(c.ensures, penv), c.ensures[:300])
                # canary: the end of this path must be reachable
                if not ctx.feasible():
                    normal_exits -= 1
        except PathEnd:
            pass
        except Unsupported as e:
            tb = traceback.extract_tb(e.__traceback__)
            where = [f for f in tb if "/vfw/" not in f.filename]
            undecided = f"{e}" + (f" [at {where[-1].filename.split('/')[-1]}:{where[-1].lineno} {where[-1].line}]" if where else "")
            for o in ctx.obls:
                record(o)
            break
        except Exception as e:
            if type(e).__name__ == "_Timeout":
                raise
            undecided = "engine crash: " + "".join(traceback.format_exception(e))[-1500:]
            break
        finally:
            sym.set_cur(None)
        for o in ctx.obls:
            record(o)
        und = [o for o in ctx.obls if o["status"] == "undecided"]
        if und:   # fail fast: the function is undecided as a whole, the bounded fallback takes over
            undecided = f"VC {und[0]['name']} undecided: {und[0]['detail'][-300:]}"
            break
        work.extend(ctx.alts)
    span = ""
    try:
        span = src.span(c.module, c.qualname)
    except Exception:
        pass
    for d in obls.values():
        d["backends"] = sorted(d["backends"])
    return FnResult(c.key, obls, paths, vcs, time.time() - t0, undecided, normal_exits > 0, span)


def outcome_of(fr: FnResult, name: str, replay=None, finding_key="") -> core.Outcome:
    """the Outcome of one named obligation of a verified function"""
    if name not in fr.obligations:
        if fr.undecided_reason:
            return core.undecided("engine-V", fr.undecided_reason, fr.seconds)
        return core.undecided("engine-V", f"obligation {name} was not generated (vacuity guard); generated: {sorted(fr.obligations)}")
    d = fr.obligations[name]
    if fr.undecided_reason:
        return core.undecided("engine-V", fr.undecided_reason, d["seconds"])
    if d["status"] == "discharged":
        return core.discharged("+".join(d["backends"]), d["seconds"], queries=d["vcs"],
                               sample={"vcs": d["vcs"], "paths_of_function": fr.paths, "text": fr.span})
    if d["status"] == "refuted":
        rep = replay(d.get("model")) if replay else None
        return core.refuted("z3", f"{d.get('detail','')} | counter-model {d.get('model')} | {d.get('formula','')}",
                            cex=d.get("model"), replay=rep, finding_key=finding_key, seconds=d["seconds"], queries=d["vcs"])
    return core.undecided("z3", d.get("detail", ""), d["seconds"])


# ------------------------------------------------------------------------------------------
# structural spec functions

@spec("is_concat_of")
def _is_concat_of(x, lens, pred):
    """x is the concatenation, over i < len(lens), of segments seg_i with len(seg_i) == lens[i] and pred(i, seg_i).
    Symbolically this is decided on the structure the code built (a flattened comprehension); natively
    (see vnative.py) x is cut by lens."""
    x = SSeq.of(x)
    node = x.node
    # strip empty literal prefixes produced by sum(..., start=[])
    while node[0] == "cat" and node[1][0] == "lit" and not node[1][1]:
        node = node[2]
    lens = SSeq.of(lens)
    if node[0] == "lit" and isinstance(lens.length(), int):
        # fully concrete shape: cut by concrete lens if they are concrete
        raise Unsupported("is_concat_of on a literal sequence")
    if node[0] != "flat":
        raise Unsupported(f"is_concat_of: value is not a flattened comprehension (node {node[0]})")
    outer = node[1]
    n = outer.length()
    c = cur()
    c.n += 1
    q = z3.Int(f"q!{c.n}")
    c.nofork += 1
    try:
        inner = SSeq.of(outer.get(SInt(q)))
        body = z3.And(lift(inner.length()) == lift(lens.get(SInt(q))), fml(pred(SInt(q), inner)))
    finally:
        c.nofork -= 1
    return sym.wrap_expr(z3.And(lift(n) == lift(lens.length()),
                                sym.mk_forall(q, z3.And(q >= 0, q < lift(n)), body)))
