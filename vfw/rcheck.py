"""Seeded-random COMBINATION cases (bounded stand-ins; never counted as proof).

Every check takes one integer and derives a whole case from it - a circuit, a pair of operators, a measurement set ... - by drawing
each independent feature (register width, idle qubits, qubit order, gate kind, wrapper nesting, custom gates, parameter kind and
scale, duplicates, term order, coefficient type, container type ...) separately, so that features that the hand-written enumerations
vary one or two at a time meet in one input.  The verdict of each case is the property statement evaluated with an independent
reference (numpy matrices built from the definition), exactly as in the enumerations.  A failing integer replays by calling the same
function on the same integer.
"""
from __future__ import annotations

import itertools
import json
import math
import random

import numpy as np
from fractions import Fraction

PI = math.pi


def rng(tag, case):
    r = random.Random(f"{tag}:{case}")
    _NP[0] = r.random() < 0.25          # in a quarter of the cases integers / floats are handed over as numpy scalars wherever the library takes numbers
    return r


_NP = [False]


def npi(x):
    """an integer, as a numpy integer in numpy-typed cases"""
    return np.int64(x) if _NP[0] else x


def npf(x):
    if not _NP[0] or isinstance(x, bool):
        return x
    if isinstance(x, int):
        return np.int64(x)
    if isinstance(x, float):
        return np.float64(x)
    if isinstance(x, complex):
        return np.complex128(x)
    return x


# ----------------------------------------------------------------------------------------------------------------- references
_P = {"I": np.eye(2, dtype=complex), "X": np.array([[0, 1], [1, 0]], dtype=complex), "Y": np.array([[0, -1j], [1j, 0]]),
      "Z": np.array([[1, 0], [0, -1]], dtype=complex)}


def embed(M, qs, n):
    """matrix acting as M on the qubits qs (first listed = most significant of M), identity elsewhere; qubit 0 = most significant bit"""
    M = np.asarray(M, dtype=complex)
    k = len(qs)
    D = 2 ** n
    out = np.zeros((D, D), dtype=complex)
    rest = [q for q in range(n) if q not in qs]
    for col in range(D):
        bits = [(col >> (n - 1 - q)) & 1 for q in range(n)]
        sub = 0
        for q in qs:
            sub = (sub << 1) | bits[q]
        for r in range(2 ** k):
            amp = M[r, sub]
            if amp == 0:
                continue
            nb = list(bits)
            for j, q in enumerate(qs):
                nb[q] = (r >> (k - 1 - j)) & 1
            row = 0
            for q in range(n):
                row = (row << 1) | nb[q]
            out[row, col] += amp
    return out


def npmat(m):
    import sympy
    if isinstance(m, np.ndarray):
        return m.astype(complex)
    return np.array([[complex(sympy.N(x)) for x in row] for row in m.tolist()], dtype=complex)


def pauli_dense(ops, n):
    """ops: {qubit: 'X'|'Y'|'Z'}"""
    out = np.array([[1]], dtype=complex)
    for q in range(n):
        out = np.kron(out, _P[ops.get(q, "I")])
    return out


def op_dense(op, n):
    """dense matrix of a PauliTerm / PauliSum from its public term data"""
    terms = op.terms if hasattr(op, "terms") else [op]
    out = np.zeros((2 ** n, 2 ** n), dtype=complex)
    for t in terms:
        out = out + complex(t.coefficient) * pauli_dense({q: o for q, o in t.operations}, n)
    return out


def ctrl(M, k):
    M = np.asarray(M, dtype=complex)
    d = M.shape[0]
    out = np.eye(d * 2 ** k, dtype=complex)
    out[-d:, -d:] = M
    return out


def same_up_to_phase(A, B, tol=1e-9):
    A = np.asarray(A, dtype=complex)
    B = np.asarray(B, dtype=complex)
    i = np.unravel_index(np.argmax(np.abs(B)), B.shape)
    if abs(B[i]) < 1e-12 or abs(A[i]) < 1e-12:
        return np.allclose(A, B, atol=tol)
    ph = A[i] / B[i]
    return abs(abs(ph) - 1) < 1e-7 and np.allclose(A, ph * B, atol=tol)


# ----------------------------------------------------------------------------------------------------------------- circuits
_ANGLES = [0.0, PI / 2, -PI / 2, PI, 2 * PI, 0.3, -1.7, 4.9, 1e-9, 1, 2, -1, -2, -3, 7.25, 2.6 * PI, -3.5 * PI,
           Fraction(1, 3), Fraction(-7, 2), 1e-8, 3e-9, -2e-8, PI + 1e-6, 3 * PI - 2e-5, PI / 2 + 1e-9, 401 * PI + 5e-3, 2 * PI - 3e-7]


def _custom_defs():
    import sympy
    from orquestra.quantum.circuits import CustomGateDefinition
    a, b, c_ = sympy.symbols("ga gb gc")
    return [
        CustomGateDefinition("rc_flip", sympy.Matrix([[-1, 0], [0, 1]]), ()),
        CustomGateDefinition("rc_rot", sympy.Matrix([[sympy.cos(a), -sympy.exp(sympy.I * b) * sympy.sin(a)],
                                                      [sympy.exp(-sympy.I * b) * sympy.sin(a), sympy.cos(a)]]), (a, b)),
        CustomGateDefinition("rc_perm", sympy.Matrix([[0, 0, 1, 0], [1, 0, 0, 0], [0, 0, 0, 1], [0, 1, 0, 0]]), ()),
        CustomGateDefinition("rc_ph2", sympy.Matrix([[1, 0, 0, 0], [0, sympy.exp(sympy.I * a), 0, 0], [0, 0, 1, 0], [0, 0, 0, sympy.exp(-sympy.I * a / 2)]]), (a,)),
        # declared parameters the matrix does not use (in front of / between the used ones)
        CustomGateDefinition("rc_unused", sympy.Matrix([[sympy.cos(a), -sympy.sin(a) * sympy.exp(sympy.I * c_)], [sympy.sin(a) * sympy.exp(-sympy.I * c_), sympy.cos(a)]]), (a, b, c_)),
        CustomGateDefinition("rc_unused2", sympy.Matrix([[1, 0], [0, sympy.exp(sympy.I * b)]]), (a, b)),
        # a fixed gate that is ALMOST self-adjoint / almost diagonal (3e-6 away)
        CustomGateDefinition("rc_nearherm", sympy.Matrix([[1, 0], [0, -sympy.exp(3e-6 * sympy.I)]]), ()),
        CustomGateDefinition("rc_neardiag", sympy.Matrix([[sympy.cos(2e-6), -sympy.sin(2e-6)], [sympy.sin(2e-6), sympy.cos(2e-6)]]), ()),
    ]


def rand_param(r, symbolic, pool=None, force=False):
    import sympy
    if symbolic and (force or r.random() < 0.8):
        pool = pool or sympy.symbols("alpha beta theta_1 theta_2 theta_10 x")
        s = r.choice(pool)
        kind = r.randrange(7)
        if kind == 0:
            return s
        if kind == 1:
            return 2 * s
        if kind == 2:
            return s / 2
        if kind == 3:
            return -s
        if kind == 4:
            return s + r.choice(pool)
        if kind == 5:
            return s - 0.5
        return s * r.choice(pool) + 1
    if _NUMPOOL[0] is not None:
        return r.choice(_NUMPOOL[0])
    return r.choice(_ANGLES) if r.random() < 0.6 else r.uniform(-7, 7)


_NUMPOOL = [None]       # when set: every numeric parameter of the case is drawn from this small pool of values that collide under ==, hash() or int()


_ONE = ["X", "Y", "Z", "H", "S", "T", "SX", "I"]
_ONE_P = ["RX", "RY", "RZ", "PHASE", "RH", "GPi", "GPi2", "Delay"]
_TWO = ["CNOT", "CZ", "SWAP", "ISWAP"]
_TWO_P = ["CPHASE", "XX", "YY", "ZZ", "XY"]


def _peel(g):
    """-> (innermost gate, modifiers from the innermost outwards)"""
    from orquestra.quantum.circuits import ControlledGate, Dagger
    chain = []
    while isinstance(g, (ControlledGate, Dagger)):
        chain.append(("controlled", g.num_control_qubits) if isinstance(g, ControlledGate) else ("dagger",))
        g = g.wrapped_gate
    return g, chain[::-1]


def _wrap(g, chain):
    for w in chain:
        g = g.dagger if w[0] == "dagger" else g.controlled(w[1])
    return g


def rand_base_gate(r, max_qubits, symbolic=False, custom=True, exclude=(), param=None, all_symbolic=False):
    import orquestra.quantum.circuits as C
    P = (lambda: param) if param is not None else (lambda: rand_param(r, symbolic or all_symbolic, force=all_symbolic))
    kinds = ([] if all_symbolic else ["one"]) + ["one_p", "u3"] + (([] if all_symbolic else ["two"]) + ["two_p", "ms"] if max_qubits >= 2 else []) + (["custom"] if custom else [])
    for _ in range(50):
        kind = r.choice(kinds)
        if kind == "one":
            name = r.choice(_ONE)
            g = getattr(C, name)
        elif kind == "one_p":
            name = r.choice(_ONE_P)
            g = getattr(C, name)(P())
        elif kind == "u3":
            name = "U3"
            g = C.U3(P(), P(), P())
        elif kind == "two":
            name = r.choice(_TWO)
            g = getattr(C, name)
        elif kind == "two_p":
            name = r.choice(_TWO_P)
            g = getattr(C, name)(P())
        elif kind == "ms":
            name = "MS"
            g = C.MS(P(), P())
        else:
            d = r.choice(_custom_defs())
            name = d.gate_name
            if d.matrix.shape[0] > 2 ** max_qubits or (all_symbolic and not d.params_ordering):
                continue
            if (symbolic or all_symbolic) and d.params_ordering and param is None and r.random() < 0.35:
                # arguments that mention the definition's OWN symbols (swapped, shifted, compound): substitution must be simultaneous and by position
                own = list(d.params_ordering)
                g = d(*[r.choice([r.choice(own), r.choice(own) + 1, 2 * r.choice(own), r.choice(own) + r.choice(own)] + ([] if all_symbolic else [0.3])) for _ in own])
                if all_symbolic and not list(g.free_symbols):
                    g = d(*[P() for _ in d.params_ordering])
            else:
                g = d(*[P() for _ in d.params_ordering])
        if name not in exclude:
            return g
    return C.RX(P()) if all_symbolic else C.X


def rand_chain(r, room):
    """random modifiers that add at most `room` control qubits"""
    chain = []
    for _ in range(r.choice([0, 0, 0, 1, 1, 2, 3])):
        if r.random() < 0.5:
            chain.append(("dagger",))
        else:
            k = r.choice([1, 1, 2])
            if k <= room:
                chain.append(("controlled", k))
                room -= k
    return chain


def rand_gate(r, max_qubits, symbolic=False, wrappers=True, custom=True, exclude=(), param=None, all_symbolic=False):
    """-> a gate acting on <= max_qubits qubits (max_qubits >= 1)"""
    g = rand_base_gate(r, max_qubits, symbolic, custom, exclude, param, all_symbolic)
    if wrappers:
        g = _wrap(g, rand_chain(r, max_qubits - g.num_qubits))
    return g


_COLLIDE = {-1: -2, -2: -1, 1: 1.0, 2: 2.0, 0.3: 0.3 + 1e-9, -1.7: -1.7 - 1e-9, 0.0: 1e-9, 1e-9: 0.0}


def vary_gate(r, g, max_qubits, exclude=()):
    """a NEAR-DUPLICATE of g: same base under other modifiers, another base of the same shape under the same modifiers and parameters, or
    the same gate with parameters that collide under ==, hash() or a tolerance (-1 / -2, 1 / 1.0, a / a + 1e-9)"""
    import orquestra.quantum.circuits as C
    base, chain = _peel(g)
    how = r.choice(["chain", "chain", "base", "params", "same"] + (["params"] * 5 if _NUMPOOL[0] is not None else []))
    if how == "chain":
        room = max_qubits - base.num_qubits
        new = list(chain)
        ctrl_pos = [i for i, w in enumerate(new) if w[0] == "controlled"]
        if ctrl_pos and r.random() < 0.6:
            i = r.choice(ctrl_pos)
            k = new[i][1]
            k2 = k + 1 if (k == 1 and sum(w[1] for w in new if w[0] == "controlled") + 1 <= room) else max(1, k - 1)
            new[i] = ("controlled", k2)
        elif r.random() < 0.5 and 1 + sum(w[1] for w in new if w[0] == "controlled") <= room:
            new.append(("controlled", 1))
        else:
            new.insert(r.randrange(len(new) + 1), ("dagger",))
        return _wrap(base, new)
    if how == "base":
        name = base.name
        for pool in (_ONE, _ONE_P, _TWO, _TWO_P):
            if name in pool:
                other = r.choice([x for x in pool if x != name and x not in exclude] or [name])
                nb = getattr(C, other)
                return _wrap(nb(*base.params) if base.params else nb, chain)
        return g
    if how == "params" and base.params:
        newp = tuple(_COLLIDE.get(p, p) if not hasattr(p, "free_symbols") else p for p in base.params)
        if newp == tuple(base.params) and all(not hasattr(p, "free_symbols") for p in base.params):
            newp = tuple(p + 1e-9 for p in base.params)
        return _wrap(base.replace_params(newp), chain)
    return g


def rand_circuit(r, symbolic=False, wrappers=True, custom=True, max_width=5, max_ops=8, exclude=(), min_ops=0, all_symbolic=False):
    """features drawn independently: register width, idle qubits (anywhere), explicit / implied width, qubit order, gate kinds, modifier
    chains, custom gates, parameter kinds; one parameter expression shared by every gate; near-duplicate operations (see vary_gate),
    adjacent or apart, on the same or on permuted qubits"""
    from orquestra.quantum.circuits import Circuit
    n = r.randint(1, max_width)
    L = r.randint(min_ops, max_ops)
    ops = []
    live = [q for q in range(n) if r.random() < 0.8] or [r.randrange(n)]
    shared = rand_param(r, symbolic or all_symbolic, force=all_symbolic) if r.random() < 0.3 else None
    if all_symbolic and shared is not None and not getattr(shared, "free_symbols", None):
        shared = None
    dup = r.random() < 0.5
    _NUMPOOL[0] = [-1, -2, -1.0, -2.0, 1, 1.0, 2, 2.0] if (r.random() < 0.2 and not all_symbolic) else None
    dup = dup or _NUMPOOL[0] is not None
    try:
        ops = _rand_ops(r, L, live, dup, shared, symbolic, wrappers, custom, exclude, all_symbolic)
    finally:
        _NUMPOOL[0] = None
    explicit = r.random() < 0.5
    return Circuit(ops, n_qubits=n) if explicit else Circuit(ops)


def _rand_ops(r, L, live, dup, shared, symbolic, wrappers, custom, exclude, all_symbolic):
    ops = []
    for _ in range(L):
        if dup and ops and r.random() < 0.45:
            src = r.choice(ops) if r.random() < 0.5 else ops[-1]
            g = vary_gate(r, src.gate, len(live), exclude)
            if g.num_qubits > len(live):
                g = src.gate
            if g.num_qubits == src.gate.num_qubits and r.random() < 0.6:
                qs = list(src.qubit_indices)
                if r.random() < 0.3:
                    r.shuffle(qs)
            else:
                qs = r.sample(live, g.num_qubits)
        else:
            g = rand_gate(r, len(live), symbolic, wrappers, custom, exclude, param=shared, all_symbolic=all_symbolic)
            qs = r.sample(live, g.num_qubits)
        ops.append(g(*[npi(q) for q in qs]))
    return ops


def ref_unitary(circuit, n=None, subs=None):
    n = circuit.n_qubits if n is None else n
    U = np.eye(2 ** n, dtype=complex)
    for op in circuit.operations:
        m = op.gate.matrix
        if subs is not None:
            m = m.subs(subs)
        U = embed(npmat(m), list(op.qubit_indices), n) @ U
    return U


def rand_state(r, n):
    v = np.array([complex(r.gauss(0, 1), r.gauss(0, 1)) for _ in range(2 ** n)])
    return v / np.linalg.norm(v)


def check_C01(case):
    """random numeric circuits (all gate kinds, wrappers to depth 3, custom gates, idle qubits anywhere, any qubit order): whole-circuit
    matrix, gate-by-gate application, the bundled simulator from a random basis / dense initial state, and concatenation of two circuits"""
    from orquestra.quantum.circuits import Circuit
    from orquestra.quantum.runners.symbolic_simulator import SymbolicSimulator
    r = rng("C01", case)
    c = rand_circuit(r)
    n = c.n_qubits
    U = ref_unitary(c)
    got = npmat(c.to_unitary())
    if got.shape != U.shape or not np.allclose(got, U, atol=1e-9):
        return False, f"to_unitary of {c} differs from the ordered product of lifted gate matrices"
    psi = rand_state(r, n)
    v = psi.copy()
    for op in c.operations:
        v = np.array(op.apply(v), dtype=complex).reshape(-1)
    if not np.allclose(v, U @ psi, atol=1e-9):
        return False, f"applying the operations of {c} one at a time differs from the circuit matrix applied to the state"
    init = r.randrange(2 ** n)
    sim = SymbolicSimulator()
    wf = sim.get_wavefunction(c, initial_state=np.eye(2 ** n)[init].astype(complex)) if r.random() < 0.5 else None
    if wf is not None:
        if not np.allclose(np.array(wf.amplitudes, dtype=complex), U[:, init], atol=1e-9):
            return False, f"simulator state of {c} from basis state {init} differs from column {init} of the circuit matrix"
    else:
        wf = sim.get_wavefunction(c, initial_state=psi)
        if not np.allclose(np.array(wf.amplitudes, dtype=complex), U @ psi, atol=1e-9):
            return False, f"simulator state of {c} from a dense initial state differs from the circuit matrix applied to it"
    c2 = rand_circuit(r, max_ops=4)
    both = c + c2
    m = max(n, c2.n_qubits)
    if both.n_qubits != m:
        return False, f"concatenation of widths {n} and {c2.n_qubits} has width {both.n_qubits}"
    if not np.allclose(npmat(both.to_unitary()), ref_unitary(c2, m) @ ref_unitary(c, m), atol=1e-9):
        return False, f"({c}) + ({c2}): matrix is not the product second-after-first on the common register"
    return True, "ok"


def _values_for(r, symbols):
    return {s: r.choice([0.0, 0.37, -1.3, 2.9, PI / 2, 1, -2, Fraction(1, 3), Fraction(-5, 4)]) if r.random() < 0.5 else r.uniform(-3, 3) for s in symbols}


def check_C02(case):
    """random parametric built-in gate whose parameters are EXPRESSIONS (symbol plus a constant of any size - whole and half turns, floats, exact
    multiples of pi -, multiples, sums of symbols, numbers next to symbols): the matrix computed for the expression and evaluated at random real
    points equals the gate's matrix function evaluated at the value of the expression, is unitary, and for one-parameter gates satisfies the
    group law G(t) G(c) = G(t + c) when t + c is passed as one expression"""
    import sympy
    import orquestra.quantum.circuits as C
    r = rng("C02", case)
    name = r.choice(_ONE_P[:-1] + _TWO_P + ["U3", "MS"])
    k = {"U3": 3, "MS": 2}.get(name, 1)
    t, u = sympy.symbols("t u")
    consts = [2 * sympy.pi, -2 * sympy.pi, 4 * sympy.pi, 3 * sympy.pi, sympy.pi, sympy.pi / 2, 2 * PI, 7, 7.0, -8.5, 12.0, 17, 1000, -3 * PI, 0.3, 6 * sympy.pi, 100.0]

    def expr():
        kind = r.randrange(7)
        c = r.choice(consts)
        if kind == 0:
            return t + c
        if kind == 1:
            return t - c
        if kind == 2:
            return r.choice([2, -1, 3, 0.5]) * t + c
        if kind == 3:
            return t + u + c
        if kind == 4:
            return r.choice([2, -1, sympy.Rational(1, 2)]) * t
        if kind == 5:
            return c            # a plain number next to symbolic parameters
        return t
    es = [expr() for _ in range(k)]
    g = getattr(C, name)(*es)
    vals = {t: r.choice([0.0, 0.37, -1.3, 2.9, 7.0, -8.5]) if r.random() < 0.6 else r.uniform(-10, 10), u: r.uniform(-4, 4)}
    numeric = [float(sympy.N(sympy.sympify(e).subs(vals))) for e in es]
    want = npmat(getattr(C, name)(*numeric).matrix)
    got = npmat(sympy.Matrix(g.matrix).subs(vals))
    d = 2 ** g.num_qubits
    if got.shape != (d, d) or not np.allclose(got, want, atol=1e-9):
        return False, f"{name}{tuple(es)} evaluated at {vals} differs from {name}{tuple(numeric)}"
    if not np.allclose(got.conj().T @ got, np.eye(d), atol=1e-9):
        return False, f"{name}{tuple(es)} at {vals} is not unitary"
    fresh = sympy.symbols("p_1:%d" % (k + 1))
    gen = npmat(sympy.Matrix(getattr(C, name)(*fresh).matrix).subs(dict(zip(fresh, numeric))))
    if not np.allclose(gen, want, atol=1e-9):
        return False, f"{name} with symbolic parameters evaluated at {numeric} differs from the numerically built gate"
    if k == 1 and name not in ("RH", "GPi", "GPi2"):
        c = r.choice(consts)
        tv = vals[t]
        lhs = npmat(sympy.Matrix(getattr(C, name)(t).matrix).subs({t: tv})) @ npmat(getattr(C, name)(float(sympy.N(c))).matrix)
        rhs = npmat(sympy.Matrix(getattr(C, name)(t + c).matrix).subs({t: tv}))
        if not np.allclose(lhs, rhs, atol=1e-9):
            return False, f"{name}(t) x {name}({c}) differs from {name}(t + {c}) at t = {tv}"
    return True, "ok"


def check_C06(case):
    """random symbolic circuits (parameter expressions in up to 6 symbols, one expression shared by all gates, modifier chains, custom gates,
    near-duplicate operations; in every other case EVERY gate is symbolic so that the library's own circuit matrix can be taken): binding real,
    complex or expression values then evaluating == evaluating symbolically (gate matrices, library circuit matrix) then substituting; binding in
    two steps == binding once; symbols absent from the map and numeric parameters untouched; extra symbols ignored; free symbols == symbols the
    parameters depend on (first appearance)"""
    import sympy
    r = rng("C06", case)
    allsym = r.random() < 0.5
    c = rand_circuit(r, symbolic=True, max_width=3 if allsym else 4, max_ops=4 if allsym else 6, all_symbolic=allsym, min_ops=1 if allsym else 0)
    want = []
    for op in c.operations:
        for s in op.free_symbols:
            if s not in want:
                want.append(s)
    dep = set()
    for op in c.operations:
        for p in op.params:
            if isinstance(p, sympy.Expr):
                dep |= p.free_symbols
    fs = list(c.free_symbols)
    if set(fs) != dep or len(fs) != len(set(fs)):
        return False, f"free symbols of {c} are {fs}, the parameters depend on {sorted(dep, key=str)}"
    if fs != want:
        return False, f"free symbols of {c} are {fs}, first-appearance order of the operations' symbols is {want}"
    kind = r.choice(["real", "real", "complex", "mixed"])
    vals = _values_for(r, fs)
    if kind != "real":
        for s_ in fs:
            if kind == "complex" or r.random() < 0.5:
                vals[s_] = complex(round(r.uniform(-2, 2), 3), round(r.uniform(-2, 2), 3))
    extra = {sympy.Symbol("unused_zz"): 1.5} if r.random() < 0.5 else {}
    full = {**vals, **extra}
    bound = c.bind(full)
    if list(bound.free_symbols):
        return False, f"binding every free symbol of {c} leaves {bound.free_symbols}"
    n = c.n_qubits
    if bound.n_qubits != n or len(bound.operations) != len(c.operations):
        return False, f"binding changed the shape of {c}"
    ref = ref_unitary(c, subs=vals)
    for o1, o2 in zip(c.operations, bound.operations):
        if tuple(o1.qubit_indices) != tuple(o2.qubit_indices) or _gate_shape(o1.gate) != _gate_shape(o2.gate):
            return False, f"binding {vals} changed operation {o1} into {o2}"
        if not np.allclose(npmat(o2.gate.matrix), npmat(o1.gate.matrix.subs(vals)), atol=1e-9):
            return False, f"bound gate {o2} differs from the symbolic matrix of {o1} with {vals} substituted"
    if not np.allclose(ref_unitary(bound), ref, atol=1e-9):
        return False, f"bound circuit differs from the symbolic circuit {c} with {vals} substituted"
    if allsym and n <= 3 and fs:
        Us = c.to_unitary()
        if not np.allclose(npmat(sympy.Matrix(Us).subs(vals)), ref, atol=1e-8):
            return False, f"to_unitary() of the symbolic circuit {c} with {vals} substituted differs from the product of its gate matrices at those values"
        if not np.allclose(npmat(bound.to_unitary()), ref, atol=1e-8):
            return False, f"to_unitary() of {c} bound with {vals} differs from the symbolic matrix with the values substituted"
    if fs:
        k = r.randrange(len(fs) + 1)
        first = {s: vals[s] for s in fs[:k]}
        second = {s: vals[s] for s in fs[k:]}
        part = c.bind(first)
        left = set()
        for op in c.operations:
            for p_ in op.params:
                if isinstance(p_, sympy.Expr):
                    left |= p_.subs(first).free_symbols          # a zero value may make another symbol of a product disappear
        if set(part.free_symbols) != left:
            return False, f"after binding {first} the free symbols of {c} are {part.free_symbols}, the substituted parameters depend on {sorted(left, key=str)}"
        two = part.bind(second)
        if not np.allclose(ref_unitary(two), ref, atol=1e-9):
            return False, f"binding {c} in two steps {list(first)} / {list(second)} differs from binding once"
        for o1, o2 in zip(c.operations, part.operations):
            if _gate_shape(o1.gate) != _gate_shape(o2.gate):
                return False, f"partial binding changed operation {o1} into {o2}"
            for p1, p2 in zip(o1.params, o2.params):
                if not (isinstance(p1, sympy.Expr) and p1.free_symbols & set(first)):
                    if p1 != p2:
                        return False, f"parameter {p1} of {o1} does not depend on {list(first)} but became {p2}"
        # binding symbols to EXPRESSIONS in fresh symbols, then to numbers == binding the composed values
        fresh = sympy.symbols("u_1 u_2")
        emap = {s: r.choice([2 * fresh[0], fresh[0] + fresh[1], sympy.I * fresh[1], fresh[0] / 2 - 1, fresh[1]]) for s in fs}
        uvals = {fresh[0]: round(r.uniform(-2, 2), 3), fresh[1]: round(r.uniform(-2, 2), 3)}
        via = c.bind(emap)
        if set(via.free_symbols) - set(fresh):
            return False, f"binding {emap} into {c} leaves {via.free_symbols}"
        comp = {s: complex(sympy.N(e.subs(uvals))) for s, e in emap.items()}
        if not np.allclose(ref_unitary(via.bind(uvals)), ref_unitary(c, subs=comp), atol=1e-8):
            return False, f"binding {c} with expressions {emap} and then {uvals} differs from substituting the composed values"
    return True, "ok"


def _gate_shape(g):
    """structural description of a gate: wrapper nesting, innermost kind, parameters"""
    from orquestra.quantum.circuits import ControlledGate, Dagger
    from orquestra.quantum.circuits._gates import Exponential, Power
    if isinstance(g, ControlledGate):
        return ("controlled", g.num_control_qubits, _gate_shape(g.wrapped_gate))
    if isinstance(g, Dagger):
        return ("dagger", _gate_shape(g.wrapped_gate))
    if isinstance(g, Power):
        return ("power", g.exponent, _gate_shape(g.wrapped_gate))
    if isinstance(g, Exponential):
        return ("exp", _gate_shape(g.wrapped_gate))
    return ("gate", g.name, g.num_qubits, type(g).__name__)


def _params_equal(p, q):
    import sympy
    if isinstance(p, sympy.Expr) or isinstance(q, sympy.Expr):
        p, q = sympy.sympify(p), sympy.sympify(q)
        if p == q:
            return True
        d = sympy.simplify(p - q)
        if d == 0:
            return True
        fs = sorted(d.free_symbols, key=str)
        pts = [{s: 0.37 + 0.61 * i for i, s in enumerate(fs)}, {s: -1.2 + 0.45 * i for i, s in enumerate(fs)}]
        return all(abs(complex(d.subs(pt))) <= 1e-12 * max(1.0, abs(complex(sympy.sympify(p).subs(pt)))) for pt in pts)
    if p == q:
        return True
    try:        # Python numbers come back as sympy numbers: the same number, each part to 1e-15 of ITS OWN size (a tiny imaginary part next to a large real one is data)
        a, b = complex(p), complex(sympy.N(q, 40))
    except Exception:
        return False
    return abs(a.real - b.real) <= 1e-15 * abs(a.real) and abs(a.imag - b.imag) <= 1e-15 * abs(a.imag)


_EXOTIC = [1 + 1e-10j, 40 + 4e-9j, 1e-10 + 1j, 2 + 3j, 1e-300, 1e300, 10 ** 20, 0.1 + 0.2, 123456789.123456789, 5e-324, 1e-9j, -2.5j, 1e-17, 7e22, 1 + 1e-14j]


def check_C05(case):
    """random circuits mixing numeric and symbolic parameters, wrappers and custom gates, through json.dumps/json.loads: same width, same
    operation sequence (wrapper nesting, gate kind, qubits, parameters), same free symbols, equal when exactly representable; also as a
    member of a circuit list"""
    from orquestra.quantum.circuits import circuit_from_dict, circuitset_from_dict, to_dict
    r = rng("C05", case)
    _NP[0] = False          # numpy integers are not JSON-serialisable (json.dumps refuses them on the unchanged tree): outside this property's inputs
    sym = r.random() < 0.6
    c = rand_circuit(r, symbolic=sym, max_width=5, max_ops=7)
    exotic = False
    if r.random() < 0.4 and c.operations:      # Python numbers of unusual size / shape as parameters (parts 1e-10 .. 1e-14 of the other part, 1e+-300, big integers)
        from orquestra.quantum.circuits import Circuit as _C
        ops = list(c.operations)
        for j, o in enumerate(ops):
            if o.params and r.random() < 0.6 and all(not hasattr(x, "free_symbols") for x in o.params):
                ops[j] = o.replace_params(tuple(r.choice(_EXOTIC) if r.random() < 0.7 else x for x in o.params))
                exotic = True
        c = _C(ops, n_qubits=c.n_qubits)
    d = to_dict(c)
    back = circuit_from_dict(json.loads(json.dumps(d)))
    msg = _same_structure(c, back)
    if msg:
        return False, f"{c} -> JSON -> {back}: {msg}"
    if back != c and not exotic:       # (the library's own == is not exact for floats such as 1e300 that come back as long decimal literals: parameters are compared above)
        return False, f"deserialised circuit {back} does not compare equal to the original {c}"
    if list(back.free_symbols) != list(c.free_symbols):
        return False, f"free symbols {c.free_symbols} became {back.free_symbols}"
    c2 = rand_circuit(r, symbolic=not sym, max_width=3, max_ops=4)
    both = circuitset_from_dict(json.loads(json.dumps(to_dict([c, c2])))) if False else None
    from orquestra.quantum.circuits import circuitset_from_dict as csfd
    import orquestra.quantum.circuits as C
    dd = {"schema": "x", "circuits": [to_dict(c), to_dict(c2)]}
    try:
        lst = csfd(json.loads(json.dumps(dd)))
    except Exception:
        lst = None
    if lst is not None:
        for o, b in zip([c, c2], lst):
            msg = _same_structure(o, b)
            if msg:
                return False, f"in a circuit list {o} -> {b}: {msg}"
    return True, "ok"


def _same_structure(c, back):
    if back.n_qubits != c.n_qubits:
        return f"register width {c.n_qubits} became {back.n_qubits}"
    if len(back.operations) != len(c.operations):
        return f"{len(c.operations)} operations became {len(back.operations)}"
    for i, (o, b) in enumerate(zip(c.operations, back.operations)):
        if tuple(o.qubit_indices) != tuple(b.qubit_indices):
            return f"operation {i}: qubits {o.qubit_indices} became {b.qubit_indices}"
        if _gate_shape(o.gate) != _gate_shape(b.gate):
            return f"operation {i}: {_gate_shape(o.gate)} became {_gate_shape(b.gate)}"
        if len(o.params) != len(b.params) or not all(_params_equal(p, q) for p, q in zip(o.params, b.params)):
            return f"operation {i}: parameters {o.params} became {b.params}"
    return ""


def check_C08(case):
    """random numeric circuits: inverse (appended, matrix, twice), controlled at every index incl. beyond idle qubits"""
    r = rng("C08", case)
    c = rand_circuit(r, max_width=4, max_ops=6)
    n = c.n_qubits
    U = ref_unitary(c)
    inv = c.inverse()
    if inv.n_qubits != n:
        return False, f"inverse of a {n}-qubit circuit {c} has {inv.n_qubits} qubits"
    if not np.allclose(npmat(inv.to_unitary()), U.conj().T, atol=1e-9):
        return False, f"matrix of the inverse of {c} is not the conjugate transpose"
    if not np.allclose(npmat((c + inv).to_unitary()), np.eye(2 ** n), atol=1e-9):
        return False, f"{c} followed by its inverse is not the identity"
    if not np.allclose(npmat(inv.inverse().to_unitary()), U, atol=1e-9):
        return False, f"inverting {c} twice changes its action"
    k = r.randrange(n + 1)
    cc = c.controlled(k)
    if cc.n_qubits != n + 1:
        return False, f"controlled({k}) of a {n}-qubit circuit has {cc.n_qubits} qubits"
    got = ref_unitary(cc)
    D = 2 ** (n + 1)
    want = np.zeros((D, D), dtype=complex)
    for col in range(D):
        bits = [(col >> (n - q)) & 1 for q in range(n + 1)]
        if bits[k] == 0:
            want[col, col] = 1
            continue
        rest = bits[:k] + bits[k + 1:]
        sub = int("".join(map(str, rest)), 2) if rest else 0
        for row_sub in range(2 ** n):
            amp = U[row_sub, sub]
            if amp == 0:
                continue
            rb = [(row_sub >> (n - 1 - q)) & 1 for q in range(n)]
            nb = rb[:k] + [1] + rb[k:]
            want[int("".join(map(str, nb)), 2), col] += amp
    if not np.allclose(got, want, atol=1e-9):
        return False, f"controlled({k}) of {c} is not identity-on-0 / the circuit on the shifted qubits on 1"
    if not np.allclose(npmat(cc.to_unitary()), want, atol=1e-9):
        return False, f"to_unitary of controlled({k}) of {c} differs from the specification"
    return True, "ok"


def check_C18(case):
    """random numeric circuits rich in U3 (plain, controlled 1-2 times, daggered neighbours) on arbitrary qubits: decomposition keeps the
    action up to one global phase, keeps untouched operations in order, and an empty rule list returns the circuit unchanged"""
    import orquestra.quantum.circuits as C
    from orquestra.quantum.decompositions import decompose_orquestra_circuit
    from orquestra.quantum.decompositions import U3GateToRotation
    r = rng("C18", case)
    n = r.randint(1, 4)
    live = list(range(n))
    ops = []
    for _ in range(r.randint(1, 6)):
        if r.random() < 0.6:
            g = C.U3(rand_param(r, False), rand_param(r, False), rand_param(r, False))
            k = r.choice([0, 0, 1, 1, 2])
            if 1 + k <= n and k:
                g = g.controlled(k)
        else:
            g = rand_gate(r, n, wrappers=True, custom=False, exclude=("U3",))
        ops.append(g(*r.sample(live, g.num_qubits)))
    c = C.Circuit(ops, n_qubits=n)
    if decompose_orquestra_circuit(c, []) != c:
        return False, f"empty rule list changed {c}"
    d = decompose_orquestra_circuit(c, [U3GateToRotation()])
    if d.n_qubits != n:
        return False, f"decomposition changed the register width of {c}"
    U = ref_unitary(c)
    V = ref_unitary(d)
    known = any(_gate_shape(o.gate)[0] == "controlled" and "U3" in str(_gate_shape(o.gate)) for o in c.operations)
    if not same_up_to_phase(V, U):
        if known:
            return None, "controlled-U3 (known finding C18.controlled_u3)"
        return False, f"decomposed {c} -> {d} acts differently (beyond a global phase)"
    rest = [o for o in c.operations if "U3" not in str(_gate_shape(o.gate))]
    kept = [o for o in d.operations if o in rest]
    it = iter(d.operations)
    if not all(any(o == x for x in it) for o in rest):
        return False, f"operations no rule applies to are not kept in order: {c} -> {d}"
    return True, "ok"


def _sqrt_def():
    import sympy
    from orquestra.quantum.circuits import CustomGateDefinition
    p = sympy.Symbol("gp")
    return CustomGateDefinition("rc_sqrt", sympy.Matrix([[sympy.sqrt(1 - p), -sympy.sqrt(p)], [sympy.sqrt(p), sympy.sqrt(1 - p)]]), (p,))


def check_C07(case):
    """random base gate (built-in or custom; numeric, or symbolic and evaluated afterwards at real values of any sign and size) under a random
    chain of dagger / controlled / integer-power modifiers of length <= 4 (powers may be stacked): qubit count, parameters and matrix follow the
    chain; replace_params gives the same gate (structure, text, matrix) as modifying the re-parameterised base gate"""
    import sympy
    r = rng("C07", case)
    symbolic = r.random() < 0.35
    if symbolic and r.random() < 0.3:
        base = _sqrt_def()(rand_param(r, True, force=True))
    else:
        base = rand_base_gate(r, 2, symbolic=symbolic, all_symbolic=symbolic)
    vals = {s_: r.choice([0.37, -0.7, 1.5, 2.9, -4.2, 0.0, 1.0]) if r.random() < 0.7 else r.uniform(-6, 6) for s_ in sorted(base.free_symbols, key=str)}

    def value(m):
        return npmat(m.subs(vals)) if vals else npmat(m)
    g = base
    M = value(base.matrix)
    nq = base.num_qubits
    chain = []
    for _ in range(r.randint(1, 4)):
        exact = any(isinstance(x, Fraction) for x in base.params)      # exact rationals stay symbolic in sympy: matrix powers of them take minutes
        opts = ["dagger", "controlled"] + (["power"] if nq <= 2 and not symbolic and not exact and sum(1 for w in chain if w[0] == "power") < 2 else [])
        w = r.choice(opts)
        if w == "dagger":
            g = g.dagger
            M = M.conj().T
            chain.append(("dagger",))
        elif w == "controlled":
            k = r.choice([1, 1, 2])
            if nq + k > 4:
                continue
            g = g.controlled(k)
            M = ctrl(M, k)
            nq += k
            chain.append(("controlled", k))
        else:
            e = r.choice([0, 1, 2, 3, -1, -2])
            if e < 0 and abs(np.linalg.det(M)) < 1e-6:
                continue
            g = g.power(e)
            M = np.linalg.matrix_power(M if e >= 0 else np.linalg.inv(M), abs(e))
            chain.append(("power", e))
    if g.num_qubits != nq:
        return False, f"{g}: reports {g.num_qubits} qubits, the chain {chain} implies {nq}"
    if tuple(g.params) != tuple(base.params):
        return False, f"{g}: parameters {g.params} differ from the base gate's {base.params}"
    if not np.allclose(value(g.matrix), M, atol=1e-8):
        return False, f"{g}" + (f" at {vals}" if vals else "") + f": matrix differs from the chain {chain} applied to the base matrix"
    if base.params:
        newp = tuple(rand_param(r, False) for _ in base.params)
        a = g.replace_params(newp)
        b = base.replace_params(newp)
        for w in chain:
            b = b.dagger if w[0] == "dagger" else b.controlled(w[1]) if w[0] == "controlled" else b.power(w[1])
        if a != b or str(a) != str(b) or _gate_shape(a) != _gate_shape(b):
            return False, f"{g}.replace_params({newp}) = {a} differs from modifying the re-parameterised base gate = {b}"
        if not any(w[0] == "power" for w in chain) and not np.allclose(npmat(a.matrix), npmat(b.matrix), atol=1e-9):
            return False, f"{g}.replace_params({newp}): matrix differs from the modified re-parameterised base gate"
    return True, "ok"


# ----------------------------------------------------------------------------------------------------------------- operators
def rand_coeff(r, kinds=("int", "float", "neg", "complex", "imag")):
    k = r.choice(kinds)
    if k == "int":
        return r.choice([1, 2, 3, -1, -2, 5])
    if k == "float":
        return round(r.uniform(0.1, 4.0), 3)
    if k == "neg":
        return -round(r.uniform(0.1, 4.0), 3)
    if k == "imag":
        return complex(0, round(r.uniform(-3, 3), 2) or 1.0)
    return complex(round(r.uniform(-3, 3), 2), round(r.uniform(-3, 3), 2) or 0.5)


def rand_term(r, n, kinds=("int", "float", "neg", "complex", "imag"), paulis="XYZ", allow_identity=True):
    from orquestra.quantum.operators import PauliTerm
    c = npf(rand_coeff(r, kinds))
    if allow_identity and r.random() < 0.15:
        return PauliTerm("I0", c) if r.random() < 0.5 else PauliTerm({}, c)
    qs = r.sample(range(n), r.randint(1, n))
    ops = {npi(q): r.choice(paulis) for q in qs}
    form = r.randrange(3)
    if form == 0:
        return PauliTerm(ops, c)
    if form == 1:
        items = list(ops.items())
        r.shuffle(items)
        return PauliTerm("*".join(f"{o}{q}" for q, o in items), c)
    return PauliTerm.from_iterable([(o, q) for q, o in ops.items()], c)


def rand_sum(r, n, max_terms=4, **kw):
    from orquestra.quantum.operators import PauliSum
    k = r.randint(0 if r.random() < 0.05 else 1, max_terms)
    terms = [rand_term(r, n, **kw) for _ in range(k)]
    if terms and r.random() < 0.35:          # a repeated Pauli string (unsimplified input), possibly cancelling
        t = r.choice(terms)
        terms.insert(r.randrange(len(terms) + 1), t.copy(new_coefficient=(-t.coefficient if r.random() < 0.3 else rand_coeff(r))))
    return PauliSum(terms)


def check_C03(case):
    """random expression trees (depth <= 3) over terms, sums (unsimplified, with repeated strings and identity terms, any coefficient type)
    and plain numbers, with + - * (both orders), scalar /, ** 0..3: the result denotes the matrix expression; simplify keeps it; equality of
    simplified operators is matrix equality (term order ignored)"""
    from orquestra.quantum.operators import PauliSum, PauliTerm
    r = rng("C03", case)
    n = r.randint(1, 4)

    def leaf():
        k = r.randrange(5)
        if k <= 1:
            t = rand_term(r, n)
            return t, op_dense(t, n)
        if k <= 3:
            s = rand_sum(r, n)
            return s, op_dense(s, n)
        c = rand_coeff(r)
        return c, c

    def is_num(x):
        return isinstance(x, (int, float, complex))

    def tree(depth):
        if depth == 0 or r.random() < 0.25:
            return leaf()
        a, A = tree(depth - 1)
        kind = r.choice(["+", "-", "*", "*", "/", "**"])
        I = np.eye(2 ** n)
        if kind == "**":
            if is_num(a):
                return a, A
            k = r.choice([0, 1, 2, 2, 3])
            if len(getattr(a, "terms", [a])) > 4 and k == 3:
                k = 2
            return a ** k, np.linalg.matrix_power(A, k)
        if kind == "/":
            if is_num(a):
                return a, A
            c = rand_coeff(r)
            return a / c, A / c
        b, B = tree(depth - 1)
        if is_num(a) and is_num(b):
            return a, A
        Am = A * I if is_num(a) else A
        Bm = B * I if is_num(b) else B
        if kind == "+":
            return a + b, Am + Bm
        if kind == "-":
            return a - b, Am - Bm
        if len(getattr(a, "terms", [a])) * len(getattr(b, "terms", [b])) > 60:
            return a + b, Am + Bm
        return a * b, Am @ Bm

    x, X = tree(3)
    if is_num(x):
        return None, "numeric expression"
    if not isinstance(x, (PauliTerm, PauliSum)):
        return False, f"expression evaluates to a {type(x).__name__}"
    scale = max(1.0, float(np.abs(X).max()))
    got = op_dense(x, n)
    if not np.allclose(got, X, atol=1e-7 * scale, rtol=1e-9):
        return False, f"on {n} qubits the result {x} does not denote the matrix expression (max deviation {np.abs(got - X).max():.3g})"
    s = x.simplify() if isinstance(x, PauliSum) else PauliSum([x]).simplify()
    if not np.allclose(op_dense(s, n), X, atol=1e-7 * scale, rtol=1e-9):
        return False, f"simplify changed the matrix of {x}: {s}"
    terms = list(s.terms)
    if len({frozenset(t.operations) for t in terms}) != len(terms):
        return False, f"simplified operator {s} still repeats a Pauli string"
    sh = list(terms)
    r.shuffle(sh)
    if not (PauliSum(sh) == s and s == PauliSum(sh)):
        return False, f"{s} != the same terms in another order"
    bump = PauliTerm({0: "X"}, 0.5)
    if (s + bump).simplify() == s:
        return False, f"{s} compares equal to itself plus 0.5*X0"
    return True, "ok"


def check_C09(case):
    """random operators (unsimplified, complex, identity terms) on a register at least as wide as the operator: sparse matrix == definition,
    conjugate == conjugate transpose, Hermiticity test == matrix test for simplified operators, qubit reversal (once = bit reversal, twice =
    identity), expectation in a random state == quadratic form; random matrices round-trip through the Pauli basis"""
    from orquestra.quantum.operators import PauliSum, get_expectation_value, get_sparse_operator, hermitian_conjugated, is_hermitian, reverse_qubit_order
    from orquestra.quantum.operators._utils import get_pauliop_from_matrix
    from orquestra.quantum.wavefunction import Wavefunction
    r = rng("C09", case)
    n = r.randint(1, 4)
    herm = r.random() < 0.4
    op = rand_sum(r, n, max_terms=5, kinds=("int", "float", "neg") if herm else ("int", "float", "neg", "complex", "imag"))
    if r.random() < 0.3:
        op = rand_term(r, n)
    w = op.n_qubits
    N = w + r.choice([0, 0, 1, 2])
    M = op_dense(op, N)
    S = get_sparse_operator(op, n_qubits=N)
    if S.shape != M.shape or not np.allclose(S.toarray(), M, atol=1e-10):
        return False, f"get_sparse_operator({op}, n_qubits={N}) differs from the tensor-product definition"
    if N == w and len(getattr(op, "terms", [op])):
        S0 = get_sparse_operator(op)
        if S0.shape != M.shape or not np.allclose(S0.toarray(), M, atol=1e-10):
            return False, f"get_sparse_operator({op}) with the default width differs from the definition on {w} qubits"
    hc = hermitian_conjugated(op)
    if not np.allclose(op_dense(hc, N), M.conj().T, atol=1e-10):
        return False, f"hermitian_conjugated({op}) = {hc} does not denote the conjugate transpose"
    simp = op.simplify() if isinstance(op, PauliSum) else op
    if bool(is_hermitian(simp)) != bool(np.allclose(M, M.conj().T, atol=1e-10)):
        return False, f"is_hermitian({simp}) = {is_hermitian(simp)} disagrees with the matrix"
    if len(getattr(op, "terms", [op])) and N >= 1:
        R = reverse_qubit_order(op, N)
        perm = [int(format(i, f"0{N}b")[::-1], 2) for i in range(2 ** N)]
        if not np.allclose(op_dense(R, N), M[np.ix_(perm, perm)], atol=1e-10):
            return False, f"reverse_qubit_order({op}, {N}) is not the bit-reversal permutation of the matrix"
        if not np.allclose(op_dense(reverse_qubit_order(R, N), N), M, atol=1e-10):
            return False, f"reversing {op} twice on {N} qubits is not the identity"
    psi = rand_state(r, N)
    e = get_expectation_value(op, Wavefunction(psi)) if N >= 1 else M[0, 0]
    if abs(complex(e) - np.vdot(psi, M @ psi)) > 1e-9 * max(1, np.abs(M).max()):
        return False, f"get_expectation_value({op}) = {e}, the quadratic form is {np.vdot(psi, M @ psi)}"
    k = r.randint(1, 3)
    A = np.array([[complex(r.gauss(0, 1), r.gauss(0, 1)) if r.random() < 0.7 else 0 for _ in range(2 ** k)] for _ in range(2 ** k)])
    if r.random() < 0.3:
        A = A + A.conj().T
    back = get_pauliop_from_matrix(A.tolist())
    if not np.allclose(op_dense(back, k), A, atol=1e-9):
        return False, f"a {2 ** k}x{2 ** k} matrix does not round-trip through the Pauli basis"
    # matrices that have a symmetry ALMOST: real symmetric / Hermitian / diagonal up to entries 1e-6 .. 1e-5 of their size (given as floats, lists or complex)
    scale = r.choice([1.0, 1.0, 1e3])
    B = np.array([[r.gauss(0, 1) for _ in range(2 ** k)] for _ in range(2 ** k)]) * scale
    kind = r.choice(["symmetric", "hermitian", "diagonal"])
    if kind == "symmetric":
        B = B + B.T
    elif kind == "hermitian":
        C_ = np.array([[r.gauss(0, 1) for _ in range(2 ** k)] for _ in range(2 ** k)]) * scale
        B = (B + B.T) + 1j * (C_ - C_.T)
    else:
        B = np.diag(np.diag(B))
    eps = r.choice([3e-6, 1e-6, 8e-6]) * scale
    i, j = r.randrange(2 ** k), r.randrange(2 ** k)
    if i == j:
        j = (i + 1) % (2 ** k)
    if i != j:
        B[i, j] += eps
    arg = B.tolist() if r.random() < 0.5 else B
    back = get_pauliop_from_matrix(arg)
    if not np.allclose(op_dense(back, k), B, atol=1e-7 * scale, rtol=0):
        return False, (f"an almost {kind} {2 ** k}x{2 ** k} matrix (entry [{i}][{j}] off by {eps:g}) does not round-trip through the Pauli basis: "
                       f"max deviation {np.abs(op_dense(back, k) - B).max():.3g}")
    return True, "ok"


def check_C11(case):
    """random operators through dict + JSON text, save/load files (single and lists) and print/parse: same matrix; simplified operators keep
    every term's operators, qubits and coefficient parts exactly"""
    import os
    import tempfile
    from orquestra.quantum.operators import PauliSum, PauliTerm, convert_dict_to_op, convert_op_to_dict, load_operator, load_operator_set, save_operator, save_operator_set
    r = rng("C11", case)
    _NP[0] = False          # see check_C05
    n = r.randint(1, 12 if r.random() < 0.3 else 4)
    nn = min(n, 4)
    qmap = sorted(r.sample(range(n), nn))

    def widen(op):
        terms = op.terms if isinstance(op, PauliSum) else [op]
        return PauliSum([PauliTerm({qmap[q]: o for q, o in t.operations}, t.coefficient) for t in terms])

    def dense(op):
        terms = op.terms
        return sum((complex(t.coefficient) * pauli_dense({qmap.index(q): o for q, o in t.operations}, nn) for t in terms), np.zeros((2 ** nn, 2 ** nn), dtype=complex))

    op = widen(rand_sum(r, nn, max_terms=5))
    if r.random() < 0.5:
        op = op.simplify()
    M = dense(op)
    d = json.loads(json.dumps(convert_op_to_dict(op)))
    back = convert_dict_to_op(d)
    if any(q not in qmap for t in back.terms for q in t.qubits) or not np.allclose(dense(back), M, atol=1e-8):
        return False, f"{op} -> dict -> JSON -> {back}: matrix changed"
    simp = op.simplify()
    b2 = convert_dict_to_op(json.loads(json.dumps(convert_op_to_dict(simp))))
    want = {frozenset(t.operations): complex(t.coefficient) for t in simp.terms}
    got = {frozenset(t.operations): complex(t.coefficient) for t in b2.terms}
    if want != got or len(b2.terms) != len(simp.terms):
        return False, f"simplified {simp} -> dict -> {b2}: terms / coefficient parts not preserved exactly"
    with tempfile.TemporaryDirectory() as td:
        f = os.path.join(td, "op.json")
        save_operator(op, f)
        if not np.allclose(dense(load_operator(f)), M, atol=1e-8):
            return False, f"save_operator / load_operator changed {op}"
        others = [widen(rand_sum(r, nn)) for _ in range(r.randint(0, 3))]
        lst = [op if isinstance(op, PauliSum) else PauliSum([op])] + others
        if r.random() < 0.5 and op.terms:        # a neighbour that is ALMOST the same operator (finite-difference copies): same strings, coefficients 3e-7 .. 1e-6 apart
            d_ = r.choice([3e-7, -2e-7, 4e-7, 1e-6])
            lst.insert(r.randrange(len(lst) + 1), PauliSum([t.copy(new_coefficient=t.coefficient + d_) for t in op.terms]))
        r.shuffle(lst)
        save_operator_set(lst, f)
        ld = load_operator_set(f)
        if len(ld) != len(lst) or not all(np.allclose(dense(a), dense(b), atol=1e-8, rtol=0) for a, b in zip(lst, ld)):
            return False, f"save_operator_set / load_operator_set changed the list {lst}"
    txt = str(op)
    parsed = PauliSum(txt) if op.terms else None
    if parsed is not None and not np.allclose(dense(parsed), M, atol=1e-8):
        return False, f"printing {op!r} and parsing the text {txt!r} gives {parsed}"
    if op.terms:
        t = r.choice(op.terms)
        pt = PauliTerm(str(t))
        if pt.operations != t.operations or abs(complex(pt.coefficient) - complex(t.coefficient)) > 1e-8:
            return False, f"printing the term {t!r} and parsing {str(t)!r} gives {pt!r}"
    return True, "ok"


# ----------------------------------------------------------------------------------------------------------------- measurements
def _eps(b, S):
    return (-1) ** sum(b[q] for q in S)


def rand_z_op(r, n, max_terms=6):
    from orquestra.quantum.operators import PauliSum, PauliTerm
    terms = []
    tiny = r.random() < 0.2          # operators with several zero / negligible coefficients (terms that compare equal under a tolerance)
    for _ in range(r.randint(1, max_terms)):
        c = r.choice([1, -1, 2, 0.5, -0.25, 1.5, 3.0, -2.75]) if r.random() < 0.7 else round(r.uniform(-5, 5), 3)
        if tiny and r.random() < 0.6:
            c = r.choice([0.0, 0, 1e-9, -1e-9, 1e-12])
        if r.random() < 0.2:
            terms.append(PauliTerm("I0", c))
        else:
            qs = r.sample(range(n), r.randint(1, max(1, min(n, 4))))
            terms.append(PauliTerm({npi(q): "Z" for q in qs}, npf(c)))
    if r.random() < 0.3:
        terms.insert(r.randrange(len(terms) + 1), r.choice(terms))
    return PauliSum(terms)


def rand_shots(r, n, max_shots=40):
    N = r.randint(1, max_shots)
    pool = [tuple(npi(r.randint(0, 1)) for _ in range(n)) for _ in range(r.randint(1, 6))]
    return [r.choice(pool) if r.random() < 0.8 else tuple(npi(r.randint(0, 1)) for _ in range(n)) for _ in range(N)]


def check_C10(case):
    """random shot multisets (1..40 shots with repeats, 1..12 qubits; built from tuples or from counts) x random Z operators (repeated strings,
    constant terms anywhere, overlapping supports): values, correlations, covariances (both corrections), counts, distribution, parities"""
    from orquestra.quantum.measurements import Measurements, get_parities_from_measurements
    r = rng("C10", case)
    n = r.randint(1, 12 if r.random() < 0.4 else 5)
    shots = rand_shots(r, n)
    N = len(shots)
    want_counts = {}
    for s in shots:
        k = "".join(map(str, s))
        want_counts[k] = want_counts.get(k, 0) + 1
    how = r.randrange(3)
    if how == 0:
        m = Measurements(list(shots))
    elif how == 1:
        m = Measurements.from_counts(dict(want_counts))
        shots = list(m.bitstrings)
        if len(shots) != N:
            return False, f"from_counts({want_counts}) holds {len(shots)} shots instead of {N}"
    else:
        m = Measurements()
        m.add_counts(dict(want_counts)) if hasattr(m, "add_counts") else None
        if not hasattr(m, "add_counts"):
            m = Measurements(list(shots))
        shots = list(m.bitstrings)
    counts = dict(m.get_counts())
    if counts != want_counts:
        return False, f"counts {counts} expected {want_counts}"
    dist = m.get_distribution().distribution_dict
    if {"".join(map(str, k)): v for k, v in dist.items()} != {k: v / N for k, v in want_counts.items()}:
        return False, f"distribution {dist} is not counts / {N}"
    op = rand_z_op(r, n)
    terms = list(op.terms)
    bessel = r.random() < 0.5 and N >= 2
    ev = m.get_expectation_values(op, use_bessel_correction=bessel)
    vals = [t.coefficient * sum(_eps(s, t.qubits) for s in shots) / N for t in terms]
    if len(ev.values) != len(terms) or not np.allclose(ev.values, vals, rtol=1e-9, atol=1e-12):
        return False, f"values {list(ev.values)} expected {vals} for {op} on {want_counts}"
    corr = np.array([[a.coefficient * b.coefficient * sum(_eps(s, a.qubits) * _eps(s, b.qubits) for s in shots) / N for b in terms] for a in terms])
    if not np.allclose(ev.correlations[0], corr, rtol=1e-9, atol=1e-12):
        return False, f"correlations differ for {op} on {want_counts}"
    cov = (corr - np.outer(vals, vals)) / (N - 1 if bessel else N)
    if not np.allclose(ev.estimator_covariances[0], cov, rtol=1e-7, atol=1e-12):
        return False, f"covariances (bessel={bessel}) differ for {op} on {want_counts}"
    # the same operator with its terms listed in another order: every statistic is permuted along, nothing else changes
    perm = list(range(len(terms)))
    r.shuffle(perm)
    from orquestra.quantum.operators import PauliSum as _PS
    evp = m.get_expectation_values(_PS([terms[i] for i in perm]), use_bessel_correction=bessel)
    if not np.allclose(evp.values, [vals[i] for i in perm], rtol=1e-9, atol=1e-12) or not np.allclose(evp.correlations[0], corr[np.ix_(perm, perm)], rtol=1e-9, atol=1e-12) \
            or not np.allclose(evp.estimator_covariances[0], cov[np.ix_(perm, perm)], rtol=1e-7, atol=1e-12):
        return False, f"listing the terms of {op} in the order {perm} does not permute the statistics accordingly (shots {want_counts})"
    items = list(want_counts.items())
    r.shuffle(items)
    if dict(Measurements.from_counts(dict(items)).get_counts()) != want_counts:
        return False, f"from_counts depends on the order of the dictionary {dict(items)}"
    par = get_parities_from_measurements(list(shots), op)
    for i, t in enumerate(terms):
        even = sum(1 for s in shots if _eps(s, t.qubits) == 1)
        if list(par.values[i]) != [even, N - even]:
            return False, f"parity tallies of term {i} of {op} are {list(par.values[i])}, expected {[even, N - even]} on {want_counts}"
    if par.correlations is not None:
        for i, a in enumerate(terms):
            for j, b in enumerate(terms):
                same = sum(1 for s in shots if _eps(s, a.qubits) == _eps(s, b.qubits))
                if list(par.correlations[0][i][j]) != [same, N - same]:
                    return False, f"pair tallies [{i}][{j}] of {op} are {list(par.correlations[0][i][j])}, expected {[same, N - same]} on {want_counts}"
    if list(m.bitstrings) != list(shots) or dict(m.get_counts()) != want_counts:
        return False, "measurement set changed by the queries"
    return True, "ok"


# ----------------------------------------------------------------------------------------------------------------- shots
def check_C13(case):
    """random pipeline: per-circuit shot requests of mixed magnitude (some circuits equal to each other) -> expand under a random maximum ->
    per-copy counts with exactly the requested shots on registers of different widths -> combine with the multiplicities; random batch
    splitting; measurements representing a random distribution; random weights scaled to a random total"""
    from orquestra.quantum.circuits import Circuit, X
    from orquestra.quantum.circuits._itertools import combine_bitstrings, combine_measurement_counts, expand_sample_sizes, split_into_batches
    from orquestra.quantum.distributions import MeasurementOutcomeDistribution
    from orquestra.quantum.measurements import Measurements
    from orquestra.quantum.utils import scale_and_discretize
    r = rng("C13", case)
    L = r.randint(0, 7)
    ns = [r.choice([1, 2, 3, 7, 10, 64, 100, 1000, 4097]) if r.random() < 0.7 else r.randint(1, 5000) for _ in range(L)]
    m = r.choice([1, 2, 3, 10, 64, 100, 999, 1000, 5000, 10 ** 6])
    widths = [r.randint(1, 3) for _ in range(L)]
    circs = [Circuit([X(r.randrange(w))], n_qubits=w) for w in widths]
    if L >= 2 and r.random() < 0.5:
        j, k = r.sample(range(L), 2)
        circs[k] = circs[j]
        widths[k] = widths[j]
    nc, nn, mult = expand_sample_sizes(list(circs), (np.array(ns, dtype=int) if _NP[0] and ns else list(ns)), npi(m))
    nc, nn, mult = list(nc), [int(x) for x in nn], [int(x) for x in mult]
    want_mult = [-(-k // m) for k in ns]
    if mult != want_mult or len(nc) != sum(want_mult) or len(nn) != len(nc):
        return False, f"requests {ns} with at most {m} per copy: multiplicities {mult}, {len(nc)} copies / {len(nn)} counts (expected {want_mult})"
    off = 0
    counts, bits, per_circuit = [], [], []
    for i, k in enumerate(want_mult):
        own = nn[off:off + k]
        if sum(own) != ns[i] or any(not 1 <= x <= m for x in own) or any(c is not circs[i] and c != circs[i] for c in nc[off:off + k]):
            return False, f"requests {ns} with at most {m}: position {i} got copies with {own} shots"
        tot = {}
        allb = []
        for x in own:
            a = r.randint(0, x)
            d = {k_: v for k_, v in (("0" * widths[i], a), ("1" * widths[i], x - a)) if v}
            counts.append(d)
            b = ["0" * widths[i]] * a + ["1" * widths[i]] * (x - a)
            bits.append(b)
            allb += b
            for k_, v in d.items():
                tot[k_] = tot.get(k_, 0) + v
        per_circuit.append((tot, allb))
        off += k
    comb = list(combine_measurement_counts(counts, mult))
    combb = list(combine_bitstrings(bits, mult))
    if len(comb) != L or len(combb) != L:
        return False, f"combining {len(counts)} per-copy results with multiplicities {mult} gives {len(comb)} / {len(combb)} groups"
    for i in range(L):
        if dict(comb[i]) != per_circuit[i][0] or sum(comb[i].values()) != ns[i]:
            return False, f"requests {ns}, max {m}: combined counts of circuit {i} are {dict(comb[i])} ({sum(comb[i].values())} shots), expected {per_circuit[i][0]}"
        if list(combb[i]) != per_circuit[i][1]:
            return False, f"requests {ns}, max {m}: combined bitstrings of circuit {i} hold {len(combb[i])} shots / wrong order"
    if L:
        b = r.choice([1, 2, 3, L, L + 1, 100])
        out = [(list(c), int(n)) for c, n in split_into_batches(list(circs), (np.array(ns, dtype=int) if _NP[0] else list(ns)), npi(b))]
        flat = [c for chunk, _ in out for c in chunk]
        if len(flat) != L or any(x is not y for x, y in zip(flat, circs)):
            return False, f"batches of at most {b} do not cover the {L} circuits once, in order"
        off = 0
        for chunk, n in out:
            if not 1 <= len(chunk) <= b or n != max(ns[off:off + len(chunk)]):
                return False, f"requests {ns}, batch size {b}: a batch of {len(chunk)} circuits asks for {n} samples, its members asked for {ns[off:off + len(chunk)]}"
            off += len(chunk)
    w = r.randint(1, 4)
    keys = r.sample([tuple((v >> q) & 1 for q in range(w)) for v in range(2 ** w)], r.randint(1, min(2 ** w, 5)))
    ws = [r.choice([1, 1, 2, 3, 5, 0.5, 0.25]) if r.random() < 0.7 else r.uniform(0.01, 3) for _ in keys]
    dist = MeasurementOutcomeDistribution({k: v for k, v in zip(keys, ws)}, normalize=True)
    N = r.choice([1, 2, 3, 7, 10, 100, 1001, 12345])
    ms = Measurements.get_measurements_representing_distribution(dist, N)
    cnt = ms.get_counts()
    if len(ms.bitstrings) != N or any(tuple(int(ch) for ch in k) not in set(keys) for k in cnt):
        return False, f"measurements representing {dist} with {N} shots hold {len(ms.bitstrings)} shots / outcomes {sorted(cnt)}"
    vals = [r.choice([0, 1, 2, 3, 0.5, 0.1, 1 / 3]) if r.random() < 0.7 else r.uniform(0, 9) for _ in range(r.randint(1, 7))]
    if sum(vals) > 0:
        T = r.choice([0, 1, 2, 3, 7, 10, 100, 1001, 99999])
        out = list(scale_and_discretize((np.array(vals, dtype=float) if _NP[0] else list(vals)), npi(T)))
        s = sum(vals)
        if len(out) != len(vals) or sum(out) != T or any(int(x) != x or x < 0 for x in out) or any(abs(x - T * v / s) >= 1 + 1e-9 for x, v in zip(out, vals)):
            return False, f"scale_and_discretize({vals}, {T}) = {out}"
    return True, "ok"


def check_C15(case):
    """random task lists (0..8 tasks; measurable / constant / zero-shot in any mixture and order; per-task register width, basis
    state, operator with repeated strings and constant terms anywhere, shot count) through a classical bit-flip runner"""
    from orquestra.quantum.api.circuit_runner import BaseCircuitRunner
    from orquestra.quantum.api.estimation import EstimationTask
    from orquestra.quantum.circuits import Circuit, X
    from orquestra.quantum.estimation import estimate_expectation_values_by_averaging
    from orquestra.quantum.measurements import Measurements
    from orquestra.quantum.operators import PauliSum, PauliTerm

    class BitFlip(BaseCircuitRunner):
        def _run_and_measure(self, circuit, n_samples):
            bits = [0] * circuit.n_qubits
            for op in circuit.operations:
                bits[op.qubit_indices[0]] ^= 1
            return Measurements([tuple(bits)] * n_samples)
    r = rng("C15", case)
    tasks, expected, kinds = [], [], []
    for i in range(r.randint(0, 8)):
        n = r.randint(1, 6)
        ones = [q for q in range(n) if r.random() < 0.5]
        circ = Circuit([X(q) for q in ones], n_qubits=n)
        k = r.choice("MMMCZZ")
        kinds.append(k)
        if k == "C":
            cs = [r.choice([1.0, -2.0, 0.5, 3.25]) for _ in range(r.randint(1, 3))]
            tasks.append(EstimationTask(PauliSum([PauliTerm("I0", c) for c in cs]), circ, r.choice([0, 1, 5, None]) if False else r.randint(1, 9)))
            expected.append([sum(cs)])
            continue
        op = rand_z_op(r, n)
        if all(not t.qubits for t in op.terms):
            op = op + PauliTerm({0: "Z"}, 1.5)
        if k == "M":
            tasks.append(EstimationTask(op, circ, r.randint(1, 30)))
            expected.append([t.coefficient * _eps([1 if q in ones else 0 for q in range(n)], t.qubits) for t in op.terms])
        else:
            tasks.append(EstimationTask(op, circ, 0))
            expected.append([0.0])
    out = estimate_expectation_values_by_averaging(BitFlip(), tasks)
    if len(out) != len(tasks):
        return False, f"kinds {''.join(kinds)}: {len(out)} results for {len(tasks)} tasks"
    for i, (o, e) in enumerate(zip(out, expected)):
        if o is None or len(o.values) != len(e) or not np.allclose(o.values, e, rtol=1e-12, atol=1e-12):
            return False, (f"kinds {''.join(kinds)}, shots {[t.number_of_shots for t in tasks]}: result {i} for {tasks[i].operator} is "
                           f"{None if o is None else list(o.values)}, expected {e}")
    return _c15_exact_and_bind(r)


def _c15_exact_and_bind(r):
    """exact expectation values and per-task binding on task lists whose circuits (and symbol maps) are drawn from a small pool of OBJECTS, so that
    neighbours share a circuit / a map object, with constant-operator and zero-shot tasks in between"""
    import sympy
    from orquestra.quantum.api.estimation import EstimationTask
    from orquestra.quantum.circuits import RX, RY, Circuit, H, X
    from orquestra.quantum.estimation import calculate_exact_expectation_values, evaluate_estimation_circuits
    from orquestra.quantum.operators import PauliSum, PauliTerm
    from orquestra.quantum.runners.symbolic_simulator import SymbolicSimulator
    w = r.randint(1, 3)
    pool = []
    for _ in range(r.randint(1, 3)):
        ops = [r.choice([X, H, RX(round(r.uniform(-3, 3), 2)), RY(round(r.uniform(-3, 3), 2))])(r.randrange(w)) for _ in range(r.randint(1, 4))]
        pool.append(Circuit(ops, n_qubits=w))
    if r.random() < 0.3:
        pool.append(Circuit(list(pool[0].operations), n_qubits=w))          # equal to pool[0] but another object
    tasks = []
    for _ in range(r.randint(1, 7)):
        if r.random() < 0.3:
            op = PauliSum([PauliTerm("I0", r.choice([1.0, -2.0, 0.5])) for _ in range(r.randint(1, 2))])
        else:
            op = rand_sum(r, w, kinds=("int", "float", "neg"))
            if not op.terms:
                op = PauliSum([PauliTerm({0: "Z"}, 1.0)])
        tasks.append(EstimationTask(op, r.choice(pool), r.choice([0, None, 1, 10])))
    vals = calculate_exact_expectation_values(SymbolicSimulator(), tasks)
    if len(vals) != len(tasks):
        return False, f"{len(vals)} exact results for {len(tasks)} tasks"
    for i, (t, v) in enumerate(zip(tasks, vals)):
        psi = ref_unitary(t.circuit)[:, 0]
        e = complex(np.vdot(psi, op_dense(t.operator, w) @ psi)).real
        if len(v.values) != 1 or abs(v.values[0] - e) > 1e-9:
            which = [pool.index(x.circuit) for x in tasks]
            return False, f"exact value of task {i} ({t.operator} on circuit object #{which[i]} of {which}) is {list(v.values)}, the quadratic form is {e}"
    syms = sympy.symbols("al be ga")
    cpool = []
    for _ in range(r.randint(1, 3)):
        used = r.sample(syms, r.randint(1, 3))
        cpool.append(Circuit([r.choice([RX, RY])(s_ if r.random() < 0.7 else 2 * s_)(r.randrange(w)) for s_ in used] + ([X(0)] if r.random() < 0.5 else []), n_qubits=w))
    btasks = [EstimationTask(PauliSum([PauliTerm({0: "Z"}, 1.0)]), r.choice(cpool), r.choice([0, 5, None])) for _ in range(r.randint(1, 6))]
    full = {s_: round(r.uniform(-2, 2), 2) for s_ in syms}
    mode = r.choice(["one object", "separate equal", "separate different", "partial"])
    if mode == "one object":
        maps = [full] * len(btasks)
    elif mode == "separate equal":
        maps = [dict(full) for _ in btasks]
    elif mode == "separate different":
        maps = [{s_: round(r.uniform(-2, 2), 2) for s_ in syms} for _ in btasks]
    else:
        maps = [{s_: full[s_] for s_ in r.sample(syms, r.randint(0, 3))} for _ in btasks]
    before = [dict(m) for m in maps]
    out = evaluate_estimation_circuits(btasks, maps)
    if len(out) != len(btasks) or [dict(m) for m in maps] != before:
        return False, f"evaluate_estimation_circuits: {len(out)} tasks for {len(btasks)} / maps modified"
    for i, (t, b, m) in enumerate(zip(btasks, out, maps)):
        if b.circuit != t.circuit.bind(m) or set(b.circuit.free_symbols) != set(t.circuit.free_symbols) - set(m) or b.operator is not t.operator or b.number_of_shots != t.number_of_shots:
            return False, f"maps given as {mode}: task {i} with circuit {t.circuit} and map {m} came back with circuit {b.circuit} (free symbols {b.circuit.free_symbols})"
    return True, "ok"


def check_C16(case):
    """random Hamiltonians (1..4 terms on <= 3 qubits with gaps; negative coefficients, repeated strings, constant terms anywhere), 1..3 steps,
    random time: circuit matrix == ordered Trotter product (up to the constant terms' phase); derivative circuits/factors == d/dt"""
    import scipy.linalg
    from orquestra.quantum.evolution import time_evolution, time_evolution_derivatives
    from orquestra.quantum.operators import PauliSum, PauliTerm
    r = rng("C16", case)
    n = r.randint(1, 3)
    terms = []
    for _ in range(r.randint(1, 4)):
        c = r.choice([1.0, -1.0, 0.5, -0.7, 2.0, 0.25]) if r.random() < 0.6 else round(r.uniform(-2, 2), 3) or 0.3
        if r.random() < 0.15:
            terms.append(({}, c))
        else:
            qs = r.sample(range(n), r.randint(1, n))
            terms.append(({q: r.choice("XYZ") for q in qs}, c))
    if r.random() < 0.3:
        terms.insert(r.randrange(len(terms) + 1), r.choice(terms))
    objs = [PauliTerm(dict(o) if o else "I0", c) for o, c in terms]
    if r.random() < 0.35:              # one and the same term OBJECT listed at two positions (a symmetric splitting)
        j = r.randrange(len(objs))
        k = r.randrange(len(objs) + 1)
        objs.insert(k, objs[j])
        terms.insert(k, terms[j if j < k else j])
    H = PauliSum(objs)
    steps = r.randint(1, 3)
    t = r.choice([0.37, -1.3, 2.2, 0.05])

    def mat(circ):
        U = ref_unitary(circ, n) if circ.n_qubits <= n else None
        return U

    def product(tt):
        W = np.eye(2 ** n, dtype=complex)
        for _ in range(steps):
            for o, c in terms:
                W = scipy.linalg.expm(-1j * (tt / steps) * c * pauli_dense(o, n)) @ W
        return W
    circ = time_evolution(H, t, n_steps=steps)
    if circ.n_qubits > n:
        return False, f"evolution circuit of {H} uses {circ.n_qubits} qubits"
    U = mat(circ)
    if not same_up_to_phase(U, product(t)) or (all(o for o, _ in terms) and not np.allclose(U, product(t), atol=1e-9)):
        return False, f"time_evolution({H}, {t}, n_steps={steps}): circuit matrix differs from the ordered Trotter product"
    # exp(-i t H) depends on t x H only: a tiny (huge) Hamiltonian evolved for a long (short) time is the same evolution
    sc = r.choice([1e-9, 1e-5, 1e6])
    Hs = PauliSum([PauliTerm(dict(o) if o else "I0", c * sc) for o, c in terms])
    Us = mat(time_evolution(Hs, t / sc, n_steps=steps))
    if Us is None or not same_up_to_phase(Us, product(t), tol=1e-6):
        return False, f"time_evolution({sc} x ({H}), {t} / {sc}, n_steps={steps}) differs from the evolution under {H} for time {t}"
    A = np.array([[complex(r.gauss(0, 1), r.gauss(0, 1)) for _ in range(2 ** n)] for _ in range(2 ** n)])
    O = A + A.conj().T
    psi = rand_state(r, n)

    def ex(c):
        v = ref_unitary(c, n) @ psi
        return float(np.vdot(v, O @ v).real)
    cs, fs = time_evolution_derivatives(H, t, n_steps=steps)
    lhs = sum(f * ex(c) for f, c in zip(fs, cs))
    h = 1e-5
    rhs = (ex(time_evolution(H, t + h, n_steps=steps)) - ex(time_evolution(H, t - h, n_steps=steps))) / (2 * h)
    if abs(lhs - rhs) > 1e-5 * max(1.0, abs(rhs)) * max(1, np.abs(O).max()):
        return False, f"derivative of {H} at t={t}, n_steps={steps}: factor-weighted sum {lhs} vs d/dt {rhs}"
    return True, "ok"


def check_C17(case):
    """random distributions (1..6 qubits, tuple or string keys, unnormalised weights of mixed magnitude): normalisation keeps proportions;
    marginal on a random qubit list (any order) == sums; source intact; MMD / clipped NLL / symmetrised divergence laws; save/load"""
    import os
    import tempfile
    from orquestra.quantum.distributions import MeasurementOutcomeDistribution as MOD, compute_clipped_negative_log_likelihood as nll, \
        compute_jensen_shannon_divergence as jsd, compute_mmd, load_measurement_outcome_distribution, save_measurement_outcome_distribution
    r = rng("C17", case)
    n = r.randint(1, 6)

    def rand_dist():
        keys = list({tuple(r.randint(0, 1) for _ in range(n)) for _ in range(r.randint(1, 8))})
        ws = [r.choice([1, 2, 3, 0.5, 0.25, 1e-3, 10]) if r.random() < 0.7 else r.uniform(0.01, 5) for _ in keys]
        if len(keys) > 1 and r.random() < 0.2:
            ws[r.randrange(len(ws))] = 0.0
        if len(keys) > 1 and r.random() < 0.25:          # an extreme dynamic range inside one distribution (proportions are relative statements)
            ws[r.choice([0, -1, r.randrange(len(ws))])] = r.choice([1e-20, 1e-12, 3e-17, 1e12])
        return keys, ws
    keys, ws = rand_dist()
    as_str = r.random() < 0.4
    raw = {("".join(map(str, k)) if as_str else tuple(npi(b) for b in k)): npf(w) for k, w in zip(keys, ws)}
    D = MOD(dict(raw), normalize=True)
    tot = sum(ws)
    got = {tuple(int(c) for c in k) if isinstance(k, str) else tuple(k): v for k, v in D.distribution_dict.items()}
    if abs(sum(got.values()) - 1) > 1e-9 or any(v < 0 for v in got.values()) or any(abs(got.get(k, 0) - w / tot) > 1e-9 * (w / tot) + 1e-300 for k, w in zip(keys, ws)):
        return False, f"MOD({raw}) holds {D.distribution_dict}: not the input proportions normalised to 1"
    qs = r.sample(range(n), r.randint(1, n))
    before = dict(D.distribution_dict)
    sub = D.subdistribution(r.choice([list(qs), tuple(qs), np.array(qs), [npi(q) for q in qs]]))
    want = {}
    for k, v in got.items():
        pk = tuple(k[q] for q in qs)
        want[pk] = want.get(pk, 0) + v
    sgot = {tuple(int(c) for c in k) if isinstance(k, str) else tuple(k): v for k, v in sub.distribution_dict.items()}
    if set(sgot) != set(want) or any(abs(sgot[k] - want[k]) > 1e-12 for k in want):
        return False, f"subdistribution of {before} on qubits {qs} is {sub.distribution_dict}, the marginal is {want}"
    if dict(D.distribution_dict) != before:
        return False, f"subdistribution modified its source"
    keys2, ws2 = rand_dist()
    E = MOD({k: w for k, w in zip(keys2, ws2)}, normalize=True)
    Dt = MOD({k: w for k, w in got.items()}, normalize=True)
    sig = r.choice([0.3, 1.0, 4.0, [0.5, 2.0]])
    a, b = compute_mmd(Dt, E, {"sigma": sig}), compute_mmd(E, Dt, {"sigma": sig})
    if abs(a - b) > 1e-12 or a < -1e-12 or abs(compute_mmd(Dt, Dt, {"sigma": sig})) > 1e-14:
        return False, f"squared MMD laws fail: {a} / reversed {b} / self {compute_mmd(Dt, Dt, {'sigma': sig})} for {Dt} and {E}"
    # the same two distributions with their outcomes inserted in another order: every distance is a function of the distributions, not of insertion order
    ik, jk = list(Dt.distribution_dict.items()), list(E.distribution_dict.items())
    r.shuffle(ik)
    r.shuffle(jk)
    Ds, Es = MOD(dict(ik), normalize=False), MOD(dict(jk), normalize=False)
    if abs(compute_mmd(Ds, E, {"sigma": sig}) - a) > 1e-12 or abs(compute_mmd(Dt, Es, {"sigma": sig}) - a) > 1e-12 or abs(compute_mmd(Ds, Dt, {"sigma": sig})) > 1e-14:
        return False, f"squared MMD depends on the insertion order of the outcomes: {Dt} / {Ds} against {E} / {Es}"
    eps = r.choice([1e-9, 1e-6, 1e-3])
    if abs(nll(Ds, Es, {"epsilon": eps}) - nll(Dt, E, {"epsilon": eps})) > 1e-9 or abs(jsd(Ds, Es, {"epsilon": eps}) - jsd(Dt, E, {"epsilon": eps})) > 1e-9:
        return False, f"clipped NLL / symmetrised divergence depends on the insertion order of the outcomes: {Dt} / {Ds} against {E} / {Es}"
    P, Q = Dt.distribution_dict, E.distribution_dict
    ent = -sum(v * math.log(v) for v in P.values() if v > 0)
    x = nll(Dt, E, {"epsilon": eps})
    wantx = -sum(tv * math.log(max(eps, Q.get(k, 0))) for k, tv in P.items())
    if abs(x - wantx) > 1e-9 or x < ent - 1e-9 - 8 * eps:
        return False, f"clipped NLL {x}, definition {wantx}, entropy of the target {ent}"
    if abs(jsd(Dt, E, {"epsilon": eps}) - jsd(E, Dt, {"epsilon": eps})) > 1e-9:
        return False, f"symmetrised divergence not symmetric for {Dt}, {E}"
    with tempfile.TemporaryDirectory() as td:
        f = os.path.join(td, "d.json")
        if _NP[0]:          # numpy integers are not JSON-serialisable: save the same distribution with Python numbers
            D = MOD({tuple(int(b) for b in k): float(v) for k, v in got.items()}, normalize=False)
        save_measurement_outcome_distribution(D, f)
        ld = load_measurement_outcome_distribution(f)
        lgot = {tuple(int(c) for c in k) if isinstance(k, str) else tuple(k): v for k, v in ld.distribution_dict.items()}
        if set(lgot) != set(got) or any(abs(lgot[k] - got[k]) > 1e-15 for k in got):
            return False, f"save / load changed {D} into {ld}"
    return True, "ok"


# ----------------------------------------------------------------------------------------------------------------- states, runners
def check_C04(case):
    """random numeric circuits on 1..4 qubits (idle qubits, wrappers, any qubit order): state vector, exact distribution, samples (few / many),
    count strings, exact expectation of random Z-type and general operators, and expectation from measurements of a basis-state variant
    all use the circuit's qubit numbering"""
    from orquestra.quantum.circuits import Circuit, X
    from orquestra.quantum.measurements import Measurements
    from orquestra.quantum.operators import PauliSum, PauliTerm
    from orquestra.quantum.runners.symbolic_simulator import SymbolicSimulator
    r = rng("C04", case)
    c = rand_circuit(r, max_width=4, max_ops=6)
    n = c.n_qubits
    if n == 0:
        return None, "empty register"
    U = ref_unitary(c)
    psi = U[:, 0]
    sim = SymbolicSimulator(seed=r.randrange(1000))
    wf = sim.get_wavefunction(c)
    if not np.allclose(np.array(wf.amplitudes, dtype=complex), psi, atol=1e-9):
        return False, f"state of {c} differs from the first column of its matrix"
    probs = {tuple((i >> (n - 1 - q)) & 1 for q in range(n)): abs(psi[i]) ** 2 for i in range(2 ** n)}
    dist = sim.get_measurement_outcome_distribution(c, n_samples=None).distribution_dict
    for k, v in dist.items():
        if len(k) != n or abs(v - probs[tuple(k)]) > 1e-9:
            return False, f"exact distribution of {c}: outcome {k} has probability {v}, the state gives {probs.get(tuple(k))}"
    if abs(sum(dist.values()) - 1) > 1e-9:
        return False, f"exact distribution of {c} sums to {sum(dist.values())}"
    op = rand_z_op(r, n)
    exact = sim.get_exact_expectation_values(c, op)
    want = sum(t.coefficient * sum(v * _eps(k, t.qubits) for k, v in probs.items()) for t in op.terms)
    if abs(exact - want) > 1e-9:
        return False, f"exact expectation of {op} in {c}: {exact}, eigenvalue average over the exact distribution {want}"
    g = rand_sum(r, n, kinds=("int", "float", "neg"))
    if g.terms:
        ex2 = sim.get_exact_expectation_values(c, g)
        want2 = complex(np.vdot(psi, op_dense(g, n) @ psi)).real
        if abs(ex2 - want2) > 1e-9:
            return False, f"exact expectation of {g} in {c}: {ex2}, quadratic form {want2}"
    for ns in (r.choice([1, 2, 3]), r.choice([17, 64, 257])):
        ms = sim.run_and_measure(c, ns)
        if len(ms.bitstrings) != ns:
            return False, f"{len(ms.bitstrings)} samples for {ns} requested from {c}"
        for s in ms.bitstrings:
            if len(s) != n or probs[tuple(s)] < 1e-12:
                return False, f"sampled outcome {s} of {c} ({ns} samples) has exact probability {probs.get(tuple(s))}"
        for k in ms.get_counts():
            if len(k) != n or probs[tuple(int(ch) for ch in k)] < 1e-12:
                return False, f"count string {k} of {c} has exact probability zero / wrong length"
    bits = [r.randint(0, 1) for _ in range(n)]
    b = Circuit([X(q) for q in range(n) if bits[q]], n_qubits=n)
    ms = sim.run_and_measure(b, r.choice([1, 5, 40]))
    if set(ms.get_counts()) != {"".join(map(str, bits))}:
        return False, f"basis state {bits}: count strings {set(ms.get_counts())}"
    ev = ms.get_expectation_values(op)
    wantb = [t.coefficient * _eps(bits, t.qubits) for t in op.terms]
    if not np.allclose(ev.values, wantb, atol=1e-12) or abs(sim.get_exact_expectation_values(b, op) - sum(wantb)) > 1e-9:
        return False, f"basis state {bits}, operator {op}: from measurements {list(ev.values)}, exact {sim.get_exact_expectation_values(b, op)}, eigenvalues {wantb}"
    return True, "ok"


def flat_(x):
    return np.array(x, dtype=complex).reshape(-1).real


def check_C12(case):
    """random histories of 1..10 element / slice assignments on a random normalised state of 1..4 qubits (accepted: norm-preserving phase
    changes, swaps, re-assignments of the old value; rejected: anything that changes the norm): after each step the object is valid, a
    rejected step leaves it exactly as it was; probabilities, flip and save/load afterwards"""
    import os
    import tempfile
    from orquestra.quantum.wavefunction import Wavefunction, flip_wavefunction, load_wavefunction, save_wavefunction
    r = rng("C12", case)
    n = r.randint(1, 4)
    v = rand_state(r, n)
    if r.random() < 0.3:
        v = np.zeros(2 ** n, dtype=complex)
        v[r.randrange(2 ** n)] = r.choice([1, -1, 1j])
    if r.random() < 0.4:
        return _c12_symbolic(r, n)
    # construction: any length, any norm, several container kinds - accepted exactly for a power-of-two length and squared magnitudes summing to 1
    L = r.choice([1, 2, 3, 4, 5, 6, 7, 8, 9, 12, 15, 16, 17, 31, 32, 33, 64, 100, 255, 256, 257, 1000, 1024])
    amps = np.array([complex(r.gauss(0, 1), r.gauss(0, 1)) for _ in range(L)])
    amps /= np.linalg.norm(amps)
    factor = r.choice([1.0, 1.0, 1.0, 1 + 1e-13, 1 - 1e-13, 1.01, 0.99, 1 + 1e-3, 1 - 1e-3, 2.0, 0.0, 0.5])
    vec = amps * factor
    arg = r.choice([lambda: vec.copy(), lambda: list(vec), lambda: tuple(vec), lambda: vec.copy().reshape(-1, 1), lambda: [complex(x) for x in vec]])()
    ok_expected = (L & (L - 1) == 0) and abs(factor - 1) < 1e-9
    try:
        wv = Wavefunction(arg)
        accepted = True
    except ValueError:
        accepted = False
    if accepted != ok_expected:
        return False, f"a vector of {L} amplitudes with norm {factor} given as {type(arg).__name__} was {'accepted' if accepted else 'rejected'}"
    if accepted and (abs(float(np.sum(wv.get_probabilities())) - 1) > 1e-6 or len(wv) != L or not np.allclose(flat_(wv.get_probabilities()), np.abs(vec) ** 2, atol=1e-12)):
        return False, f"a valid vector of {L} amplitudes: probabilities are not the squared magnitudes summing to 1"
    storage = r.choice(["flat", "flat", "column", "bound"])
    if storage == "column":
        w = Wavefunction(v.copy().reshape(-1, 1))
    elif storage == "bound":           # a symbolic state with every symbol bound: numeric again, but stored as the substituted matrix was
        import sympy
        sy = sympy.symbols("w_a w_b")
        j0, j1 = r.sample(range(2 ** n), 2) if n > 0 and 2 ** n >= 2 else (0, 0)
        ent = [complex(x) for x in v]
        sym_ent = list(ent)
        sym_ent[j0], sym_ent[j1] = sy[0], sy[1]
        w = Wavefunction(sym_ent).bind({sy[0]: ent[j0], sy[1]: ent[j1]})
        v = np.array(w.amplitudes, dtype=complex).reshape(-1)
    else:
        w = Wavefunction(v.copy())
    cur = v.copy()
    flat = lambda x: np.array(x, dtype=complex).reshape(-1)
    TOL = 1.1e-5        # the library's own criterion is numpy.isclose(sum, 1.0): |sum - 1| <= 1e-5 + 1e-8; an accepted state may sit anywhere inside it
    for step in range(r.randint(1, 10)):
        i = r.randrange(2 ** n) if r.random() < 0.7 else -r.randint(1, 2 ** n)
        kind = r.choice(["phase", "same", "scale", "zero", "slice_swap", "slice_bad", "big"])
        before = flat(w.amplitudes).copy()
        try:
            if kind == "phase":
                val = cur[i] * np.exp(1j * r.uniform(0, 6))
                w[i] = val
                new = cur.copy(); new[i] = val
            elif kind == "same":
                w[i] = cur[i]
                new = cur.copy()
            elif kind == "scale":
                val = cur[i] * r.choice([0.5, 1.5, 2.0])
                w[i] = val
                new = cur.copy(); new[i] = val
            elif kind == "zero":
                w[i] = 0
                new = cur.copy(); new[i] = 0
            elif kind == "big":
                w[i] = 1.5
                new = cur.copy(); new[i] = 1.5
            elif kind == "slice_swap":
                a = r.randrange(2 ** n - 1)
                vals = [cur[a + 1], cur[a]]
                w[a:a + 2] = vals
                new = cur.copy(); new[a:a + 2] = vals
            else:
                a = r.randrange(2 ** n - 1)
                vals = [cur[a] * 0.5, cur[a + 1] * 0.5 + 0.1]
                w[a:a + 2] = vals
                new = cur.copy(); new[a:a + 2] = vals
            accepted = True
        except ValueError:
            accepted = False
        now = flat(w.amplitudes)
        if accepted:
            if abs(np.sum(np.abs(new) ** 2) - 1) > TOL:
                return False, f"step {step} ({kind}) accepted although the squared magnitudes then sum to {np.sum(np.abs(new) ** 2)}"
            if not np.array_equal(now, new):
                return False, f"step {step} ({kind}) accepted but the vector is not the updated one"
            cur = new
        else:
            if abs(np.sum(np.abs(new) ** 2) - 1) < 1e-9 if 'new' in dir() and False else False:
                return False, "unreachable"
            if not np.array_equal(now, before):
                return False, f"step {step} ({kind}) was rejected but changed the vector from {before} to {now}"
        if abs(np.sum(np.abs(now) ** 2) - 1) > TOL:
            return False, f"after step {step} ({kind}) the squared magnitudes sum to {np.sum(np.abs(now) ** 2)}"
    p = flat(w.get_probabilities()).real
    if not np.allclose(p, np.abs(cur) ** 2, atol=1e-12) or abs(sum(p) - 1) > TOL:
        return False, "probabilities are not the squared magnitudes"
    if storage != "flat":
        return True, "ok"
    f = flip_wavefunction(w)
    rev = lambda i: int(format(i, f"0{n}b")[::-1], 2)
    if any(f.amplitudes[i] != cur[rev(i)] for i in range(2 ** n)) or not np.array_equal(np.array(flip_wavefunction(f).amplitudes), cur):
        return False, "flip is not the bit-reversal permutation / not an involution after the history"
    with tempfile.TemporaryDirectory() as td:
        pth = os.path.join(td, "w.json")
        save_wavefunction(w, pth)
        if not np.array_equal(np.array(load_wavefunction(pth).amplitudes, dtype=complex), cur):
            return False, "save/load changed the amplitudes after the history"
    return True, "ok"


def _c12_symbolic(r, n):
    """symbolic states: entries are symbols, expressions, Python numbers and sympy constants of every kind (I, pi/4, E/3, sqrt(3)/2, rationals, floats);
    construction, element assignment and binding (to numbers, to expressions in the same or other symbols) are accepted only if the numeric entries
    do not already exceed norm 1; a rejected step leaves the object as it was"""
    import sympy
    from orquestra.quantum.wavefunction import Wavefunction
    n = max(n, 1)
    N = 2 ** n
    sy = list(sympy.symbols("w_a w_b w_c"))
    consts = [sympy.I, -sympy.I, sympy.pi / 4, sympy.E / 3, sympy.sqrt(3) / 2, sympy.Rational(9, 10), sympy.Rational(1, 2), 0.9 * sympy.I, sympy.Float(0.9), sympy.GoldenRatio / 2,
              sympy.sqrt(2) / 2, sympy.I / 2, 1, 0.5, 0.5j, 0, 0.1, sympy.Integer(1), sympy.pi / 3, sympy.exp(sympy.I * sympy.pi / 3) / 2]

    def numeric_total(vec):
        t = 0.0
        for e in vec:
            e = sympy.sympify(e)
            if not e.free_symbols:
                t += abs(complex(sympy.N(e))) ** 2
        return t

    def entries(w):
        a = w.amplitudes
        if not isinstance(a, np.ndarray):
            return [a[i] for i in range(N)]
        return [complex(x) if isinstance(x, (np.generic, int, float, complex)) else x for x in np.array(a).reshape(-1)]

    def rand_entry():
        u = r.random()
        if u < 0.35:
            return r.choice(sy)
        if u < 0.45:
            s1 = r.choice(sy)
            return r.choice([s1 / 2, s1 + r.choice(sy), 2 * s1, -s1])
        return r.choice(consts)
    vec = [rand_entry() for _ in range(N)]
    if r.random() < 0.4:            # nearly saturated: the numeric entries already carry 0.5 .. 0.8, the rest are bare symbols / sums of symbols
        fill = r.choice([[0.5, 0.5], [sympy.sqrt(2) / 2], [0.5, sympy.I / 2], [sympy.sqrt(3) / 2], [0.5, 0.5, 0.5], [0.8], [sympy.Rational(1, 2), 0.5j, 0.5]])
        fill = fill[:max(1, N - 1)]
        vec = list(fill) + [r.choice(sy) if r.random() < 0.8 else r.choice(sy) + r.choice(sy) for _ in range(N - len(fill))]
        r.shuffle(vec)
    if all(not sympy.sympify(e).free_symbols for e in vec):
        vec[r.randrange(N)] = sy[0]
    tot = numeric_total(vec)
    if abs(tot - 1) < 1e-6:
        return None, "boundary"
    try:
        w = Wavefunction(list(vec))
        ok = True
    except ValueError:
        ok = False
    if ok != (tot < 1):
        return False, f"Wavefunction({vec}) was {'accepted' if ok else 'rejected'}: its numeric entries have total probability {tot:.6f}"
    if not ok:
        return True, "ok"
    for step in range(r.randint(1, 6)):
        before = entries(w)
        if not any(sympy.sympify(e).free_symbols for e in before):
            break
        if r.random() < 0.5:
            i = r.randrange(N) if r.random() < 0.7 else -r.randint(1, N)
            val = rand_entry()
            new = list(before)
            new[i] = val
            t2 = numeric_total(new)
            if abs(t2 - 1) < 1e-6:
                continue
            try:
                w[i] = val
                acc = True
            except ValueError:
                acc = False
            now = entries(w)
            if not any(sympy.sympify(e).free_symbols for e in new):
                continue            # the vector would become fully numeric: the numeric histories cover that
            if acc != (t2 < 1):
                return False, f"assigning {val} at {i} of {before} was {'accepted' if acc else 'rejected'}: the numeric entries then total {t2:.6f}"
            if not acc and any(sympy.sympify(x) != sympy.sympify(y) for x, y in zip(now, before)):
                return False, f"the rejected assignment of {val} at {i} changed {before} into {now}"
            if acc and sympy.sympify(now[i]) != sympy.sympify(val):
                return False, f"the accepted assignment of {val} at {i} left {now[i]} there"
        else:
            free = sorted({x for e in before for x in sympy.sympify(e).free_symbols}, key=str)
            mp = {}
            for s_ in free:
                u = r.random()
                if u < 0.45:
                    mp[s_] = r.choice([0.1, 0.3, 0.5, 0.9, 1.2, 0.5j, -0.7, 0.95, 0.8])
                elif u < 0.9:
                    o = r.choice(free) if r.random() < 0.7 else r.choice(sy)
                    mp[s_] = r.choice([o, o + s_, o / 2, 2 * o, o + r.choice(free)])
            try:
                nw = w.bind(dict(mp))
                acc = True
            except ValueError:
                acc = False
            now = entries(w)
            if any(sympy.sympify(x) != sympy.sympify(y) for x, y in zip(now, before)):
                return False, f"bind({mp}) changed the receiver {before} into {now}"
            if acc:
                res = entries(nw)
                t2 = numeric_total(res)
                full = not any(sympy.sympify(e).free_symbols for e in res)
                if t2 > 1 + 1e-6 or (full and abs(t2 - 1) > 1e-6):
                    return False, f"bind({mp}) on {before} returned {res}, whose numeric entries total {t2:.6f}"
                w = nw
            else:
                seq = [sympy.sympify(e).subs(mp) for e in before]
                if any(e.free_symbols for e in seq) and numeric_total(seq) < 1 - 1e-6:
                    return False, f"bind({mp}) on {before} was rejected although the numeric entries of {seq} total {numeric_total(seq):.6f}"
    return True, "ok"


def check_C14(case):
    """random call histories (4..10 calls) on a base-class runner and on a tracker around one: random circuit lists (0..5 circuits of random
    width), shot counts as int / list / tuple with an invalid entry or a wrong length at a random position in some calls"""
    import os
    import tempfile
    from orquestra.quantum.api.circuit_runner import BaseCircuitRunner
    from orquestra.quantum.circuits import Circuit, X
    from orquestra.quantum.measurements import Measurements
    from orquestra.quantum.runners.trackers import MeasurementTrackingBackend
    r = rng("C14", case)

    class Dummy(BaseCircuitRunner):
        def __init__(self):
            super().__init__()
            self.executed = []

        def _run_and_measure(self, circuit, n):
            self.executed.append((circuit, n))
            return Measurements([tuple(1 if any(o.qubit_indices[0] == q for o in circuit.operations) else 0 for q in range(circuit.n_qubits))] * n)
    with tempfile.TemporaryDirectory() as td:
        inner = Dummy()
        runners = {"dummy": Dummy(), "tracker": MeasurementTrackingBackend(inner, os.path.join(td, "raw.json"))}
        for rn, run in runners.items():
            probe = run if rn == "dummy" else inner
            for step in range(r.randint(4, 10)):
                L = r.randint(0, 5)
                circs = []
                for _ in range(L):
                    w = r.randint(1, 5)
                    circs.append(Circuit([X(q) for q in range(w) if r.random() < 0.5], n_qubits=w))
                mode = r.choice(["single", "int", "list", "tuple", "list", "badlen", "badval", "badint"])
                nc, nj, ex0 = run.n_circuits_executed, run.n_jobs_executed, len(probe.executed)
                req = [npi(r.randint(1, 12)) for _ in range(L)]
                bad = False
                try:
                    if mode == "single":
                        c1 = circs[0] if circs else Circuit([X(0)])
                        k = r.choice([1, 7, 0, -3])
                        bad = k <= 0
                        out = [run.run_and_measure(c1, k)]
                        circs, req = [c1], [k]
                    elif mode in ("int", "badint"):
                        k = r.randint(1, 9) if mode == "int" else r.choice([0, -1])
                        if k <= 0 and not L:
                            continue
                        bad = k <= 0
                        out = run.run_batch_and_measure(circs, k)
                        req = [k] * L
                    elif mode == "badlen":
                        wrong = req + [3] if r.random() < 0.5 or not req else req[:-1]
                        bad = True
                        out = run.run_batch_and_measure(circs, wrong)
                    elif mode == "badval":
                        if not req:
                            continue
                        req2 = list(req)
                        req2[r.randrange(L)] = r.choice([0, -2])
                        bad = True
                        out = run.run_batch_and_measure(circs, req2)
                    else:
                        out = run.run_batch_and_measure(circs, (np.array(req, dtype=int) if _NP[0] and req else list(req)) if mode == "list" else tuple(req))
                except ValueError:
                    if not bad:
                        return False, f"{rn} step {step}: valid call ({mode}, shots {req}) rejected"
                    if (run.n_circuits_executed, run.n_jobs_executed) != (nc, nj) or len(probe.executed) != ex0:
                        return False, f"{rn} step {step}: rejected call ({mode}) changed counters {(nc, nj)} -> {(run.n_circuits_executed, run.n_jobs_executed)} / executed {len(probe.executed) - ex0} circuits"
                    continue
                if bad:
                    return False, f"{rn} step {step}: invalid call ({mode}) accepted"
                if len(out) != len(circs):
                    return False, f"{rn} step {step}: {len(out)} results for {len(circs)} circuits"
                for j, (m, c, k) in enumerate(zip(out, circs, req)):
                    want = tuple(1 if any(o.qubit_indices[0] == q for o in c.operations) else 0 for q in range(c.n_qubits))
                    if len(m.bitstrings) < k or any(tuple(b) != want for b in m.bitstrings):
                        return False, f"{rn} step {step} ({mode}, shots {req}): result {j} has {len(m.bitstrings)} shots (requested {k}) / outcomes {set(m.bitstrings)} expected {want}"
                grew = (run.n_circuits_executed - nc, run.n_jobs_executed - nj)
                if rn == "dummy" and grew != (len(circs), len(circs)):
                    return False, f"{rn} step {step} ({mode}): counters grew by {grew} for {len(circs)} circuits"
                if grew[0] < 0 or grew[1] < 0 or len(probe.executed) - ex0 != len(circs):
                    return False, f"{rn} step {step} ({mode}): {len(probe.executed) - ex0} circuits executed for {len(circs)} requested"
    return True, "ok"


def check_C19(case):
    """random sympy expression trees (depth <= 4) over symbols with numbered names, integers, floats, rationals, I, + - * / **, numeric
    coefficients times powers, exponents that are themselves small expressions (1/y, -y, y+1), sqrt and the supported functions, flat
    UNEVALUATED sums / products with several numeric literals (also imaginary ones): translating to the neutral tree and back evaluates
    to the same number at real points beyond +-pi and at complex points"""
    import sympy
    from orquestra.quantum.circuits.symbolic.sympy_expressions import SYMPY_DIALECT, expression_from_sympy
    from orquestra.quantum.circuits.symbolic.translations import translate_expression
    r = rng("C19", case)
    syms = sympy.symbols("x y theta_1 theta_10 beta_2 lambda_3")
    funcs = [sympy.sin, sympy.cos, sympy.exp, sympy.tan, sympy.sqrt]

    def num():
        k = r.randrange(4)
        if k == 0:
            return sympy.Integer(r.choice([0, 1, 2, -1, -3, 7, 10, 12]))
        if k == 1:
            return sympy.Float(r.choice([0.5, -1.25, 3.141592653589793, 1e-3, 2.5, 0.1, 1.5, 2.0]))
        if k == 2:
            return r.choice([sympy.Rational(1, 3), sympy.Rational(-7, 2), sympy.Rational(22, 7), sympy.Rational(1, 2)])
        return r.choice([sympy.I, 2.0 * sympy.I, -0.5 * sympy.I, 3 * sympy.I])

    def leaf():
        u = r.random()
        if u < 0.1:
            return sympy.I * r.choice(syms)
        return r.choice(syms) if u < 0.6 else num()

    def exponent():
        s = r.choice(syms)
        return r.choice([2, 3, -1, -2, sympy.Rational(1, 2), 0.5, 1.5, s, 1 / s, -s, s + 1, sympy.Rational(1, 3), 2 * s])

    def tree(d):
        if d == 0 or r.random() < 0.2:
            return leaf()
        k = r.choice(["+", "-", "*", "/", "**", "f", "neg", "+", "*", "coef", "flat+", "flat*"])
        if k == "f":
            return r.choice(funcs)(tree(d - 1))
        if k == "neg":
            return -tree(d - 1)
        if k == "coef":
            return r.choice([2, -1, sympy.Rational(1, 2), 2.5, -3]) * tree(d - 1)
        if k in ("flat+", "flat*"):
            args = [num() if r.random() < 0.6 else tree(d - 1) for _ in range(r.randint(2, 4))]
            r.shuffle(args)
            return (sympy.Add if k == "flat+" else sympy.Mul)(*args, evaluate=False)
        a = tree(d - 1)
        if k == "**":
            if r.random() < 0.3:        # a function value as the base: (exp(a))**b is not exp(a*b) off the principal strip
                a = r.choice(funcs)(a)
            return a ** exponent()
        b = tree(d - 1)
        if k == "+":
            return a + b
        if k == "-":
            return a - b
        if k == "*":
            return a * b
        return a / (b if b != 0 else 1)
    e = tree(4)
    if not isinstance(e, sympy.Expr) or e.has(sympy.zoo, sympy.nan, sympy.oo):
        return None, "degenerate"
    try:
        back = translate_expression(expression_from_sympy(e), SYMPY_DIALECT)
    except (ValueError, NotImplementedError):
        return None, "a construct outside the supported set was refused"
    except ZeroDivisionError:
        # an unevaluated sub-expression that IS a division by zero (e.g. an unevaluated product of literals that is 0.0, raised to a negative power): the
        # expression has no value, so there is nothing to preserve - degenerate input, unless sympy itself can evaluate the expression to a finite value
        try:
            v = e.doit()
            if isinstance(v, sympy.Expr) and not v.has(sympy.zoo, sympy.nan, sympy.oo):
                return False, f"{e} has the finite value {v} but its translation raises ZeroDivisionError"
        except ZeroDivisionError:
            pass
        return None, "degenerate: a division by zero inside the expression"
    back = sympy.sympify(back)
    fs = sorted(e.free_symbols, key=str)
    if set(back.free_symbols) - set(fs):
        return False, f"{e} translated back as {back}: new symbols appear"
    for trial in range(3):
        if trial == 0:
            pt = {s: r.uniform(0.3, 1.7) for s in fs}
        elif trial == 1:
            pt = {s: r.choice([-1, 1]) * r.uniform(0.4, 5.5) for s in fs}
        else:
            pt = {s: complex(r.uniform(-3, 3), r.uniform(-4.5, 4.5)) for s in fs}
        try:
            a = complex(sympy.N(e.subs(pt), 30))
            b = complex(sympy.N(back.subs(pt), 30))
        except Exception:
            continue
        if not (math.isfinite(a.real) and math.isfinite(a.imag) and math.isfinite(b.real) and math.isfinite(b.imag)) or abs(a) > 1e60:
            continue
        if abs(a - b) > 1e-9 * max(1.0, abs(a)):
            # is the point ill-conditioned?  Nudge every floating-point literal of the ORIGINAL by two units in the last place: when that alone moves the
            # original's value beyond the tolerance (tan or sqrt next to a zero, cancellation), rounding an intermediate product to a double - which evaluating
            # the translated text legitimately does - decides the value, and no statement about "the same value" can be made at this point
            try:
                nudged = e.xreplace({f: sympy.Float(float(f) * (1 + 4.4e-16), 53) for f in e.atoms(sympy.Float)})
                a2 = complex(sympy.N(nudged.subs(pt), 30))
                if abs(a - a2) > 1e-10 * max(1.0, abs(a)):
                    continue
            except Exception:
                pass
            return False, f"{sympy.srepr(e) if len(str(e)) < 80 else e} = {e} -> neutral tree -> {back}: values {a} and {b} at {pt}"
    return True, "ok"


# ----------------------------------------------------------------------------------------------------------------- registry
_Q = "orquestra.quantum."
# (cases in the quick tier, cases in the thorough tier, functions exercised)
PLAN = {
    "C01": (60, 600, [_Q + "circuits._circuit:Circuit.to_unitary", _Q + "circuits._circuit:Circuit.__add__", _Q + "circuits._gates:GateOperation.lifted_matrix", _Q + "circuits._gates:GateOperation.apply",
                      _Q + "api.wavefunction_simulator:BaseWavefunctionSimulator.get_wavefunction"]),
    "C02": (300, 3000, [_Q + "circuits._builtin_gates:make_parametric_gate_prototype", _Q + "circuits._gates:MatrixFactoryGate.matrix", _Q + "circuits._matrices:*"]),
    "C03": (1500, 20000, [_Q + "operators._pauli_operators:PauliTerm.__mul__", _Q + "operators._pauli_operators:PauliSum.__mul__", _Q + "operators._pauli_operators:PauliSum.__add__",
                          _Q + "operators._pauli_operators:PauliSum.__pow__", _Q + "operators._pauli_operators:PauliSum.simplify", _Q + "operators._pauli_operators:PauliSum.__eq__"]),
    "C04": (80, 800, [_Q + "api.wavefunction_simulator:BaseWavefunctionSimulator.get_measurement_outcome_distribution", _Q + "api.wavefunction_simulator:BaseWavefunctionSimulator.get_exact_expectation_values",
                      _Q + "wavefunction:sample_from_wavefunction", _Q + "measurements.measurements:Measurements.get_expectation_values"]),
    "C05": (250, 2500, [_Q + "circuits._serde:to_dict", _Q + "circuits._serde:circuit_from_dict", _Q + "circuits._serde:circuitset_from_dict", _Q + "circuits._circuit:Circuit.collect_custom_gate_definitions"]),
    "C06": (25, 250, [_Q + "circuits._circuit:Circuit.bind", _Q + "circuits._circuit:Circuit.free_symbols", _Q + "circuits._gates:MatrixFactoryGate.bind", _Q + "circuits._operations:sub_symbols"]),
    "C07": (250, 2500, [_Q + "circuits._gates:ControlledGate.matrix", _Q + "circuits._gates:Dagger.matrix", _Q + "circuits._gates:Power.matrix", _Q + "circuits._gates:ControlledGate.replace_params"]),
    "C08": (60, 600, [_Q + "circuits._circuit:Circuit.inverse", _Q + "circuits._circuit:Circuit.controlled"]),
    "C09": (400, 4000, [_Q + "operators._openfermion_utils.sparse_tools:get_sparse_operator", _Q + "operators._utils:get_pauliop_from_matrix", _Q + "operators._utils:reverse_qubit_order",
                        _Q + "operators._utils:get_expectation_value", _Q + "operators._openfermion_utils.utils:hermitian_conjugated", _Q + "operators._openfermion_utils.utils:is_hermitian"]),
    "C10": (1500, 20000, [_Q + "measurements.measurements:Measurements.get_expectation_values", _Q + "measurements.measurements:Measurements.get_counts", _Q + "measurements.measurements:Measurements.from_counts",
                          _Q + "measurements.parities:get_parities_from_measurements"]),
    "C11": (800, 8000, [_Q + "operators._io:convert_op_to_dict", _Q + "operators._io:convert_dict_to_op", _Q + "operators._io:save_operator_set", _Q + "operators._io:load_operator_set",
                        _Q + "operators._pauli_operators:PauliTerm.__repr__", _Q + "operators._pauli_operators:PauliSum.__init__"]),
    "C12": (1500, 20000, [_Q + "wavefunction:Wavefunction.__setitem__", _Q + "wavefunction:flip_wavefunction", _Q + "wavefunction:save_wavefunction", _Q + "wavefunction:load_wavefunction"]),
    "C13": (800, 8000, [_Q + "circuits._itertools:expand_sample_sizes", _Q + "circuits._itertools:combine_measurement_counts", _Q + "circuits._itertools:combine_bitstrings", _Q + "circuits._itertools:split_into_batches",
                        _Q + "measurements.measurements:Measurements.get_measurements_representing_distribution", _Q + "utils:scale_and_discretize"]),
    "C14": (1500, 20000, [_Q + "api.circuit_runner:BaseCircuitRunner.run_and_measure", _Q + "api.circuit_runner:BaseCircuitRunner.run_batch_and_measure", _Q + "runners.trackers:MeasurementTrackingBackend.run_batch_and_measure"]),
    "C15": (1500, 20000, [_Q + "estimation._estimation:estimate_expectation_values_by_averaging", _Q + "estimation._estimation:split_estimation_tasks_to_measure", _Q + "estimation._estimation:evaluate_non_measured_estimation_tasks"]),
    "C16": (50, 500, [_Q + "evolution:time_evolution", _Q + "evolution:time_evolution_for_term", _Q + "evolution:time_evolution_derivatives"]),
    "C17": (1500, 20000, [_Q + "distributions._measurement_outcome_distribution:MeasurementOutcomeDistribution.__init__", _Q + "distributions._measurement_outcome_distribution:MeasurementOutcomeDistribution.subdistribution",
                          _Q + "distributions.mmd:compute_mmd", _Q + "distributions.clipped_negative_log_likelihood:compute_clipped_negative_log_likelihood",
                          _Q + "distributions.jensen_shannon_divergence:compute_jensen_shannon_divergence"]),
    "C18": (80, 800, [_Q + "decompositions._orquestra_decompositions:decompose_orquestra_circuit", _Q + "decompositions._orquestra_decompositions:U3GateToRotation.production", _Q + "decompositions._decomposition:decompose_operations"]),
    "C19": (800, 8000, [_Q + "circuits.symbolic.sympy_expressions:expression_from_sympy", _Q + "circuits.symbolic.translations:translate_expression"]),
}


def doc(prop):
    return " ".join((globals()["check_" + prop].__doc__ or "").split())
