"""Engine M, circuit layer: the real text of _unitary_tools.py, _gates.py, _builtin_gates.py, _circuit.py (and on
request evolution.py / the decomposition modules) re-executed over the exact trig-polynomial domain, so that
`Circuit.to_unitary()`, `GateOperation.lifted_matrix`, `Circuit.inverse/controlled/__add__` ... are the real code
acting on exact symbolic matrices.  Nothing is hand-copied; imports are replaced by the shadow namespaces."""
from __future__ import annotations

import types

from . import gates_m, src, trig

UT = "orquestra.quantum.circuits._unitary_tools"
CIRC = "orquestra.quantum.circuits._circuit"
EVOL = "orquestra.quantum.evolution"
DEC = "orquestra.quantum.decompositions._decomposition"
ODEC = "orquestra.quantum.decompositions._orquestra_decompositions"


def _mod(ns):
    return types.SimpleNamespace(**{k: v for k, v in ns.__ns__.items() if not k.startswith("__")})


class Layer:
    def __init__(self):
        self.ut = src.shadow_load(UT, {"sympy": trig.SYMPY, "np": trig.NUMPY})
        self.mat, self.gates, self.builtin = gates_m.load({
            "_lift_matrix_numpy": self.ut._lift_matrix_numpy, "_lift_matrix_sympy": self.ut._lift_matrix_sympy})
        self.table = gates_m.gate_table(self.builtin, self.gates)
        gmod = _mod(self.gates)
        self.circ = src.shadow_load(CIRC, {"sympy": trig.SYMPY, "np": trig.NUMPY, "_gates": gmod})
        self.Circuit = self.circ.Circuit

    def shadows(self):
        """real module name -> shadow namespace, for the automatic rebinding of imported repository names (src.shadow_load)"""
        return {"orquestra.quantum.circuits._gates": self.gates, "orquestra.quantum.circuits._builtin_gates": self.builtin,
                "orquestra.quantum.circuits._circuit": self.circ, "orquestra.quantum.circuits._unitary_tools": self.ut,
                "orquestra.quantum.circuits._matrices": self.mat}

    def gate(self, name, *params):
        obj, k, pn = self.table[name]
        return obj if k == 0 else obj(*params)

    def evolution(self):
        b = self.builtin
        return src.shadow_load(EVOL, {"np": trig.NUMPY, "sympy": trig.SYMPY, "CNOT": b.CNOT, "RX": b.RX, "RZ": b.RZ, "H": b.H,
                                      "Circuit": self.Circuit, "GateOperation": self.gates.GateOperation}, rebind=self.shadows())

    def decompositions(self):
        dec = src.shadow_load(DEC, {})
        b = self.builtin
        odec = src.shadow_load(ODEC, {"RY": b.RY, "RZ": b.RZ, "Circuit": self.Circuit, "ControlledGate": self.gates.ControlledGate,
                                      "GateOperation": self.gates.GateOperation, "DecompositionRule": dec.DecompositionRule,
                                      "decompose_operations": dec.decompose_operations}, rebind=dict(self.shadows(), **{DEC: dec}))
        return dec, odec


def pauli(layer, ch: str) -> trig.SMat:
    """the textbook Pauli matrices (specification side; independent of _matrices.py)"""
    i = trig.Poly.const(1j)
    return {"I": trig.eye(2), "X": trig.SMat([[0, 1], [1, 0]]), "Y": trig.SMat([[0, -i], [i, 0]]),
            "Z": trig.SMat([[1, 0], [0, -1]])}[ch]


def embed_spec(M: trig.SMat, qubits, n: int) -> trig.SMat:
    """the element-wise definition of 'M on qubits `qubits` of an n-qubit register, identity elsewhere'
    (qubit 0 = most significant bit): Embed[r,c] = M[sub(r), sub(c)] if r and c agree outside `qubits` else 0."""
    k = len(qubits)
    N = 2 ** n
    out = trig.zeros(N, N)
    bit = lambda i, q: (i >> (n - 1 - q)) & 1
    others = [q for q in range(n) if q not in qubits]
    for r in range(N):
        for c in range(N):
            if any(bit(r, q) != bit(c, q) for q in others):
                continue
            sr = sum(bit(r, q) << (k - 1 - t) for t, q in enumerate(qubits))
            sc = sum(bit(c, q) << (k - 1 - t) for t, q in enumerate(qubits))
            out[r, c] = M[sr, sc]
    return out
