"""Engine V, part 2: the little type language of contracts and how symbolic values are made from it.

  Int | Real | Bool | Str | Obj:<cls> | Seq[T] | List[T] | Tup[T] (homogeneous tuple, symbolic length)
  | Tuple[T1,T2,...] (fixed arity) | Any (concrete Python value passed through)
"""
from __future__ import annotations

import re
import z3

from . import sym
from .sym import Obj, SInt, SReal, SBool, SStr, SObj, SSeq, cur


def parse(t):
    if not isinstance(t, str):
        return t
    t = t.strip()
    m = re.match(r"^(\w+)\[(.*)\]$", t)
    if m:
        head, inner = m.group(1), m.group(2)
        parts, depth, curp = [], 0, ""
        for ch in inner:
            if ch == "[":
                depth += 1
            if ch == "]":
                depth -= 1
            if ch == "," and depth == 0:
                parts.append(curp)
                curp = ""
            else:
                curp += ch
        parts.append(curp)
        if head in ("Seq", "List"):
            return ("seq", parse(parts[0]), "list")
        if head == "Tup":
            return ("seq", parse(parts[0]), "tuple")
        if head == "Tuple":
            return ("tuple", [parse(p) for p in parts])
        if head in ("Dict", "NewDict"):      # Dict[KeyClass,ValueType]; NewDict = a dictionary built by the code (iteration order not tracked)
            return ("dict", parts[0].strip(), parse(parts[1]), head == "Dict")
        raise ValueError(t)
    if t.startswith("Obj:"):
        return ("obj", t[4:])
    if t in ("Int", "Real", "Bool", "Str", "Any"):
        return (t.lower(),)
    raise ValueError(f"bad type {t!r}")


def sort_of(ty):
    k = ty[0]
    if k == "int":
        return z3.IntSort()
    if k == "real":
        return z3.RealSort()
    if k == "bool":
        return z3.BoolSort()
    if k == "str":
        return z3.StringSort()
    return Obj


def _tag(ty):
    k = ty[0]
    if k == "seq":
        return "S" + _tag(ty[1])
    if k == "tuple":
        return "T" + "".join(_tag(x) for x in ty[1])
    if k == "obj":
        return "O"
    return k[0].upper()


def wrap(ty, e):
    """z3 term of sort_of(ty) -> symbolic Python value of type ty"""
    ty = parse(ty)
    k = ty[0]
    if k == "int":
        return sym.wrap_expr(e)
    if k == "real":
        return SReal(e)
    if k == "bool":
        return sym.wrap_expr(e)
    if k == "str":
        return SStr(e)
    if k == "obj":
        return SObj(ty[1], e)
    if k == "seq":
        tag = _tag(ty)
        fl = z3.Function(f"len_{tag}", Obj, z3.IntSort())
        fa = z3.Function(f"arr_{tag}", Obj, z3.ArraySort(z3.IntSort(), sort_of(ty[1])))
        n = fl(e)
        c = cur()
        if ("len", tag) not in c.axioms_done:
            c.axioms_done.add(("len", tag))
            o = z3.Const("o!ax", Obj)
            c.axioms.append(z3.ForAll([o], fl(o) >= 0, patterns=[fl(o)]))
        return SSeq(("arr", sym.wrap_expr(n), fa(e), ty[1]), ty[2])
    if k == "tuple":
        tag = _tag(ty)
        out = []
        for i, t in enumerate(ty[1]):
            f = z3.Function(f"proj_{tag}_{i}", Obj, sort_of(t))
            out.append(wrap(t, f(e)))
        return tuple(out)
    raise sym.Unsupported(f"wrap {ty}")


def mk(ty, name):
    """a fresh arbitrary value of type ty"""
    ty = parse(ty)
    c = cur()
    k = ty[0]
    if k in ("int", "real", "bool", "str", "obj"):
        return wrap(ty, c.fresh(name, sort_of(ty)))
    if k == "seq":
        n = c.fresh(name + ".len", z3.IntSort())
        c.assume(n >= 0)
        c.lengths.append(n)
        a = c.fresh(name + ".arr", z3.ArraySort(z3.IntSort(), sort_of(ty[1])))
        return SSeq(("arr", SInt(n), a, ty[1]), ty[2])
    if k == "tuple":
        return tuple(mk(t, f"{name}.{i}") for i, t in enumerate(ty[1]))
    if k == "dict":
        from . import vrt
        return vrt.mk_dict(ty[1], ty[2], name, with_keys=ty[3])
    raise sym.Unsupported(f"mk {ty}")


def type_of_value(v):
    """best-effort type of a current value (used by havoc when no type is declared)"""
    if isinstance(v, SBool) or isinstance(v, bool):
        return ("bool",)
    if isinstance(v, SInt) or isinstance(v, int):
        return ("int",)
    if isinstance(v, SReal) or isinstance(v, float):
        return ("real",)
    if isinstance(v, SStr):
        return ("str",)
    if isinstance(v, SObj):
        return ("obj", v.cls)
    if isinstance(v, SSeq) and v.node[0] == "arr":
        return ("seq", v.node[3], v.kind)
    return None
