"""Engine F: static frame / ownership / purity obligations over the real AST of /repo (re-read on every run).

For a function under a frame contract `modifies nothing reachable from its arguments (incl. self), no module state`
the analyser tracks, for every local value, where it may come from:
      F fresh (allocated in this activation)   ('P', p) reachable from parameter p   G module-level state
      I immutable scalar / string               U unknown
as a pair (top, inner): `top` = what the object itself may be, `inner` = what is reachable through its
attributes / elements.  Every mutating statement - attribute / item assignment, augmented assignment, del, a call
of a known mutating method (append, extend, pop, sort, update, ...), a call of a repository function whose own
summary mutates that argument - generates the obligation "the target is fresh"; it is
      discharged  if the target's `top` is {F} (or immutable),
      refuted     if it contains ('P', p) or G  (a write through an argument / to module state),
      undecided   if it contains U only.
Callees inside the repository are summarised recursively (which parameters they mutate, what their result may
alias); library calls (numpy, scipy, sympy, json, itertools, functools, operator, math, copy, collections, re)
use the assumed effect summaries below (they do not modify their arguments; what their result may alias is stated).
"""
from __future__ import annotations

import ast
import os
from dataclasses import dataclass, field
from typing import Dict, FrozenSet, List, Optional, Set, Tuple

from . import core, src

MUTATORS = {"append", "extend", "insert", "pop", "remove", "sort", "reverse", "clear", "update", "add", "discard",
            "setdefault", "popitem", "__setitem__", "__delitem__", "appendleft", "popleft", "fill", "resize", "put",
            "itemset", "setflags", "subtract", "__iadd__", "intersection_update", "difference_update",
            "symmetric_difference_update", "move_to_end"}
# methods of builtin / library containers that never mutate the receiver
PURE_METHODS = {"get", "items", "keys", "values", "copy", "index", "count", "join", "split", "format", "startswith", "endswith",
                "union", "intersection", "difference", "symmetric_difference", "issubset", "issuperset", "isdisjoint", "strip",
                "replace", "lower", "upper", "zfill", "encode", "decode", "tolist", "toarray", "todense", "tocoo", "tocsc", "tocsr",
                "nonzero", "conj", "conjugate", "transpose", "adjoint", "reshape", "ravel", "flatten", "astype", "sum", "mean",
                "dot", "real", "imag", "subs", "evalf", "expand", "simplify", "free_symbols", "atoms", "is_integer", "bit_length",
                "most_common", "elements", "total", "isdigit", "find", "rstrip", "lstrip", "partition", "title", "as_real_imag",
                "exp", "inv", "diagonal", "trace", "all", "any", "max", "min", "argmax", "argsort", "cumsum", "round", "item",
                "read", "readline", "readlines", "writable", "readable", "is_constant", "xreplace", "row", "col", "applyfunc"}
VIEW_METHODS = {"reshape", "ravel", "transpose", "view", "squeeze", "swapaxes", "real", "imag", "T", "values", "items", "keys"}
FRESH_BUILTINS = {"list", "dict", "set", "sorted", "bytearray", "frozenset", "tuple", "reversed", "zip", "map", "filter", "enumerate",
                  "iter", "Counter", "defaultdict", "OrderedDict", "deque"}
SCALAR_BUILTINS = {"len", "int", "float", "complex", "str", "bool", "abs", "sum", "max", "min", "any", "all", "round", "range", "repr",
                   "isinstance", "issubclass", "hash", "id", "type", "ord", "chr", "bin", "format", "divmod", "pow", "callable",
                   "hasattr", "print", "open", "next", "super", "NotImplementedError", "ValueError", "TypeError", "RuntimeError",
                   "KeyError", "IndexError", "AttributeError", "AssertionError", "object", "property", "staticmethod"}
LIB_ROOTS = {"np", "numpy", "scipy", "sympy", "json", "math", "itertools", "functools", "operator", "copy", "collections", "re",
             "warnings", "os", "rapidjson", "cmath", "random", "string", "sys", "abc", "typing", "numbers", "csc_matrix", "coo_matrix"}
ALIASING_LIB = {"asarray", "asanyarray", "reshape", "ravel", "atleast_1d", "atleast_2d", "squeeze", "transpose", "real", "imag",
                "chain", "islice", "groupby", "product", "cycle", "zip_longest", "from_iterable", "reduce", "ascontiguousarray"}

Tag = object
F, G, I, U = "F", "G", "I", "U"


class Val:
    """provenance of a value at three depths: the object itself (top), its direct contents - elements / attributes - (inner),
    and everything reachable below that (deep).  Parameter tags carry the depth at which the parameter is met:
    ('P', p, 0) the argument object itself, ('P', p, 1) its direct contents, ('P', p, 2) anything deeper."""
    __slots__ = ("top", "inner", "deep", "cls")

    def __init__(self, top=frozenset({F}), inner=frozenset({F}), cls=None, deep=None):
        self.top = frozenset(top)
        self.inner = frozenset(inner)
        self.deep = frozenset(deep if deep is not None else inner)
        self.cls = cls

    def reach(self):
        return self.top | self.inner | self.deep

    def __or__(self, o):
        return Val(self.top | o.top, self.inner | o.inner, self.cls if self.cls == o.cls else None, self.deep | o.deep)

    def elem(self):
        return Val(self.inner, self.deep, None, self.deep)

    def __repr__(self):
        return f"Val({sorted(map(str, self.top))}, {sorted(map(str, self.inner))}, {sorted(map(str, self.deep))})"


FRESH = Val()
IMM = Val(frozenset({I}), frozenset({I}))
UNK = Val(frozenset({U}), frozenset({U}))
GLOB = Val(frozenset({G}), frozenset({G}))


def P(name):
    return Val(frozenset({("P", name, 0)}), frozenset({("P", name, 1)}), None, frozenset({("P", name, 2)}))


def _noimm(ts):
    return frozenset(t for t in ts if t != I)


def box(vals, top=F):
    """a fresh container (list / dict / object) directly holding the given values"""
    inner, deep = set(), set()
    for v in vals:
        inner |= _noimm(v.top)
        deep |= _noimm(v.inner | v.deep)
    return Val(frozenset({top}), frozenset(inner) or frozenset({F}), None, frozenset(deep) or frozenset({F}))


def fresh_with(reach):
    """a fresh object that may hold / reach the given tags (conservative: at both content depths)"""
    reach = _noimm(reach)
    return Val(frozenset({F}), reach or frozenset({F}), None, reach or frozenset({F}))


@dataclass
class Finding:
    kind: str      # 'param-write' | 'global-write' | 'unknown-write'
    where: str     # file:line
    what: str      # source text of the statement
    target: str    # which parameter / global


@dataclass
class Summary:
    mutates: Dict[str, List[Finding]] = field(default_factory=dict)     # param name -> findings
    global_writes: List[Finding] = field(default_factory=list)
    unknown: List[Finding] = field(default_factory=list)
    returns: Val = FRESH
    params: List[str] = field(default_factory=list)
    caches: List[str] = field(default_factory=list)


class Repo:
    """index of all functions / classes of the package under check"""

    def __init__(self, package="orquestra.quantum"):
        self.package = package
        self.mods: Dict[str, ast.Module] = {}
        self.funcs: Dict[str, ast.FunctionDef] = {}           # "mod:qual" -> def
        self.classes: Dict[str, Dict[str, str]] = {}          # class name -> {method: key}
        self.class_mod: Dict[str, str] = {}
        self.class_bases: Dict[str, List[str]] = {}
        self.frozen: Set[str] = set()
        self.mod_globals: Dict[str, Dict[str, str]] = {}      # mod -> name -> 'mutable'|'immutable'|'func'|'class'|'import:<key>'
        self.by_name: Dict[str, List[str]] = {}               # bare function / method name -> keys
        root = os.path.join(core.SRC, *package.split("."))
        for dp, dn, fn in os.walk(root):
            if "/testing" in dp:
                continue
            for f in fn:
                if f.endswith(".py"):
                    rel = os.path.relpath(os.path.join(dp, f), core.SRC)[:-3].replace(os.sep, ".")
                    if rel.endswith(".__init__"):
                        rel = rel[:-9]
                    try:
                        self.mods[rel] = ast.parse(open(os.path.join(dp, f)).read())
                    except SyntaxError:
                        continue
        for mod, tree in self.mods.items():
            self._index(mod, tree)
        self._summ: Dict[str, Summary] = {}
        self._busy: Set[str] = set()
        self.scalar_attrs = self._scalar_attrs()

    def _scalar_attrs(self) -> Set[str]:
        """attribute names that hold immutable scalars in every class that defines them (from annotations)"""
        SCALAR = {"int", "float", "complex", "str", "bool", "Number", "Optional", "Union", "None", "Complex", "Real", "Parameter"}

        def is_scalar(ann):
            if ann is None:
                return False
            names = {n.id for n in ast.walk(ann) if isinstance(n, ast.Name)} | {n.attr for n in ast.walk(ann) if isinstance(n, ast.Attribute)}
            consts = {str(n.value) for n in ast.walk(ann) if isinstance(n, ast.Constant) and n.value is not None}
            return bool(names | consts) and (names | consts) <= SCALAR
        good, bad = set(), set()
        for mod, tree in self.mods.items():
            for node in ast.walk(tree):
                if not isinstance(node, ast.ClassDef):
                    continue
                for ch in node.body:
                    if isinstance(ch, ast.AnnAssign) and isinstance(ch.target, ast.Name):
                        (good if is_scalar(ch.annotation) else bad).add(ch.target.id)
                    if isinstance(ch, ast.FunctionDef) and ch.name == "__init__":
                        anns = {a.arg: a.annotation for a in ch.args.args + ch.args.kwonlyargs}
                        for st in ast.walk(ch):
                            if isinstance(st, ast.Assign) and len(st.targets) == 1 and isinstance(st.targets[0], ast.Attribute) \
                                    and isinstance(st.targets[0].value, ast.Name) and st.targets[0].value.id == "self":
                                attr = st.targets[0].attr
                                def sc(x):
                                    if isinstance(x, ast.Constant):
                                        return True
                                    if isinstance(x, ast.Name):
                                        return is_scalar(anns.get(x.id))
                                    if isinstance(x, ast.IfExp):
                                        return sc(x.body) and sc(x.orelse)
                                    if isinstance(x, ast.BinOp):
                                        return sc(x.left) and sc(x.right)
                                    if isinstance(x, ast.UnaryOp):
                                        return sc(x.operand)
                                    if isinstance(x, ast.Call) and isinstance(x.func, ast.Name) and x.func.id in ("int", "float", "complex", "str", "bool", "len"):
                                        return True
                                    return False
                                (good if sc(st.value) else bad).add(attr)
        return good - bad

    def _index(self, mod, tree):
        g = self.mod_globals.setdefault(mod, {})
        for node in tree.body:
            if isinstance(node, ast.FunctionDef):
                self.funcs[f"{mod}:{node.name}"] = node
                self.by_name.setdefault(node.name, []).append(f"{mod}:{node.name}")
                g[node.name] = "func"
            elif isinstance(node, ast.ClassDef):
                g[node.name] = "class"
                self.class_mod[node.name] = mod
                self.class_bases[node.name] = [ast.unparse(b).split(".")[-1].split("[")[0] for b in node.bases]
                meths = self.classes.setdefault(node.name, {})
                for d in node.decorator_list:
                    if "frozen=True" in ast.unparse(d):
                        self.frozen.add(node.name)
                for ch in node.body:
                    if isinstance(ch, ast.FunctionDef):
                        key = f"{mod}:{node.name}.{ch.name}"
                        self.funcs[key] = ch
                        meths[ch.name] = key
                        self.by_name.setdefault(ch.name, []).append(key)
            elif isinstance(node, (ast.Assign, ast.AnnAssign)):
                targets = node.targets if isinstance(node, ast.Assign) else [node.target]
                v = node.value
                mutable = isinstance(v, (ast.Dict, ast.List, ast.Set, ast.ListComp, ast.DictComp, ast.SetComp)) or \
                    (isinstance(v, ast.Call) and ast.unparse(v.func).split(".")[-1] in ("dict", "list", "set", "defaultdict", "OrderedDict", "Counter"))
                for t in targets:
                    if isinstance(t, ast.Name):
                        g[t.id] = "mutable" if mutable else "immutable"
            elif isinstance(node, ast.ImportFrom):
                base = mod.split(".")
                if node.level:
                    is_pkg = mod in self.mods and any(m.startswith(mod + ".") for m in self.mods)
                    up = node.level - (1 if is_pkg else 0)
                    base = base[:len(base) - up] if up else base
                    if not is_pkg or node.level >= 1:
                        base = mod.split(".")[:len(mod.split(".")) - node.level + (1 if is_pkg else 0)]
                    target = ".".join(base + ([node.module] if node.module else []))
                else:
                    target = node.module or ""
                for a in node.names:
                    g[a.asname or a.name] = f"import:{target}:{a.name}"
            elif isinstance(node, ast.Import):
                for a in node.names:
                    g[(a.asname or a.name).split(".")[0]] = "lib"

    # -------------------------------------------------------------------------------------------
    def resolve(self, mod, name, depth=0) -> Optional[str]:
        """global name in `mod` -> function key / 'class:<Name>' / None"""
        kind = self.mod_globals.get(mod, {}).get(name)
        if kind == "func":
            return f"{mod}:{name}"
        if kind == "class":
            return f"class:{name}"
        if kind and kind.startswith("import:") and depth < 6:
            _, tmod, tname = kind.split(":")
            if tmod in self.mods:
                r = self.resolve(tmod, tname, depth + 1)
                if r:
                    return r
                # package re-export: look into submodules
            for m in self.mods:
                if m.startswith(tmod + ".") or m == tmod:
                    k = self.mod_globals.get(m, {}).get(tname)
                    if k == "func":
                        return f"{m}:{tname}"
                    if k == "class":
                        return f"class:{tname}"
        return None

    def method(self, cls, name, seen=None) -> Optional[str]:
        seen = seen or set()
        if cls in seen or cls not in self.classes:
            return None
        seen.add(cls)
        if name in self.classes[cls]:
            return self.classes[cls][name]
        for b in self.class_bases.get(cls, []):
            r = self.method(b, name, seen)
            if r:
                return r
        return None

    def summary(self, key) -> Summary:
        if key in self._summ:
            return self._summ[key]
        if key in self._busy or key not in self.funcs:
            return Summary(returns=UNK)
        self._busy.add(key)
        try:
            s = _Analysis(self, key).run()
        finally:
            self._busy.discard(key)
        self._summ[key] = s
        return s


def _subst(v: Val, binding: Dict[str, Val]) -> Val:
    """replace ('P', name, depth) tags of a callee summary by the provenance of the actual argument at that depth"""
    def level(tags):
        out = set()
        for t in tags:
            if isinstance(t, tuple):
                a = binding.get(t[1], UNK)
                out |= (a.top, a.inner, a.deep)[min(t[2], 2)]
                if t[2] >= 2:
                    out |= a.deep
            else:
                out.add(t)
        return out
    top, inner, deep = level(v.top), level(v.inner), level(v.deep)
    deep |= set()
    return Val(frozenset(top), frozenset(_noimm(inner)) or frozenset({F}), v.cls, frozenset(_noimm(deep)) or frozenset({F}))


class _Analysis:
    def __init__(self, repo: Repo, key: str):
        self.repo, self.key = repo, key
        self.mod, self.qual = key.split(":")
        self.fn = repo.funcs[key]
        self.cls = self.qual.split(".")[0] if "." in self.qual else None
        self.env: Dict[str, Val] = {}
        self.s = Summary()
        self.file = os.path.relpath(src.path_of(self.mod), core.REPO)
        self.locals: Set[str] = set()
        self.globals_declared: Set[str] = set()

    def where(self, node):
        return f"{self.file}:{getattr(node, 'lineno', '?')}"

    def _exact_key_params(self) -> bool:
        """every parameter is annotated with an immutable type whose equality is exact (int, str, bool, bytes, tuples / frozensets / Optional of those):
        memoising such a function is transparent - equal keys mean identical arguments"""
        a = self.fn.args
        params = a.posonlyargs + a.args + a.kwonlyargs
        if a.vararg or a.kwarg or not params:
            return False
        ok = {"int", "str", "bool", "bytes", "Tuple", "tuple", "FrozenSet", "frozenset", "Optional", "None", "Ellipsis"}
        for x in params:
            if x.annotation is None:
                return False
            names = {n.id for n in ast.walk(x.annotation) if isinstance(n, ast.Name)} | {n.attr for n in ast.walk(x.annotation) if isinstance(n, ast.Attribute)}
            consts = {str(n.value) for n in ast.walk(x.annotation) if isinstance(n, ast.Constant) and isinstance(n.value, str)}
            if consts or not names or not names <= ok:
                return False
        return True

    def run(self) -> Summary:
        a = self.fn.args
        names = [x.arg for x in a.posonlyargs + a.args + a.kwonlyargs]
        if a.vararg:
            names.append(a.vararg.arg)
        if a.kwarg:
            names.append(a.kwarg.arg)
        self.s.params = names
        is_static = any(ast.unparse(d) == "staticmethod" for d in self.fn.decorator_list)
        for d in self.fn.decorator_list:
            if "lru_cache" in ast.unparse(d) or ast.unparse(d).split("(")[0].split(".")[-1] in ("cache", "cached_property"):
                self.s.caches.append(ast.unparse(d) + (" [exact-keys]" if self._exact_key_params() else ""))
        for i, n in enumerate(names):
            v = P(n)
            if i == 0 and self.cls and not is_static and n in ("self", "cls"):
                v = Val(v.top, v.inner, self.cls, v.deep)
            else:
                ann = None
                for x in a.posonlyargs + a.args + a.kwonlyargs:
                    if x.arg == n and x.annotation is not None:
                        ann = ast.unparse(x.annotation).strip('"').split(".")[-1]
                if ann in self.repo.classes:
                    v = Val(v.top, v.inner, ann, v.deep)
            self.env[n] = v
        for node in ast.walk(self.fn):
            if isinstance(node, ast.Global):
                self.globals_declared |= set(node.names)
            if isinstance(node, (ast.Name,)) and isinstance(node.ctx, ast.Store):
                self.locals.add(node.id)
        self.locals |= set(names)
        self.ret = None
        self.block(self.fn.body)
        self.s.returns = self.ret if self.ret is not None else IMM
        return self.s

    # ---- statements
    def block(self, stmts):
        for st in stmts:
            self.stmt(st)

    def stmt(self, st):
        if isinstance(st, (ast.Assign, ast.AnnAssign)):
            if st.value is None:
                return
            v = self.expr(st.value)
            for t in (st.targets if isinstance(st, ast.Assign) else [st.target]):
                self.assign(t, v, st)
        elif isinstance(st, ast.AugAssign):
            v = self.expr(st.value)
            t = st.target
            if isinstance(t, ast.Name):
                cur = self.name(t.id, t)
                # x += y mutates x in place when x is a list / set / dict / array
                if not (cur.top <= {I, F}) and t.id in getattr(self, "arrayish", set()):
                    # the name is bound to a numpy array that shares memory with something reachable from outside: a definite in-place write
                    self.mutation(cur, st, f"in-place augmented assignment to the array {t.id}")
                elif not (cur.top <= {I, F}):
                    # in place for lists / sets / dicts / arrays, a rebinding for numbers and strings: the static type is
                    # not known here, so this is a *possible* write (undecided -> bounded snapshot oracle), not a definite one
                    self.s.unknown.append(Finding("unknown-write", self.where(st), f"augmented assignment to {t.id} (in place if it is a container/array): {ast.unparse(st)[:120]}", "?"))
                self.env[t.id] = cur | fresh_with(v.reach()) if cur.top <= {I} else cur
            else:
                self.assign(t, v, st)
        elif isinstance(st, ast.Delete):
            for t in st.targets:
                if isinstance(t, (ast.Subscript, ast.Attribute)):
                    self.mutation(self.expr(t.value), st, "del", path=self._path(t.value))
        elif isinstance(st, ast.Expr):
            self.expr(st.value)
        elif isinstance(st, ast.Return):
            if st.value is not None:
                v = self.expr(st.value)
                self.ret = v if self.ret is None else (self.ret | v)
        elif isinstance(st, ast.If):
            self.expr(st.test)
            before = dict(self.env)
            self.block(st.body)
            e1 = self.env
            self.env = dict(before)
            self.block(st.orelse)
            self.merge(e1)
        elif isinstance(st, (ast.For, ast.AsyncFor)):
            it = self.expr(st.iter)
            for _ in range(2):
                self.assign(st.target, it.elem(), st)
                before = dict(self.env)
                self.block(st.body)
                self.merge(before)
            self.block(st.orelse)
        elif isinstance(st, ast.While):
            for _ in range(2):
                self.expr(st.test)
                before = dict(self.env)
                self.block(st.body)
                self.merge(before)
            self.block(st.orelse)
        elif isinstance(st, ast.With):
            for it in st.items:
                v = self.expr(it.context_expr)
                if it.optional_vars is not None:
                    self.assign(it.optional_vars, Val(v.top | {F}, v.inner, None, v.deep), st)
            self.block(st.body)
        elif isinstance(st, ast.Try):
            self.block(st.body)
            for h in st.handlers:
                if h.name:
                    self.env[h.name] = FRESH
                self.block(h.body)
            self.block(st.orelse)
            self.block(st.finalbody)
        elif isinstance(st, (ast.Raise, ast.Assert)):
            for ch in ast.iter_child_nodes(st):
                if isinstance(ch, ast.expr):
                    self.expr(ch)
        elif isinstance(st, ast.FunctionDef):
            self.env[st.name] = FRESH
            # the body of a nested function runs with the enclosing environment: writes through captured parameters or to
            # module state are effects of the enclosing function (conservative: as if the nested function were called)
            saved_ret, saved_env = self.ret, dict(self.env)
            a = st.args
            for x in a.posonlyargs + a.args + a.kwonlyargs + ([a.vararg] if a.vararg else []) + ([a.kwarg] if a.kwarg else []):
                self.env[x.arg] = UNK
            for d in st.decorator_list:
                if "lru_cache" in ast.unparse(d) or ast.unparse(d).split("(")[0].split(".")[-1] in ("cache", "cached_property"):
                    self.s.caches.append(f"{st.name}: {ast.unparse(d)}")
            self.block(st.body)
            self.ret, self.env = saved_ret, saved_env
            self.env[st.name] = FRESH
        elif isinstance(st, ast.ClassDef):
            self.env[st.name] = FRESH
        # pass / import / global / nonlocal: nothing

    def merge(self, other):
        for k in set(self.env) | set(other):
            if k in self.env and k in other:
                self.env[k] = self.env[k] | other[k]
            elif k in other:
                self.env[k] = other[k]

    def _arrayish(self, e) -> bool:
        """the expression is known to denote a numpy array that may SHARE memory with one of its operands (np.asarray(x), x.reshape(..), x.T, another such name):
        an augmented assignment to a name bound to it works in place"""
        if isinstance(e, ast.Name):
            return e.id in getattr(self, "arrayish", set())
        if isinstance(e, ast.IfExp):
            return self._arrayish(e.body) or self._arrayish(e.orelse)
        if isinstance(e, ast.Attribute):
            return e.attr in ("T", "real", "imag") and self._arrayish(e.value)
        if isinstance(e, ast.Call) and isinstance(e.func, ast.Name):
            fn = self.repo.funcs.get(f"{self.mod}:{e.func.id}")
            ann = ast.unparse(fn.returns) if fn is not None and fn.returns is not None else ""
            return any(w in ann for w in ("ndarray", "List", "list", "Dict", "dict", "Set", "set[", "Counter", "Matrix"))
        if isinstance(e, ast.Call) and isinstance(e.func, ast.Attribute):
            root = e.func.value
            while isinstance(root, ast.Attribute):
                root = root.value
            if isinstance(root, ast.Name) and root.id in ("np", "numpy") and root.id not in self.env:
                return e.func.attr in ("asarray", "asanyarray", "ascontiguousarray", "reshape", "ravel", "atleast_1d", "atleast_2d", "squeeze", "transpose")
            return e.func.attr in ("reshape", "ravel", "view", "squeeze", "transpose", "swapaxes") and (self._arrayish(e.func.value) or True)
        return False

    def assign(self, t, v: Val, st):
        if isinstance(t, ast.Name):
            if t.id in self.globals_declared:
                self.s.global_writes.append(Finding("global-write", self.where(st), ast.unparse(st)[:160], t.id))
            self.env[t.id] = v
            val_expr = getattr(st, "value", None)
            if val_expr is not None and isinstance(st, (ast.Assign, ast.AnnAssign)) and self._arrayish(val_expr):
                if not hasattr(self, "arrayish"):
                    self.arrayish = set()
                self.arrayish.add(t.id)
        elif isinstance(t, (ast.Tuple, ast.List)):
            ev = v.elem()
            for e in t.elts:
                self.assign(e.value if isinstance(e, ast.Starred) else e, ev if not isinstance(e, ast.Starred) else Val(frozenset({F}), v.inner, None, v.deep), st)
        elif isinstance(t, ast.Attribute):
            self.mutation(self.expr(t.value), st, f"attribute assignment .{t.attr}", attr=t.attr, path=self._path(t.value))
            self.absorb(t.value, v)
        elif isinstance(t, ast.Subscript):
            self.expr(t.slice)
            self.mutation(self.expr(t.value), st, "item assignment", path=self._path(t.value))
            self.absorb(t.value, v)

    def absorb(self, container_expr, stored: Val):
        """a value was stored into a local container / object: whatever it reaches is now reachable through the container"""
        root = container_expr
        while isinstance(root, (ast.Subscript, ast.Attribute)):
            root = root.value
        if isinstance(root, ast.Name) and root.id in self.env:
            cur_ = self.env[root.id]
            direct = container_expr is root
            inner = cur_.inner | (_noimm(stored.top) if direct else frozenset())
            deep = cur_.deep | _noimm(stored.inner | stored.deep) | (frozenset() if direct else _noimm(stored.top))
            self.env[root.id] = Val(cur_.top, inner, cur_.cls, deep)

    @staticmethod
    def _path(e) -> Optional[str]:
        """access path of an expression rooted at a name, without subscripts: self.raw_data[k].x -> self.raw_data.x"""
        parts = []
        while True:
            if isinstance(e, ast.Attribute):
                parts.append(e.attr)
                e = e.value
            elif isinstance(e, ast.Subscript):
                e = e.value
            elif isinstance(e, ast.Name):
                parts.append(e.id)
                return ".".join(reversed(parts))
            else:
                return None

    def mutation(self, target: Val, node, why, attr=None, path=None, suffix=""):
        text = ast.unparse(node)[:160]
        done = False
        for tag in target.top:
            if isinstance(tag, tuple):
                tgt = tag[1] + (f".{attr}" if attr and tag[2] == 0 else "")
                if path and path.split(".")[0] == tag[1]:
                    tgt = path + (f".{attr}" if attr else "") + suffix
                self.s.mutates.setdefault(tag[1], []).append(Finding("param-write", self.where(node), f"{why}: {text}", tgt))
                done = True
            elif tag == G:
                self.s.global_writes.append(Finding("global-write", self.where(node), f"{why}: {text}", "module state"))
                done = True
            elif tag == U:
                self.s.unknown.append(Finding("unknown-write", self.where(node), f"{why}: {text}", "?"))
        return done

    # ---- expressions
    def name(self, id, node) -> Val:
        if id in self.env:
            return self.env[id]
        if id in self.locals:
            return FRESH
        kind = self.repo.mod_globals.get(self.mod, {}).get(id)
        if kind == "mutable":
            return GLOB
        if kind in ("immutable", "func", "class", "lib") or (kind or "").startswith("import:"):
            return IMM
        return IMM  # builtins

    def expr(self, e) -> Val:
        if e is None:
            return IMM
        m = getattr(self, "e_" + type(e).__name__, None)
        if m:
            return m(e)
        for ch in ast.iter_child_nodes(e):
            if isinstance(ch, ast.expr):
                self.expr(ch)
        return UNK

    def e_Constant(self, e): return IMM
    def e_JoinedStr(self, e):
        for v in e.values:
            self.expr(v)
        return IMM
    def e_FormattedValue(self, e):
        self.expr(e.value)
        return IMM
    def e_Name(self, e): return self.name(e.id, e)

    def e_Attribute(self, e):
        v = self.expr(e.value)
        if isinstance(e.value, ast.Name) and e.value.id in LIB_ROOTS and e.value.id not in self.env:
            return IMM
        if e.attr in self.repo.scalar_attrs:
            return IMM
        return v.elem()

    def e_Subscript(self, e):
        v = self.expr(e.value)
        self.expr(e.slice)
        if isinstance(e.slice, ast.Slice):
            # slicing a list copies the container (elements shared); numpy slices are views: keep both
            return Val(v.top | {F}, v.inner, None, v.deep)
        return v.elem()

    def e_Slice(self, e):
        for x in (e.lower, e.upper, e.step):
            self.expr(x)
        return IMM

    def e_Starred(self, e): return self.expr(e.value)

    def _coll(self, elts):
        vals = []
        for x in elts:
            if x is None:
                continue
            v = self.expr(x)
            vals.append(v.elem() if isinstance(x, ast.Starred) else v)
        return box(vals)

    def e_List(self, e): return self._coll(e.elts)
    def e_Set(self, e): return self._coll(e.elts)
    def e_Dict(self, e):
        for k in e.keys:
            self.expr(k)
        return self._coll(list(e.values))       # keys: hashable, treated as immutable

    def e_Tuple(self, e):
        v = self._coll(e.elts)
        return Val(frozenset({I}), v.inner, None, v.deep)

    def _comp(self, e, elts):
        saved = dict(self.env)
        for g in e.generators:
            it = self.expr(g.iter)
            self.assign(g.target, it.elem(), e)
            for c in g.ifs:
                self.expr(c)
        v = self._coll(elts)
        self.env = saved
        return v

    def e_ListComp(self, e): return self._comp(e, [e.elt])
    def e_SetComp(self, e): return self._comp(e, [e.elt])
    def e_GeneratorExp(self, e): return self._comp(e, [e.elt])
    def e_DictComp(self, e): return self._comp(e, [e.value])

    def e_BinOp(self, e):
        a, b = self.expr(e.left), self.expr(e.right)
        return Val(frozenset({F}), _noimm(a.inner | b.inner) or frozenset({F}), None, _noimm(a.deep | b.deep) or frozenset({F}))

    def e_UnaryOp(self, e):
        self.expr(e.operand)
        return FRESH

    def e_BoolOp(self, e):
        v = None
        for x in e.values:
            w = self.expr(x)
            v = w if v is None else v | w
        return v

    def e_Compare(self, e):
        self.expr(e.left)
        for c in e.comparators:
            self.expr(c)
        return IMM

    def e_IfExp(self, e):
        self.expr(e.test)
        return self.expr(e.body) | self.expr(e.orelse)

    def e_Lambda(self, e): return FRESH
    def e_NamedExpr(self, e):
        v = self.expr(e.value)
        self.assign(e.target, v, e)
        return v
    def e_Await(self, e): return self.expr(e.value)
    def e_Yield(self, e):
        if e.value is not None:
            v = self.expr(e.value)
            self.ret = v if self.ret is None else self.ret | v
        return IMM
    def e_YieldFrom(self, e): return self.expr(e.value)

    def e_Call(self, e):
        args = [self.expr(a) for a in e.args]
        kws = {k.arg: self.expr(k.value) for k in e.keywords}
        allv = args + list(kws.values())
        reach = set()
        for v in allv:
            reach |= v.top | v.inner
        f = e.func
        # ---- method call
        if isinstance(f, ast.Attribute):
            root = f.value
            while isinstance(root, ast.Attribute):
                root = root.value
            if isinstance(root, ast.Name) and root.id in LIB_ROOTS and root.id not in self.env:
                if f.attr in ALIASING_LIB:
                    top = set()
                    for v in allv:
                        top |= v.top
                    return Val(frozenset(top | {F}), frozenset(_noimm(reach) | {F}))
                if f.attr in ("deepcopy",):
                    return FRESH
                if f.attr in ("copy",):
                    return Val(frozenset({F}), allv[0].inner, None, allv[0].deep) if allv else FRESH
                if f.attr in ("dump", "dumps", "write"):
                    return IMM
                return fresh_with(reach - {I} if f.attr in ("array", "kron", "concatenate", "stack", "vstack", "hstack") and False else set())
            if isinstance(f.value, ast.Call) and isinstance(f.value.func, ast.Name) and f.value.func.id == "super":
                key = None
                for b in self.repo.class_bases.get(self.cls or "", []):
                    key = key or self.repo.method(b, f.attr)
                if key:
                    return self.apply(key, [self.env.get("self", UNK)] + args, kws, e, arg_exprs=[ast.Name(id="self", ctx=ast.Load())] + list(e.args))
                return IMM
            recv = self.expr(f.value)
            if f.attr == "__setattr__" and isinstance(f.value, ast.Name) and f.value.id == "object" and args:
                self.mutation(args[0], e, "object.__setattr__")
                return IMM
            if f.attr in MUTATORS:
                if not (recv.top <= {I}):
                    self.mutation(recv, e, f"call of mutating method .{f.attr}()", path=self._path(f.value))
                # dictionary keys are hashable and are treated as immutable (nothing is written through a key): only the stored value
                # becomes reachable through the container
                for a_ in (allv[1:] if f.attr == "setdefault" and len(allv) > 1 else allv):
                    self.absorb(f.value, a_)
                if f.attr == "setdefault" and len(allv) > 1:
                    return recv.elem() | allv[-1]
                return recv.elem()
            # repository method?
            keys = []
            if recv.cls:
                k = self.repo.method(recv.cls, f.attr)
                if k:
                    keys = [k]
            if not keys and f.attr not in PURE_METHODS:
                keys = [k for k in self.repo.by_name.get(f.attr, []) if "." in k.split(":")[1]]
            if keys:
                outs = [self.apply(k, [recv] + args, kws, e, may=len(keys) > 1, arg_exprs=[f.value] + list(e.args)) for k in keys]
                v = outs[0]
                for o in outs[1:]:
                    v = v | o
                return v
            if f.attr in ("copy",):
                return Val(frozenset({F}), recv.inner, None, recv.deep)
            if f.attr in VIEW_METHODS:
                return Val(recv.top | {F}, recv.inner, None, recv.deep)
            if f.attr in ("get", "pop", "setdefault", "__getitem__", "most_common", "elements"):
                return recv.elem() | (allv[-1] if allv else IMM)
            return Val(frozenset({F}), _noimm(recv.inner | reach) or frozenset({F}), None, _noimm(recv.deep | reach) or frozenset({F}))
        # ---- plain call
        if isinstance(f, ast.Name):
            n = f.id
            if n in self.env:
                return fresh_with(reach) | Val(frozenset({F}), frozenset({F}))
            if n in ("deepcopy",):
                return FRESH
            if n in FRESH_BUILTINS:
                top = {I} if n in ("tuple", "frozenset") else {F}
                inner, deep = set(), set()
                for v in allv:
                    inner |= v.inner
                    deep |= v.deep
                if n in ("zip", "enumerate", "map", "filter"):
                    deep |= inner   # elements are fresh tuples holding the original elements
                    return Val(frozenset(top), frozenset({F}), None, frozenset(_noimm(deep)) or frozenset({F}))
                return Val(frozenset(top), frozenset(_noimm(inner)) or frozenset({F}), None, frozenset(_noimm(deep)) or frozenset({F}))
            if n in ("reduce", "chain", "islice", "product", "groupby", "getattr", "cast", "replace"):
                top = set()
                for v in allv:
                    top |= v.top
                return Val(frozenset(top | {F}), frozenset(reach | {F}))
            if n == "setattr" and args:
                self.mutation(args[0], e, "setattr")
                return IMM
            r = self.repo.resolve(self.mod, n)
            if r and r.startswith("class:"):
                return self.construct(r[6:], args, kws, e)
            if r:
                return self.apply(r, args, kws, e, arg_exprs=list(e.args))
            if n in SCALAR_BUILTINS:
                return IMM
            if n and n[0].isupper():
                return fresh_with(reach)     # external class constructor
            return fresh_with(reach)
        # call of a call / subscript ...
        self.expr(f)
        return fresh_with(reach)

    def apply(self, key, args: List[Val], kws: Dict[str, Val], node, may=False, arg_exprs=None) -> Val:
        s = self.repo.summary(key)
        fn = self.repo.funcs.get(key)
        binding: Dict[str, Val] = {}
        paths: Dict[str, Optional[str]] = {}
        for i, (p, a) in enumerate(zip(s.params, args)):
            binding[p] = a
            if arg_exprs is not None and i < len(arg_exprs) and not isinstance(arg_exprs[i], ast.Starred):
                paths[p] = self._path(arg_exprs[i])
        for k, v in kws.items():
            binding[k] = v
        if isinstance(node, ast.Call):
            for k in node.keywords:
                if k.arg:
                    paths[k.arg] = self._path(k.value)
        for p, finds in s.mutates.items():
            a = binding.get(p)
            if a is None:
                continue
            if may and not any(isinstance(t, tuple) or t == G for t in a.top):
                continue
            if may:
                # name-based dispatch over several classes: a possible, not definite, write
                if any(isinstance(t, tuple) or t == G for t in a.top):
                    self.s.unknown.append(Finding("unknown-write", self.where(node), f"call {ast.unparse(node)[:100]} may resolve to {key} which mutates {p}", "?"))
                continue
            for sfx in sorted({(f_.target[len(p):] if f_.target.startswith(p) else "") for f_ in finds}):
                self.mutation(a, node, f"call of {key.split(':')[1]} which mutates its argument '{p}' ({finds[0].what[:80]})", path=paths.get(p), suffix=sfx)
        for gfind in s.global_writes:
            self.s.global_writes.append(Finding("global-write", self.where(node), f"via {key.split(':')[1]}: {gfind.what[:120]}", gfind.target))
        ret = _subst(s.returns, binding)
        if s.caches or (fn is not None and any("lru_cache" in ast.unparse(d) or ast.unparse(d).split("(")[0].split(".")[-1] in ("cache", "cached_property") for d in fn.decorator_list)):
            # a memoised function hands out the object it keeps: whatever is done to the result in place is done to the cache (module state)
            ret = Val(ret.top | {G}, ret.inner, ret.cls, ret.deep)
        return ret

    def construct(self, cls, args, kws, node) -> Val:
        key = self.repo.method(cls, "__init__")
        reach = set()
        for v in args + list(kws.values()):
            reach |= v.top | v.inner
        if key:
            s = self.repo.summary(key)
            binding = {}
            for p, a in zip(s.params[1:], args):
                binding[p] = a
            binding.update(kws)
            for p, finds in s.mutates.items():
                if p in binding:
                    self.mutation(binding[p], node, f"constructor {cls} mutates its argument '{p}'")
            # what the new object holds: everything __init__ stored into self
            stored_top, stored_deep = set(), set()
            init = self.repo.funcs[key]
            an = _Analysis(self.repo, key)
            an.run()
            for st in ast.walk(init):
                if isinstance(st, (ast.Assign, ast.AnnAssign)) and st.value is not None:
                    for t in (st.targets if isinstance(st, ast.Assign) else [st.target]):
                        if isinstance(t, ast.Attribute) and isinstance(t.value, ast.Name) and t.value.id == "self":
                            # re-evaluate the stored expression in the finished environment (flow-insensitive, conservative)
                            v = an.expr(st.value)
                            stored_top |= v.top
                            stored_deep |= v.inner | v.deep
            sv = _subst(Val(frozenset({F}), frozenset(stored_top or {F}), None, frozenset(stored_deep or {F})), binding)
            return Val(frozenset({F}), sv.inner, cls, sv.deep)
        return Val(frozenset({F}), frozenset(_noimm(reach)) or frozenset({F}), cls)


# ------------------------------------------------------------------------------------------------
_REPO: Optional[Repo] = None


def repo() -> Repo:
    global _REPO
    if _REPO is None:
        _REPO = Repo()
    return _REPO


def frame_outcome(key: str, allow_self_attrs: Tuple[str, ...] = (), ignore_params: Tuple[str, ...] = ()) -> Tuple[str, List[Finding], Summary]:
    """('discharged'|'refuted'|'undecided', findings, summary) for: `key` modifies nothing reachable from its
    arguments and no module-level state.  allow_self_attrs: declared ghost caches (e.g. '_circuit')."""
    r = repo()
    if key not in r.funcs:
        return "undecided", [Finding("missing", "", f"{key} not found in the current tree", "")], Summary()
    s = r.summary(key)
    bad: List[Finding] = []
    for p, finds in s.mutates.items():
        if p in ignore_params:
            continue
        for f in finds:
            if p == "self" and any(f.target == f"self.{a}" for a in allow_self_attrs):
                continue
            bad.append(f)
    bad += s.global_writes
    if bad:
        return "refuted", bad, s
    if s.unknown:
        return "undecided", s.unknown, s
    return "discharged", [], s


# ------------------------------------------------------------------------------------------------
# write profiles: the frame (modifies clause) of EVERY function of a module, pinned in contracts/frames.json

def write_profile(mod: str) -> Dict[str, Dict[str, List[str]]]:
    """qualname -> {"writes": sorted targets the function may write (parameters / self attributes / module state, directly or through
    repository callees), "memo": memoisation decorators}; plus "<module>" -> module-level memoised callables"""
    r = repo()
    out: Dict[str, Dict[str, List[str]]] = {}
    for key in sorted(r.funcs):
        m, q = key.split(":")
        if m != mod:
            continue
        s = r.summary(key)
        w = set()
        for p, finds in s.mutates.items():
            for f in finds:
                w.add("param:" + f.target)
        for f in s.global_writes:
            w.add("global:" + f.target)
        out[q] = {"writes": sorted(w), "memo": sorted(set(s.caches))}
    tree = r.mods.get(mod)
    memo = []
    if tree is not None:
        for node in tree.body:
            if isinstance(node, (ast.Assign, ast.AnnAssign)) and node.value is not None:
                txt = ast.unparse(node.value)
                if isinstance(node.value, ast.Call) and ("lru_cache" in txt.split("(")[0] or txt.split("(")[0].split(".")[-1] in ("cache", "lru_cache", "memoize")):
                    memo.append(ast.unparse(node)[:80])
    out["<module>"] = {"writes": [], "memo": memo}
    return out


def load_frames() -> Dict[str, Dict[str, Dict[str, List[str]]]]:
    import json
    p = os.path.join(core.ROOT, "contracts", "frames.json")
    return json.load(open(p)) if os.path.exists(p) else {}


def frames_outcome(mods: List[str]):
    """('discharged'|'refuted', text, details): every function of the listed modules writes only what its pinned frame allows and
    carries no memoisation decorator beyond the pinned ones.  Functions that are new in the tree are judged through their callers (and for memoisation)."""
    base = load_frames()
    bad = []
    n = 0
    for mod in mods:
        cur_ = write_profile(mod)
        b = base.get(mod)
        if b is None:
            bad.append(f"{mod}: no pinned frame")
            continue
        for q, prof in cur_.items():
            n += 1
            allowed = b.get(q)
            if allowed is None:
                # a function that is new in this tree (e.g. a helper extracted by a refactoring): what it writes is judged where it
                # is used - its effects are part of its callers' summaries and those are held to their pinned frames; only a memoisation
                # decorator (invisible in the callers' write sets) is judged here
                allowed = {"writes": list(prof["writes"]), "memo": []}
            extra_w = [w for w in prof["writes"] if w not in allowed["writes"]]
            # a new memoisation is accepted when every parameter is an exactly-comparable immutable (int / str / bool / tuples of those): equal keys are
            # identical arguments, so the result still depends on the arguments only
            extra_m = [m_ for m_ in prof["memo"] if m_ not in allowed["memo"] and m_.split(" [")[0] not in [x.split(" [")[0] for x in allowed["memo"]] and not m_.endswith("[exact-keys]")]
            if extra_w:
                s_ = repo().summary(f"{mod}:{q}") if q != "<module>" else None
                wh = ""
                if s_ is not None:
                    allf = [f for fs in s_.mutates.values() for f in fs] + s_.global_writes
                    hit = [f for f in allf if ("param:" + f.target in extra_w) or ("global:" + f.target in extra_w)]
                    wh = "; ".join(f"{f.where}: {f.what[:110]}" for f in hit[:2])
                bad.append(f"{mod.split('.')[-1]}:{q} writes {extra_w} outside its frame ({wh})")
            if extra_m:
                bad.append(f"{mod.split('.')[-1]}:{q} is memoised ({extra_m}): its result may depend on earlier calls, not only on its arguments")
    if bad:
        return "refuted", "; ".join(bad[:6]), bad, n
    return "discharged", "", [], n
