"""Native (run-time) reading of the same contract strings: used to replay solver counterexamples against the
real code and for the bounded stand-ins (exhaustive small-domain enumeration).  Never counted as proof."""
from __future__ import annotations

import importlib
import itertools
from typing import Any, Dict, Iterable, Optional


def seq_sum(s, lo=None, hi=None):
    s = list(s)
    return sum(s[(0 if lo is None else lo):(len(s) if hi is None else hi)])


def implies(a, b):
    return (not a) or b


def is_concat_of(x, lens, pred):
    x = list(x)
    lens = list(lens)
    if sum(lens) != len(x) or any(l < 0 for l in lens):
        return False
    off = 0
    for i, l in enumerate(lens):
        if not pred(i, x[off:off + l]):
            return False
        off += l
    return True


NATIVE_SPEC = {"seq_sum": seq_sum, "implies": implies, "is_concat_of": is_concat_of}


def resolve(key: str):
    mod, qual = key.split(":")
    obj = importlib.import_module(mod)
    for p in qual.split("."):
        obj = getattr(obj, p)
    return obj


def eval_native(expr: str, env: Dict[str, Any], extra: Optional[Dict[str, Any]] = None):
    g = dict(NATIVE_SPEC)
    if extra:
        g.update(extra)
    g.update(env)   # one namespace: generator expressions / lambdas inside the contract see the arguments
    return eval(expr.strip(), g)


def check_call(contract, args: Dict[str, Any], fn=None, extra: Optional[Dict[str, Any]] = None, post_env=None):
    """-> (ok, observed-text).  ok is None when the precondition does not hold (case skipped)."""
    extra = dict(extra or {})
    extra.update({k: v for k, v in contract.spec.items() if not k.startswith("on_")})
    env = dict(args)
    for g, e in contract.ghost.items():
        env[g] = eval_native(e, env, extra)
    if not eval_native(contract.requires, env, extra):
        return None, "precondition false"
    conds = {en: bool(eval_native(c, env, extra)) for en, c in contract.raises.items()}
    fn = fn or resolve(contract.key)
    try:
        res = fn(**args) if not callable(getattr(fn, "__vfw_call__", None)) else fn.__vfw_call__(args)
    except Exception as e:
        en = type(e).__name__
        if en in conds:
            if conds[en]:
                return True, f"raised {en} as specified"
            return False, f"raised {en}: {str(e)[:120]} although its condition ({contract.raises[en]}) is false"
        return False, f"unexpected {en}: {str(e)[:200]}"
    if contract.raises_exact:
        for en, c in conds.items():
            if c:
                return False, f"returned normally although {en} was required ({contract.raises[en]})"
    penv = dict(env, result=res)
    if post_env:
        penv.update(post_env(args))
    ok = bool(eval_native(contract.ensures, penv, extra))
    return ok, ("postcondition holds" if ok else f"postcondition violated: result={res!r:.300}")
