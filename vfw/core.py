"""Core plumbing: obligations, outcomes, the runner, evidence, known findings, replay files.

Terminology (DESIGN.md section 1.7):
  kind    'proof'    an obligation generated from /repo's current source and decided by a
                     solver / exact decision procedure for ALL inputs (no bound);
          'finite'   a complete proof over a finite domain stated in the obligation;
          'bounded'  a bounded stand-in (native enumeration / sampling); never counted as proved;
          'assumed'  an assumption that is only listed (never run).
  status  'discharged' | 'refuted' | 'undecided' | 'bounded-pass' | 'bounded-fail' | 'error'
"""
from __future__ import annotations

import dataclasses
import json
import multiprocessing as mp
import os
import signal
import sys
import time
import traceback
from typing import Any, Callable, Dict, List, Optional

ROOT = os.path.dirname(os.path.dirname(os.path.abspath(__file__)))
REPO = os.environ.get("VFW_REPO", "/repo")
SRC = os.path.join(REPO, "src")


@dataclasses.dataclass
class Outcome:
    status: str
    backend: str = ""
    seconds: float = 0.0
    detail: str = ""
    # solver counter-model or failing enumerated case (JSON-able)
    cex: Optional[Any] = None
    # native replay: {"callable":..., "args":..., "expected":..., "observed":..., "reproduced": bool}
    replay: Optional[Dict[str, Any]] = None
    # stable key describing *which* failure this is (used to match KNOWN_FINDINGS)
    finding_key: str = ""
    queries: int = 1  # number of solver queries / enumerated cases behind this outcome
    sample: Optional[Any] = None  # something to show in evidence (formula size, witness of requires...)


@dataclasses.dataclass
class Ob:
    id: str
    kind: str  # proof | finite | bounded
    functions: List[str]
    run: Callable[[], Outcome]
    desc: str = ""
    timeout: float = 120.0
    tier: str = "quick"  # 'quick' obligations run in both tiers, 'thorough' only in thorough
    assumes: List[str] = dataclasses.field(default_factory=list)
    fallback: Optional[Callable[[], Outcome]] = None  # bounded oracle used when undecided


def discharged(backend, seconds=0.0, detail="", queries=1, sample=None):
    return Outcome("discharged", backend, seconds, detail, queries=queries, sample=sample)


def refuted(backend, detail, cex=None, replay=None, finding_key="", seconds=0.0, queries=1):
    return Outcome("refuted", backend, seconds, detail, cex=cex, replay=replay,
                   finding_key=finding_key, queries=queries)


def undecided(backend, detail, seconds=0.0):
    return Outcome("undecided", backend, seconds, detail)


def bounded_pass(detail, queries, seconds=0.0, sample=None, backend="native-enumeration"):
    return Outcome("bounded-pass", backend, seconds, detail, queries=queries, sample=sample)


def bounded_fail(detail, cex=None, replay=None, finding_key="", seconds=0.0, queries=1,
                 backend="native-enumeration"):
    return Outcome("bounded-fail", backend, seconds, detail, cex=cex, replay=replay,
                   finding_key=finding_key, queries=queries)


# ---------------------------------------------------------------------------------------------
# parallel runner (fork pool; obligations are closures, so they are addressed by index)

_OBS: List[Ob] = []


class _Timeout(Exception):
    pass


def _alarm(signum, frame):
    raise _Timeout()


def _run_one(i: int):
    ob = _OBS[i]
    t0 = time.time()
    signal.signal(signal.SIGALRM, _alarm)
    signal.alarm(int(ob.timeout) + 1)
    try:
        out = ob.run()
        if out.status == "undecided" and ob.fallback is not None:
            fb = ob.fallback()
            fb.detail = f"[proof undecided: {out.detail}] fallback: {fb.detail}"
            out = fb
    except _Timeout:
        out = undecided("timeout", f"timeout after {ob.timeout}s")
        if ob.fallback is not None:
            # running out of time is not a verdict either: the bounded oracle decides (with a time box of its own)
            signal.alarm(0)
            signal.signal(signal.SIGALRM, _alarm)
            signal.alarm(300)
            try:
                fb = ob.fallback()
                fb.detail = f"[proof attempt timed out after {ob.timeout}s] fallback: {fb.detail}"
                out = fb
            except _Timeout:
                out = undecided("timeout", f"timeout after {ob.timeout}s; the bounded oracle timed out as well")
            except Exception as e2:
                out = undecided("timeout", f"timeout after {ob.timeout}s; fallback failed: {type(e2).__name__}: {e2}")
    except Exception as e:  # the generator could not process the current text: undecided (never a violation); the bounded oracle takes over
        tb = "".join(traceback.format_exception(e))[-3000:]
        out = undecided("generator", "the VC generator raised on the current text (outside its fragment, or the code raises where no exception is specified): " + tb)
        if ob.fallback is not None:
            try:
                fb = ob.fallback()
                fb.detail = f"[proof attempt failed: {type(e).__name__}: {str(e)[:200]}] fallback: {fb.detail}"
                out = fb
            except Exception as e2:
                out = undecided("generator", tb + " | fallback also failed: " + "".join(traceback.format_exception(e2))[-800:])
    finally:
        signal.alarm(0)
    if not out.seconds:
        out.seconds = time.time() - t0
    return i, out


def run_obligations(obs: List[Ob], jobs: int = 0) -> List[Outcome]:
    global _OBS
    _OBS = obs
    jobs = jobs or min(16, os.cpu_count() or 4, max(1, len(obs)))
    results: List[Optional[Outcome]] = [None] * len(obs)
    if jobs == 1 or len(obs) <= 1 or os.environ.get("VFW_SERIAL"):
        for i in range(len(obs)):
            _, results[i] = _run_one(i)
    else:
        ctx = mp.get_context("fork")
        with ctx.Pool(jobs) as pool:
            for i, out in pool.imap_unordered(_run_one, range(len(obs))):
                results[i] = out
    return results  # type: ignore


# ---------------------------------------------------------------------------------------------
# known findings

def load_known_findings() -> List[dict]:
    path = os.path.join(ROOT, "KNOWN_FINDINGS.jsonl")
    out = []
    if os.path.exists(path):
        for line in open(path):
            line = line.strip()
            if line and not line.startswith("#"):
                out.append(json.loads(line))
    return out


def match_known(prop: str, ob: Ob, out: Outcome, known: List[dict]) -> Optional[dict]:
    for k in known:
        if k.get("status") != "finding":
            continue  # 'fixed' entries suppress nothing
        if k["property"] == prop and k["obligation"] == ob.id and k["finding_key"] == out.finding_key:
            return k
    return None


# ---------------------------------------------------------------------------------------------
# replay files

def write_replay(prop: str, ob: Ob, out: Outcome) -> str:
    d = os.path.join(ROOT, "replays", prop)
    os.makedirs(d, exist_ok=True)
    import re
    path = os.path.join(d, re.sub(r"[^A-Za-z0-9._-]+", "_", ob.id) + ".json")
    with open(path, "w") as f:
        json.dump({
            "property": prop,
            "obligation": ob.id,
            "description": ob.desc,
            "functions": ob.functions,
            "status": out.status,
            "backend": out.backend,
            "solver_output": out.detail,
            "counterexample": out.cex,
            "replay": out.replay,
            "finding_key": out.finding_key,
            "how_to_replay": f"./check {prop} --replay {os.path.relpath(path, ROOT)}",
        }, f, indent=1, default=str)
    return os.path.relpath(path, ROOT)


# ---------------------------------------------------------------------------------------------
# evidence

def write_evidence(prop: str, tier: str, seed: int, level: str, obs: List[Ob], outs: List[Outcome],
                   wall: float, assumptions: List[str], trusted_base: List[str], violations: int,
                   known_hits: List[str], extra: Dict[str, Any]) -> str:
    known_ids = {h.split(" ")[2].rstrip(":") for h in known_hits}   # "KNOWN-FINDING: property=X <ob id>: ..."
    # obligations whose proof attempt was undecided and that were handed to their bounded oracle are reported as bounded
    # (never counted as proved, and not counted as proof obligations of this run)
    downgraded = [o.id for o, r in zip(obs, outs) if o.kind in ("proof", "finite") and r.status.startswith("bounded")]
    proofish = [(o, r) for o, r in zip(obs, outs) if o.kind in ("proof", "finite") and o.id not in known_ids and not r.status.startswith("bounded")]
    bounded = [(o, r) for o, r in zip(obs, outs) if o.kind == "bounded" or r.status.startswith("bounded")]
    n_ob = len(proofish)
    n_dis = sum(1 for o, r in proofish if r.status == "discharged")
    by_backend: Dict[str, int] = {}
    for o, r in proofish:
        if r.status == "discharged":
            by_backend[r.backend] = by_backend.get(r.backend, 0) + 1
    functions = sorted({f for o in obs for f in o.functions})
    samples = []
    for o, r in list(zip(obs, outs))[:400]:
        samples.append({"obligation": o.id, "kind": o.kind, "status": r.status, "backend": r.backend,
                        "seconds": round(r.seconds, 3), "queries": r.queries,
                        "what": o.desc[:300], **({"sample": r.sample} if r.sample is not None else {}),
                        **({"detail": r.detail[:300]} if r.status not in ("discharged", "bounded-pass") else {})})
    cov: Dict[str, Any] = {
        "obligations": n_ob,
        "discharged": n_dis,
        "discharged_by_backend": by_backend,
        "solver_seconds": round(sum(r.seconds for o, r in proofish), 3),
        "solver_queries": sum(r.queries for o, r in proofish),
        "checker_cmd": f"./check {prop} --tier {tier}",
        "trusted_base": trusted_base,
        "functions_under_contract": functions,
        "bounded_obligations": len(bounded),
        "bounded_cases": sum(r.queries for o, r in bounded),
        "bounded_passed": sum(1 for o, r in bounded if r.status == "bounded-pass"),
        "undecided": [o.id for o, r in zip(obs, outs) if r.status in ("undecided", "error")],
        "proof_undecided_decided_by_bounded_oracle": downgraded,
        "known_findings_reported": known_hits,
        "evaluations": sum(r.queries for r in outs),
        "distinct_nontrivial": len({o.id for o in obs}),
        "rule": "one evaluation = one solver query or one enumerated native case; distinct = distinct obligation ids",
        "samples": samples,
        "explanation": extra.pop("explanation", ""),
    }
    cov.update(extra)
    ev = {
        "property_id": prop, "tier": tier, "seed": seed, "level": level, "coverage": cov,
        "assumptions": assumptions, "wall_s": round(wall, 3), "violations": violations,
    }
    d = os.path.join(ROOT, "evidence")
    os.makedirs(d, exist_ok=True)
    path = os.path.join(d, f"{prop}.json")
    with open(path, "w") as f:
        json.dump(ev, f, indent=1, default=str)
    return path
