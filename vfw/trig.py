"""Engine M: exact symbolic domain for the matrix-valued expression code of /repo.

The real source of `_matrices.py` (and of the gate wrappers) is executed with the module
globals `sympy` / `np` bound to the shims below, and with numeric literals wrapped (so that
`2 ** (-0.5)` or `1 / np.sqrt(2)` are seen as exact algebraic numbers, not as rounded floats).
Values are polynomials with Gaussian-rational coefficients over
    * real parameter variables,  * 'pi',  * r2 (= sqrt 2, r2^2 = 2),
    * trigonometric atoms  c|v|q = cos(q*v),  s|v|q = sin(q*v)  (q a positive rational),
built by Euler's formula and the addition formulas (so cos((a+b)/2) is *expanded* into
single-variable atoms).  `canon` rewrites all atoms of one variable to a common base angle by the
multiple-angle (Chebyshev) identities and reduces s^2 -> 1-c^2, r2^2 -> 2: the normal form is
canonical for polynomial functions on the torus, so an identity holds for ALL real parameter
values iff the normal form of the difference is the zero polynomial.  z3 (nlsat) is used as an
independent second decision of the same question.

What is assumed (listed in every evidence file that uses this engine):
  sympy.cos/sin/exp/sqrt, np.sqrt, np.pi, sympy.I denote the real/complex functions and constants;
  exp(i x) = cos x + i sin x; sympy.simplify is value preserving; sympy Matrix *, /, adjoint, diag,
  eye, kronecker_product are the algebraic operations; Python float literals denote their exact
  binary value (0.5 is 1/2) and float *rounding* of results is not modelled.
"""
from __future__ import annotations

import ast
import math
import random
from fractions import Fraction
from functools import lru_cache
from typing import Dict, Iterable, List, Tuple

F0 = Fraction(0)
F1 = Fraction(1)


class Unsupported(Exception):
    """The code left the fragment the exact domain can represent -> obligation is *undecided*."""


def _frac(x):
    if isinstance(x, Fraction):
        return x
    if isinstance(x, bool):
        return Fraction(int(x))
    if isinstance(x, int):
        return Fraction(x)
    if isinstance(x, float):
        if x != x or x in (float("inf"), float("-inf")):
            raise Unsupported("non-finite float")
        return Fraction(x)
    raise TypeError(type(x))


def _atom(kind, v, q):
    return f"{kind}|{v}|{q.numerator}/{q.denominator}"


def _parse_atom(name):
    kind, v, q = name.split("|")
    n, d = q.split("/")
    return kind, v, Fraction(int(n), int(d))


def is_atom(var):
    return var[:2] in ("c|", "s|")


class Poly:
    __slots__ = ("t",)

    def __init__(self, terms=None):
        self.t: Dict[tuple, Tuple[Fraction, Fraction]] = terms if terms is not None else {}

    # ---- constructors
    @staticmethod
    def const(x):
        if isinstance(x, Poly):
            return x
        if isinstance(x, complex):
            re, im = _frac(x.real), _frac(x.imag)
        else:
            try:
                re, im = _frac(x), F0
            except TypeError:
                # numpy scalars and friends
                if hasattr(x, "imag") and hasattr(x, "real") and not isinstance(x, (str, bytes)):
                    re, im = _frac(float(x.real)), _frac(float(x.imag))
                else:
                    raise
        if re == 0 and im == 0:
            return Poly({})
        return Poly({(): (re, im)})

    @staticmethod
    def var(name):
        return Poly({((name, 1),): (F1, F0)})

    # ---- predicates / conversions
    def is_const(self):
        return all(m == () for m in self.t)

    def const_value(self):
        if not self.is_const():
            raise Unsupported(f"not a constant: {self}")
        re, im = self.t.get((), (F0, F0))
        return re, im

    def is_zero_syntactic(self):
        return not self.t

    def __bool__(self):
        if self.is_const():
            re, im = self.const_value()
            return bool(re or im)
        c = canon(self)
        if c.is_const():
            re, im = c.const_value()
            return bool(re or im)
        return True  # a non-constant polynomial is "truthy" like a sympy expression

    def __index__(self):
        re, im = self.const_value()
        if im != 0 or re.denominator != 1:
            raise TypeError("not an integer constant")
        return int(re)

    __int__ = __index__

    def __float__(self):
        re, im = self.const_value()
        if im != 0:
            raise TypeError("complex constant")
        return float(re)

    def __complex__(self):
        re, im = self.const_value()
        return complex(float(re), float(im))

    def variables(self):
        return {v for m in self.t for v, _ in m}

    @property
    def free_symbols(self):
        out = set()
        for v in self.variables():
            if is_atom(v):
                out.add(_parse_atom(v)[1])
            elif v not in ("r2",):
                out.add(v)
        out.discard("pi")
        out.discard("1")
        return {Poly.var(v) for v in out}

    # ---- arithmetic
    def __add__(self, o):
        o = _coerce(o)
        if o is NotImplemented:
            return NotImplemented
        t = dict(self.t)
        for m, (re, im) in o.t.items():
            a = t.get(m)
            if a is None:
                t[m] = (re, im)
            else:
                r = (a[0] + re, a[1] + im)
                if r[0] == 0 and r[1] == 0:
                    del t[m]
                else:
                    t[m] = r
        return Poly(t)

    __radd__ = __add__

    def __neg__(self):
        return Poly({m: (-re, -im) for m, (re, im) in self.t.items()})

    def __pos__(self):
        return self

    def __sub__(self, o):
        o = _coerce(o)
        if o is NotImplemented:
            return NotImplemented
        return self + (-o)

    def __rsub__(self, o):
        o = _coerce(o)
        if o is NotImplemented:
            return NotImplemented
        return o + (-self)

    def __mul__(self, o):
        if isinstance(o, SMat):
            return o.__rmul__(self)
        o = _coerce(o)
        if o is NotImplemented:
            return NotImplemented
        t: Dict[tuple, Tuple[Fraction, Fraction]] = {}
        for m1, (a, b) in self.t.items():
            for m2, (c, d) in o.t.items():
                re, im = a * c - b * d, a * d + b * c
                if re == 0 and im == 0:
                    continue
                for m, k in _mul_mono(m1, m2):
                    r2_, i2_ = re * k, im * k
                    x = t.get(m)
                    if x is None:
                        t[m] = (r2_, i2_)
                    else:
                        y = (x[0] + r2_, x[1] + i2_)
                        if y[0] == 0 and y[1] == 0:
                            del t[m]
                        else:
                            t[m] = y
        return Poly(t)

    def __rmul__(self, o):
        o = _coerce(o)
        if o is NotImplemented:
            return NotImplemented
        return o.__mul__(self)

    def conjugate(self):
        return Poly({m: (re, -im) for m, (re, im) in self.t.items()})

    def inverse(self):
        if self.is_const():
            re, im = self.const_value()
            n = re * re + im * im
            if n == 0:
                raise ZeroDivisionError("division by the zero constant")
            return Poly.const(1) * Poly({(): (re / n, -im / n)})
        global REDUCE
        old, REDUCE = REDUCE, True
        try:
            n = canon(reduce_poly(self) * reduce_poly(self.conjugate()))
        finally:
            REDUCE = old
        if n.is_const():
            re, im = n.const_value()
            if re == 0:
                raise ZeroDivisionError("division by zero polynomial")
            return self.conjugate() * Poly({(): (1 / re, F0)})
        raise Unsupported(f"division by a non-unit polynomial {self}")

    def __truediv__(self, o):
        o = _coerce(o)
        if o is NotImplemented:
            return NotImplemented
        return self * o.inverse()

    def __rtruediv__(self, o):
        o = _coerce(o)
        if o is NotImplemented:
            return NotImplemented
        return o * self.inverse()

    def __pow__(self, e):
        if isinstance(e, Poly):
            re, im = e.const_value()
            if im != 0:
                raise Unsupported("complex exponent")
            e = re
        e = _frac(e)
        if e.denominator == 1:
            n = int(e)
            base = self if n >= 0 else self.inverse()
            n = abs(n)
            out = Poly.const(1)
            for _ in range(n):
                out = out * base
            return out
        if e.denominator == 2:
            return sqrt(self) ** e.numerator
        raise Unsupported(f"power with exponent {e}")

    def __rpow__(self, b):
        return _coerce(b) ** self

    def __eq__(self, o):
        try:
            o = _coerce(o)
        except Exception:
            return False
        if o is NotImplemented:
            return False
        return is_zero(self - o)

    def __hash__(self):
        return hash(tuple(sorted((m, c) for m, c in canon(self).t.items())))

    def __repr__(self):
        if not self.t:
            return "0"
        parts = []
        for m, (re, im) in sorted(self.t.items()):
            c = f"{re}" if im == 0 else (f"{im}i" if re == 0 else f"({re}+{im}i)")
            mono = "*".join(v if e == 1 else f"{v}^{e}" for v, e in m)
            parts.append(c + ("*" + mono if mono else ""))
        return " + ".join(parts)

    # sympy-ish API used by the real code
    def subs(self, mapping, simultaneous=False):
        # the substitution below replaces every variable once (simultaneously).  sympy's default is sequential: the two agree unless a
        # replacement mentions a symbol that is itself a key of the mapping - that case is decided only when simultaneous=True was asked for
        if not simultaneous:
            keys = set()
            for k in mapping:
                if isinstance(k, Poly):
                    keys |= set(k.variables())
            for k, val in mapping.items():
                if isinstance(val, Poly) and val.t != getattr(k, "t", None) and keys & set(val.variables()):
                    raise Unsupported("sequential substitution whose replacements mention substituted symbols")
        out = Poly({})
        for m, (re, im) in self.t.items():
            term = Poly({(): (re, im)})
            for v, e in m:
                rep = None
                for k, val in mapping.items():
                    if isinstance(k, Poly) and k.t == Poly.var(v).t:
                        rep = val
                if rep is None:
                    if is_atom(v):
                        kind, base, q = _parse_atom(v)
                        for k, val in mapping.items():
                            if isinstance(k, Poly) and k.t == Poly.var(base).t:
                                arg = Poly.const(q) * _coerce(val)
                                rep = cos(arg) if kind == "c" else sin(arg)
                    if rep is None:
                        rep = Poly.var(v)
                term = term * (_coerce(rep) ** e)
            out = out + term
        return out

    def evalf_at(self, env: Dict[str, float]) -> complex:
        tot = 0j
        for m, (re, im) in self.t.items():
            x = complex(float(re), float(im))
            for v, e in m:
                x *= _var_value(v, env) ** e
            tot += x
        return tot


def _var_value(v, env):
    if v == "r2":
        return math.sqrt(2.0)
    if v == "pi":
        return math.pi
    if v == "1":
        return 1.0
    if is_atom(v):
        kind, base, q = _parse_atom(v)
        ang = float(q) * _var_value(base, env)
        return math.cos(ang) if kind == "c" else math.sin(ang)
    return env[v]


def _coerce(o):
    if isinstance(o, Poly):
        return o
    if isinstance(o, (int, float, complex, Fraction)) and not isinstance(o, bool):
        return Poly.const(o)
    if isinstance(o, bool):
        return Poly.const(int(o))
    if type(o).__module__ == "numpy" and hasattr(o, "shape") and o.shape == ():
        return Poly.const(complex(o) if "complex" in type(o).__name__ else float(o))
    return NotImplemented


REDUCE = True  # on-the-fly reduction modulo s^2 + c^2 = 1, r2^2 = 2 (switched off to hand z3 raw polynomials)


class raw_mode:
    """Context manager: build polynomials WITHOUT any reduction, for the z3 second opinion."""

    def __enter__(self):
        global REDUCE
        self.old = REDUCE
        REDUCE = False

    def __exit__(self, *a):
        global REDUCE
        REDUCE = self.old


def _mul_mono(m1, m2):
    """Multiply two monomials, reducing r2^2 -> 2 and s^2 -> 1 - c^2 on the fly.
    Returns a list of (monomial, rational factor)."""
    if not m1:
        d = dict(m2)
    elif not m2:
        d = dict(m1)
    else:
        d = dict(m1)
        for v, e in m2:
            d[v] = d.get(v, 0) + e
    k = F1
    if not REDUCE:
        return [(tuple(sorted(d.items())), k)]
    e = d.get("r2")
    if e is not None and e >= 2:
        k *= Fraction(2) ** (e // 2)
        if e % 2:
            d["r2"] = 1
        else:
            del d["r2"]
    out = [(d, k)]
    for v in [v for v, e in d.items() if v[:2] == "s|" and e >= 2]:
        cv = "c" + v[1:]
        new = []
        for dd, kk in out:
            e = dd[v]
            h, r = divmod(e, 2)
            base = dict(dd)
            if r:
                base[v] = 1
            else:
                del base[v]
            # (1 - c^2)^h
            for j in range(h + 1):
                d2 = dict(base)
                if j:
                    d2[cv] = d2.get(cv, 0) + 2 * j
                new.append((d2, kk * math.comb(h, j) * (-1) ** j))
        out = new
    return [(tuple(sorted(dd.items())), kk) for dd, kk in out]


# ---------------------------------------------------------------------------------------------
# trigonometry

_PI4_COS = [(1, 0), (0, Fraction(1, 2)), (0, 0), (0, Fraction(-1, 2)), (-1, 0), (0, Fraction(-1, 2)), (0, 0), (0, Fraction(1, 2))]
_PI4_SIN = [(0, 0), (0, Fraction(1, 2)), (1, 0), (0, Fraction(1, 2)), (0, 0), (0, Fraction(-1, 2)), (-1, 0), (0, Fraction(-1, 2))]


def _r2poly(pair):
    a, b = pair
    return Poly.const(Fraction(a)) + Poly.const(Fraction(b)) * Poly.var("r2")


def linear_form(p: Poly) -> Dict[str, Fraction]:
    """p must be a real linear form over non-atom variables: returns var -> coefficient
    (the constant term is keyed '1')."""
    L: Dict[str, Fraction] = {}
    for m, (re, im) in p.t.items():
        if im != 0:
            raise Unsupported(f"trig argument with imaginary part: {p}")
        if m == ():
            L["1"] = L.get("1", F0) + re
        elif len(m) == 1 and m[0][1] == 1 and not is_atom(m[0][0]) and m[0][0] != "r2":
            L[m[0][0]] = L.get(m[0][0], F0) + re
        else:
            raise Unsupported(f"non-linear trig argument: {p}")
    return {v: q for v, q in L.items() if q != 0}


def _cs_single(v, q):
    """(cos(q v), sin(q v)) for one variable."""
    if q == 0:
        return Poly.const(1), Poly.const(0)
    sign = 1
    if q < 0:
        q, sign = -q, -1
    if v == "pi" and (q * 4).denominator == 1:
        k = int(q * 4) % 8
        return _r2poly(_PI4_COS[k]), Poly.const(sign) * _r2poly(_PI4_SIN[k])
    return Poly.var(_atom("c", v, q)), Poly.const(sign) * Poly.var(_atom("s", v, q))


def _cs_form(L: Dict[str, Fraction]):
    c, s = Poly.const(1), Poly.const(0)
    for v in sorted(L):
        cv, sv = _cs_single(v, L[v])
        c, s = c * cv - s * sv, s * cv + c * sv
    return c, s


def cos(x):
    x = _coerce(x)
    return _cs_form(linear_form(x))[0]


def sin(x):
    x = _coerce(x)
    return _cs_form(linear_form(x))[1]


def tan(x):
    raise Unsupported("tan")


def exp(x):
    x = _coerce(x)
    if x.is_zero_syntactic():
        return Poly.const(1)
    # x = i * L with L a real linear form
    L = linear_form(Poly({m: (im, -re) for m, (re, im) in x.t.items()}))  # x / i
    c, s = _cs_form(L)
    return c + Poly.const(1j) * s


def sqrt(x):
    x = _coerce(x)
    re, im = x.const_value() if x.is_const() else (None, None)
    if re is None:
        c = canon(x)
        if not c.is_const():
            raise Unsupported(f"sqrt of non-constant {x}")
        re, im = c.const_value()
    if im != 0 or re < 0:
        raise Unsupported(f"sqrt of {re}+{im}i")

    def isq(n):
        r = math.isqrt(n)
        return r if r * r == n else None
    n, d = re.numerator, re.denominator
    a, b = isq(n), isq(d)
    if a is not None and b is not None:
        return Poly.const(Fraction(a, b))
    # sqrt(2 * (p/q)^2)
    h = re / 2
    a, b = isq(h.numerator), isq(h.denominator)
    if a is not None and b is not None:
        return Poly.const(Fraction(a, b)) * Poly.var("r2")
    raise Unsupported(f"sqrt({re})")


# ---------------------------------------------------------------------------------------------
# canonical form

@lru_cache(None)
def _cheb(n):
    """(T_n, U_{n-1}) as coefficient tuples in c (index = power): cos(n x) = T_n(cos x),
    sin(n x) = sin x * U_{n-1}(cos x).  n >= 1."""
    def step(p1, p0):
        out = [0] + [2 * a for a in p1]
        for i, a in enumerate(p0):
            out[i] -= a
        return out
    T = [[1], [0, 1]]
    U = [[1], [0, 2]]
    while len(T) <= n:
        T.append(step(T[-1], T[-2]))
        U.append(step(U[-1], U[-2]))
    return tuple(T[n]), tuple(U[n - 1])


def _rat_gcd(qs: Iterable[Fraction]) -> Fraction:
    qs = list(qs)
    num = 0
    den = 1
    for q in qs:
        den = den * q.denominator // math.gcd(den, q.denominator)
    for q in qs:
        num = math.gcd(num, int(q * den))
    return Fraction(num, den)


def canon(p: Poly, bases: Dict[str, Fraction] = None) -> Poly:
    """Rewrite every atom of a variable to that variable's common base angle, reduce."""
    atoms = {}
    for v in p.variables():
        if is_atom(v):
            kind, base, q = _parse_atom(v)
            atoms.setdefault(base, set()).add(q)
    if not atoms:
        return p
    need = {}
    for base, qs in atoms.items():
        b = _rat_gcd(qs if bases is None or base not in bases else list(qs) + [bases[base]])
        if any(q != b for q in qs):
            need[base] = b
    if not need:
        return p
    cache: Dict[str, Poly] = {}

    def rep(v):
        r = cache.get(v)
        if r is None:
            kind, base, q = _parse_atom(v)
            if base not in need or q == need[base]:
                r = Poly.var(v)
            else:
                b = need[base]
                n = int(q / b)
                T, U = _cheb(n)
                cb = Poly.var(_atom("c", base, b))
                if kind == "c":
                    r = Poly({})
                    pw = Poly.const(1)
                    for a in T:
                        if a:
                            r = r + Poly.const(a) * pw
                        pw = pw * cb
                else:
                    r = Poly({})
                    pw = Poly.const(1)
                    for a in U:
                        if a:
                            r = r + Poly.const(a) * pw
                        pw = pw * cb
                    r = r * Poly.var(_atom("s", base, b))
            cache[v] = r
        return r

    out = Poly({})
    for m, (re, im) in p.t.items():
        term = Poly({(): (re, im)})
        for v, e in m:
            if is_atom(v):
                term = term * (rep(v) ** e)
            else:
                term = term * Poly({((v, e),): (F1, F0)})
        out = out + term
    return out


def reduce_poly(p: Poly) -> Poly:
    """Apply s^2 -> 1-c^2 and r2^2 -> 2 to a polynomial built in raw mode."""
    global REDUCE
    old, REDUCE = REDUCE, True
    try:
        out = Poly({})
        for m, (re, im) in p.t.items():
            for mm, k in _mul_mono(m, ()):
                out = out + Poly({mm: (re * k, im * k)})
        return out
    finally:
        REDUCE = old


def is_zero(p: Poly) -> bool:
    global REDUCE
    old, REDUCE = REDUCE, True
    try:
        return not canon(reduce_poly(p)).t
    finally:
        REDUCE = old


def witness(p: Poly, rng: random.Random, tries: int = 40):
    """A numeric assignment of the free real parameters at which p is (numerically) non-zero."""
    params = sorted({(_parse_atom(v)[1] if is_atom(v) else v) for v in p.variables()} - {"r2", "pi", "1"})
    best = None
    for _ in range(tries):
        env = {v: round(rng.uniform(-3.0, 3.0), 3) for v in params}
        val = p.evalf_at(env)
        if abs(val) > 1e-9 and (best is None or abs(val) > abs(best[1])):
            best = (env, val)
            if abs(val) > 1e-3:
                break
    return best


# ---------------------------------------------------------------------------------------------
# z3 second opinion

def z3_is_zero(p: Poly, timeout_ms: int = 20000):
    """Ask z3 whether re(p) != 0 or im(p) != 0 is satisfiable under the circle constraints.
    Atoms are first brought to common base angles (multiple-angle identities are ring rewriting
    in the generator); Pythagoras and r2^2 = 2 are left to the solver.
    Returns 'unsat' | 'sat' | 'unknown'."""
    import z3
    q = canon_nored(p)
    vs = {}

    def zv(v):
        if v not in vs:
            vs[v] = z3.Real("v_" + v.replace("|", "_").replace("/", "_"))
        return vs[v]
    re_e, im_e = z3.RealVal(0), z3.RealVal(0)
    for m, (re, im) in q.t.items():
        mono = z3.RealVal(1)
        for v, e in m:
            for _ in range(e):
                mono = mono * zv(v)
        if re:
            re_e = re_e + z3.Q(re.numerator, re.denominator) * mono
        if im:
            im_e = im_e + z3.Q(im.numerator, im.denominator) * mono
    s = z3.Solver()
    s.set("timeout", timeout_ms)
    for v in list(vs):
        if v == "r2":
            s.add(vs[v] * vs[v] == 2, vs[v] > 0)
        elif v[:2] == "c|":
            s.add(zv(v) * zv(v) + zv("s" + v[1:]) * zv("s" + v[1:]) == 1)
        elif v[:2] == "s|":
            s.add(zv(v) * zv(v) + zv("c" + v[1:]) * zv("c" + v[1:]) == 1)
    s.add(z3.Or(re_e != 0, im_e != 0))
    r = s.check()
    return str(r)


def canon_nored(p: Poly) -> Poly:
    """Like canon, but *without* s^2 -> 1-c^2 reduction having been needed for soundness: we simply
    return canon(p) expanded; the reduction already applied during multiplication is sound ring
    rewriting modulo the same constraints that z3 is given."""
    return canon(p)


# ---------------------------------------------------------------------------------------------
# matrices

class SMat:
    def __init__(self, rows=None, cols=None, data=None):
        # sympy.Matrix(list_of_lists) | Matrix(flat_list) -> column vector | Matrix(SMat)
        if isinstance(rows, SMat):
            self.m = [list(r) for r in rows.m]
            return
        if data is not None:
            self.m = data
            return
        if rows is None:
            self.m = []
            return
        rows = list(rows) if not isinstance(rows, list) else rows
        if rows and isinstance(rows[0], (list, tuple)):
            self.m = [[_coerce_strict(x) for x in r] for r in rows]
        elif rows and isinstance(rows[0], SMat):
            # column of row-vectors
            self.m = [list(r.m[0]) for r in rows]
        else:
            self.m = [[_coerce_strict(x)] for x in rows]

    # --- sympy API
    @property
    def shape(self):
        return (len(self.m), len(self.m[0]) if self.m else 0)

    @property
    def rows(self):
        return self.shape[0]

    @property
    def cols(self):
        return self.shape[1]

    @staticmethod
    def diag(*blocks):
        blocks = [b if isinstance(b, SMat) else SMat([[b]]) for b in blocks]
        n = sum(b.shape[0] for b in blocks)
        k = sum(b.shape[1] for b in blocks)
        out = [[Poly({}) for _ in range(k)] for _ in range(n)]
        r = c = 0
        for b in blocks:
            for i, row in enumerate(b.m):
                for j, x in enumerate(row):
                    out[r + i][c + j] = x
            r += b.shape[0]
            c += b.shape[1]
        return SMat(data=out)

    def __getitem__(self, idx):
        if isinstance(idx, tuple):
            i, j = idx
            if isinstance(i, slice) or isinstance(j, slice):
                ri = range(*i.indices(self.rows)) if isinstance(i, slice) else [int(i)]
                rj = range(*j.indices(self.cols)) if isinstance(j, slice) else [int(j)]
                return SMat(data=[[self.m[a][b] for b in rj] for a in ri])
            return self.m[int(i)][int(j)]
        n = self.cols
        i = int(idx)
        return self.m[i // n][i % n]

    def __setitem__(self, idx, val):
        if not isinstance(idx, tuple):
            if self.cols != 1:
                raise Unsupported("flat item assignment on a matrix")
            self.m[int(idx)][0] = _coerce_strict(val)
            return
        i, j = idx
        if isinstance(i, slice) and not isinstance(j, slice):
            col = val.m if isinstance(val, SMat) else [[v] for v in val]
            for a in range(*i.indices(self.rows)):
                self.m[a][int(j)] = _coerce_strict(col[a][0])
            return
        self.m[int(i)][int(j)] = _coerce_strict(val)

    def __iter__(self):
        for r in self.m:
            for x in r:
                yield x

    def __len__(self):
        return self.rows * self.cols

    def row(self, i):
        return SMat(data=[list(self.m[i])])

    def tolist(self):
        return [list(r) for r in self.m]

    def copy(self):
        return SMat(data=[list(r) for r in self.m])

    def transpose(self):
        return SMat(data=[[self.m[i][j] for i in range(self.rows)] for j in range(self.cols)])

    T = property(transpose)

    def conjugate(self):
        return SMat(data=[[x.conjugate() for x in r] for r in self.m])

    def adjoint(self):
        return self.transpose().conjugate()

    H = property(adjoint)

    @property
    def free_symbols(self):
        out = set()
        for x in self:
            out |= x.free_symbols
        return out

    def subs(self, mapping, simultaneous=False):
        return SMat(data=[[x.subs(mapping, simultaneous=simultaneous) for x in r] for r in self.m])

    def applyfunc(self, f):
        return SMat(data=[[_coerce_strict(f(x)) for x in r] for r in self.m])

    def __matmul__(self, o):
        if not isinstance(o, SMat):
            return NotImplemented
        if self.cols != o.rows:
            raise ValueError(f"shape mismatch {self.shape} @ {o.shape}")
        ot = o.transpose().m
        out = []
        for r in self.m:
            nz = [(k, x) for k, x in enumerate(r) if x.t]
            row = []
            for c in ot:
                acc = Poly({})
                for k, x in nz:
                    y = c[k]
                    if y.t:
                        acc = acc + x * y
                row.append(acc)
            out.append(row)
        return SMat(data=out)

    def __mul__(self, o):
        if isinstance(o, SMat):
            return self.__matmul__(o)
        o = _coerce(o)
        if o is NotImplemented:
            return NotImplemented
        return SMat(data=[[x * o for x in r] for r in self.m])

    def __rmul__(self, o):
        o = _coerce(o)
        if o is NotImplemented:
            return NotImplemented
        return SMat(data=[[o * x for x in r] for r in self.m])

    def __truediv__(self, o):
        o = _coerce(o)
        if o is NotImplemented:
            return NotImplemented
        inv = o.inverse()
        return SMat(data=[[x * inv for x in r] for r in self.m])

    def __add__(self, o):
        if not isinstance(o, SMat) or o.shape != self.shape:
            return NotImplemented
        return SMat(data=[[x + y for x, y in zip(a, b)] for a, b in zip(self.m, o.m)])

    def __sub__(self, o):
        if not isinstance(o, SMat) or o.shape != self.shape:
            return NotImplemented
        return SMat(data=[[x - y for x, y in zip(a, b)] for a, b in zip(self.m, o.m)])

    def __neg__(self):
        return SMat(data=[[-x for x in r] for r in self.m])

    def __pow__(self, e):
        if isinstance(e, Poly):
            re, im = e.const_value()
            e = re
        e = _frac(e)
        if e.denominator != 1:
            raise Unsupported("fractional matrix power")
        n = int(e)
        if n < 0:
            raise Unsupported("negative matrix power (needs inverse)")
        out = eye(self.rows)
        for _ in range(n):
            out = out @ self
        return out

    def exp(self):
        raise Unsupported("matrix exponential")

    def __eq__(self, o):
        return isinstance(o, SMat) and o.shape == self.shape and all(is_zero(x - y) for x, y in zip(self, o))

    def __hash__(self):
        return id(self)

    def __repr__(self):
        return "SMat(" + repr(self.m) + ")"

    def canon(self):
        return SMat(data=[[canon(x) for x in r] for r in self.m])


def _coerce_strict(x):
    c = _coerce(x)
    if c is NotImplemented:
        raise Unsupported(f"matrix entry of type {type(x).__name__}")
    return c


def eye(n):
    n = int(n)
    return SMat(data=[[Poly.const(1) if i == j else Poly({}) for j in range(n)] for i in range(n)])


def zeros(r, c=None):
    if isinstance(r, tuple):
        r, c = r
    c = r if c is None else c
    return SMat(data=[[Poly({}) for _ in range(int(c))] for _ in range(int(r))])


def kron(a, b):
    if not isinstance(a, SMat):
        a = SMat([[a]])
    if not isinstance(b, SMat):
        b = SMat([[b]])
    out = []
    for ra in a.m:
        for rb in b.m:
            out.append([x * y for x in ra for y in rb])
    return SMat(data=out)


def kronecker_product(*ms):
    out = ms[0]
    for m in ms[1:]:
        out = kron(out, m)
    return out


def simplify(x):
    return x


def symbol(name, **kw):
    return Poly.var(str(name))


class _NS:
    def __init__(self, name, **kw):
        self.__dict__.update(kw)
        self._name = name

    def __getattr__(self, k):
        raise Unsupported(f"{self._name}.{k} is not modelled by Engine M")


class _MatrixMeta(type):
    def __instancecheck__(cls, inst):
        return isinstance(inst, SMat)


SYMPY = _NS("sympy", Matrix=SMat, cos=cos, sin=sin, exp=exp, sqrt=sqrt, tan=tan, I=Poly.const(1j),
            pi=Poly.var("pi"), eye=eye, zeros=zeros, simplify=simplify, kronecker_product=kronecker_product,
            Symbol=symbol, Expr=Poly, N=lambda x: x, expand=lambda x: x, re=lambda x: x, im=lambda x: x)
def _np_array(x, dtype=None):
    return x if isinstance(x, SMat) else SMat(x)


def _np_zeros(shape, dtype=None):
    if isinstance(shape, tuple):
        return zeros(*shape)
    return zeros(int(shape), 1)      # numpy: zeros(n) is a vector


def _np_exp(x):
    return x.applyfunc(exp) if isinstance(x, SMat) else exp(x)


def _np_multiply(a, b):
    a, b = _np_array(a), _np_array(b)
    if a.shape != b.shape:
        raise Unsupported("np.multiply of different shapes")
    return SMat(data=[[x * y for x, y in zip(ra, rb)] for ra, rb in zip(a.m, b.m)])


def _np_log2(x):
    x = int(x)
    if x <= 0 or x & (x - 1):
        return math.log2(x)
    return x.bit_length() - 1


NUMPY = _NS("numpy", sqrt=sqrt, pi=Poly.var("pi"), cos=cos, sin=sin, exp=_np_exp, kron=kron, eye=eye,
            zeros=_np_zeros, array=_np_array, asarray=_np_array, ndarray=SMat, multiply=_np_multiply, log2=_np_log2)


# ---------------------------------------------------------------------------------------------
# AST helper: wrap numeric literals so that constant folding happens in the exact domain

class _LitWrap(ast.NodeTransformer):
    def visit_Constant(self, node):
        if isinstance(node.value, (int, float, complex)) and not isinstance(node.value, bool):
            return ast.copy_location(
                ast.Call(func=ast.Name(id="__lit__", ctx=ast.Load()), args=[node], keywords=[]), node)
        return node

    def visit_FunctionDef(self, node):
        # never touch default values of parameters / decorators; only the body
        node.body = [self.visit(s) for s in node.body]
        return node


def wrap_literals(tree: ast.AST) -> ast.AST:
    tree = _LitWrap().visit(tree)
    ast.fix_missing_locations(tree)
    return tree


def lit(x):
    return Poly.const(x)
