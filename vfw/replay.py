"""Native replay of counterexamples against the real code, in a subprocess with a time box.

A replay is a small Python program (text) that imports the real package from the tree under
check, builds the concrete input, calls the real function and ends by assigning
    OK = <bool: property holds on this input>
    OBSERVED = <str>
"""
from __future__ import annotations

import json
import os
import subprocess
import sys
import tempfile

from . import core

_PRE = """
import sys, json, warnings
warnings.filterwarnings('ignore')
sys.path.insert(0, %r); sys.path.insert(0, %r)
OK = None; OBSERVED = ''
try:
%s
except Exception as _e:
    import traceback
    OK = False; OBSERVED = 'raised ' + type(_e).__name__ + ': ' + str(_e)[:500]
print('@@REPLAY@@' + json.dumps({'ok': OK, 'observed': str(OBSERVED)[:2000]}))
"""


def run_code(code: str, timeout: float = 120.0):
    body = "\n".join("    " + l for l in code.strip("\n").split("\n"))
    prog = _PRE % (core.ROOT, core.SRC, body)
    try:
        p = subprocess.run([sys.executable, "-c", prog], capture_output=True, text=True, timeout=timeout)
    except subprocess.TimeoutExpired:
        return None, f"replay timed out after {timeout}s"
    for line in p.stdout.splitlines()[::-1]:
        if line.startswith("@@REPLAY@@"):
            d = json.loads(line[len("@@REPLAY@@"):])
            return d["ok"], d["observed"]
    return None, "replay produced no verdict: " + (p.stderr or p.stdout)[-800:]


def replay_dict(code: str, expected: str, timeout: float = 120.0):
    """Run a replay and package it for Outcome.replay. reproduced=True iff the real code
    violates the property on this input (OK is False)."""
    ok, observed = run_code(code, timeout)
    return {"code": code, "expected": expected, "observed": observed,
            "reproduced": (ok is False)}
