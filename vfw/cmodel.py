"""Abstract model of gates / gate operations / matrices for Engine V proofs about circuits of ANY length.

A gate operation is an element of the uninterpreted sort Obj built by the constructor function
    OP(gate, qubit-array, arity)
with accessor axioms  gate_of(OP(g,a,n)) = g,  qs_len(OP(g,a,n)) = n,  qs_at(OP(g,a,n), t) = a[t];
`dagger`, `controlled(k)`, `lifted_matrix(n)` are uninterpreted functions (their matrix-level meaning is what the
Engine M obligations of C01/C07/C08 decide on concrete widths); `reduce(operator.matmul, L)` is the uninterpreted
left fold FOLD(L) which depends only on the listed elements (extensionality axiom, instantiated where used).
"""
from __future__ import annotations

import z3

from . import sym, vrt, vtypes
from .sym import Obj, SObj, SSeq, SInt, cur, lift

IntArr = z3.ArraySort(z3.IntSort(), z3.IntSort())
ObjArr = z3.ArraySort(z3.IntSort(), Obj)
OP = z3.Function("GateOperation", Obj, IntArr, z3.IntSort(), Obj)
GATE_OF = z3.Function("gate_of", Obj, Obj)
QS_LEN = z3.Function("qs_len", Obj, z3.IntSort())
QS_AT = z3.Function("qs_at", Obj, z3.IntSort(), z3.IntSort())
IS_GATE_OP = z3.Function("is_gate_operation", Obj, z3.BoolSort())
DAGGER = z3.Function("Gate.dagger", Obj, Obj)
CONTROLLED = z3.Function("Gate.controlled", Obj, z3.IntSort(), Obj)
LIFT = z3.Function("lifted_matrix", Obj, z3.IntSort(), Obj)
FOLD = z3.Function("reduce_matmul", ObjArr, z3.IntSort(), Obj)
EYE = z3.Function("eye", z3.IntSort(), Obj)
BIND = z3.Function("Operation.bind", Obj, Obj, Obj)


def axioms():
    c = cur()
    if "cmodel" in c.axioms_done:
        return
    c.axioms_done.add("cmodel")
    g = z3.Const("g!ax", Obj)
    a = z3.Const("a!ax", IntArr)
    n, t = z3.Ints("n!ax t!ax")
    o = z3.Const("o!ax2", Obj)
    c.axioms.append(z3.ForAll([g, a, n], z3.And(GATE_OF(OP(g, a, n)) == g, QS_LEN(OP(g, a, n)) == z3.If(n >= 0, n, 0), IS_GATE_OP(OP(g, a, n))), patterns=[OP(g, a, n)]))
    c.axioms.append(z3.ForAll([g, a, n, t], QS_AT(OP(g, a, n), t) == z3.Select(a, t), patterns=[QS_AT(OP(g, a, n), t)]))
    c.axioms.append(z3.ForAll([o], QS_LEN(o) >= 0, patterns=[QS_LEN(o)]))


def qubit_tuple(op_expr):
    return SSeq(("fun", sym.wrap_expr(QS_LEN(op_expr)), lambda t: sym.wrap_expr(QS_AT(op_expr, lift(t)))), "tuple")


def make_op(gate, qubits):
    """the model of `gate(*qubits)` / GateOperation(gate, qubits)"""
    axioms()
    qubits = qubits.seq if isinstance(qubits, vrt.Star) else qubits
    s = SSeq.of(qubits)
    arr, _ = sym.node_to_array(s.node)
    return SObj("GateOp", OP(lift(gate), arr, lift(s.length())))


def _gate_call(self):
    def call(*qs):
        if len(qs) == 1 and isinstance(qs[0], vrt.Star):
            return make_op(self, qs[0])
        return make_op(self, SSeq(("lit", list(qs)), "tuple"))
    return call


def fold(seq):
    s = SSeq.of(seq)
    arr, _ = sym.node_to_array(s.node)
    return SObj("Mat", FOLD(arr, lift(s.length())))


def fold_spec(n, elem):
    """FOLD over the sequence j -> elem(j), j < n, together with the extensionality instance that links it to any other
    array agreeing on [0, n) (used by postconditions)."""
    j = z3.Int("j!fold")
    c = cur()
    c.nofork += 1
    try:
        body = lift(elem(SInt(j)))
    finally:
        c.nofork -= 1
    arr = z3.Lambda([j], body)
    return arr, SObj("Mat", FOLD(arr, lift(n)))


def fold_equal(value, n, elem):
    """formula: `value` is FOLD of the n-element sequence elem(0..n-1); discharged through extensionality of FOLD"""
    arr_spec, spec = fold_spec(n, elem)
    v = lift(value)
    # value is FOLD(arr_code, n) for the array the code built; extensionality: equal elements on [0,n) => equal folds
    c = cur()
    q = z3.Int(f"q!ext{c.n}")
    c.n += 1
    # find the code-side array: value must syntactically be FOLD(a, m)
    if z3.is_app(v) and v.decl().name() == "reduce_matmul":
        a, m = v.arg(0), v.arg(1)
        same = z3.And(m == lift(n), z3.ForAll([q], z3.Implies(z3.And(q >= 0, q < lift(n)), z3.Select(a, q) == z3.Select(arr_spec, q)), patterns=[z3.Select(a, q)]))
        return sym.wrap_expr(same)
    return sym.wrap_expr(v == spec.e)


def install():
    sym.OBJ_SCHEMAS["GateOp"] = {
        "gate": lambda self: SObj("Gate", GATE_OF(self.e)),
        "qubit_indices": lambda self: qubit_tuple(self.e),
        "lifted_matrix": lambda self: (lambda n: SObj("Mat", LIFT(self.e, lift(n)))),
        "bind": lambda self: (lambda m: SObj("GateOp", BIND(self.e, lift(m)))),
    }
    sym.OBJ_SCHEMAS["Gate"] = {
        "dagger": lambda self: SObj("Gate", DAGGER(self.e)),
        "controlled": lambda self: (lambda k: SObj("Gate", CONTROLLED(self.e, lift(k)))),
        "__call__": _gate_call,
    }
    from . import vcontract

    def is_gate_op(x, ts):
        names = {getattr(t, "__name__", "") for t in ts}
        if "GateOperation" in names:
            return sym.wrap_expr(IS_GATE_OP(x.e))
        return False
    vcontract.ISINSTANCE_HOOKS["GateOp"] = is_gate_op


class NP:
    @staticmethod
    def eye(n):
        return SObj("Mat", EYE(lift(n)))


def reduce_stub(fn, seq, *init):
    if init:
        raise sym.Unsupported("reduce with initial value")
    return fold(seq)


SPEC = {
    "GATE": lambda o: SObj("Gate", GATE_OF(lift(o))),
    "DAGGER": lambda g: SObj("Gate", DAGGER(lift(g))),
    "CONTROLLED": lambda g, k: SObj("Gate", CONTROLLED(lift(g), lift(k))),
    "QLEN": lambda o: sym.wrap_expr(QS_LEN(lift(o))),
    "QAT": lambda o, t: sym.wrap_expr(QS_AT(lift(o), lift(t))),
    "IS_GATE": lambda o: sym.wrap_expr(IS_GATE_OP(lift(o))),
    "LIFT": lambda o, n: SObj("Mat", LIFT(lift(o), lift(n))),
    "EYE": lambda n: SObj("Mat", EYE(lift(n))),
    "IS_FOLD": fold_equal,
    "BIND": lambda o, m: SObj("GateOp", BIND(lift(o), lift(m))),
}


# ------------------------------------------------------------------------------------------------
# contracts on the real Circuit methods (all circuit lengths, all register widths)

CIRC = "orquestra.quantum.circuits._circuit"
OPS_EQ = ("QLEN({r}) == QLEN({o}) and all(QAT({r}, t) == QAT({o}, t) for t in range(QLEN({o})))")


def contracts():
    from . import vcontract as vc
    install()
    rev = "ops[len(ops) - 1 - j]"
    c_unitary = vc.Contract(
        key=CIRC + ":Circuit.to_unitary", params={"self": "Any"},
        requires="n >= 0", ghost={"ops": "self._operations", "n": "self._n_qubits"},
        raises={"ValueError": "not all(IS_GATE(o) for o in ops)"},
        ensures=f"implies(len(ops) == 0, result == EYE(2 ** n)) and implies(len(ops) > 0, IS_FOLD(result, len(ops), lambda j: LIFT({rev}, n)))",
        loops={"for#0": {"invariant": f"len(lifted_matrices) == k and all(IS_GATE({rev}) and lifted_matrices[j] == LIFT({rev}, n) for j in range(k))",
                         "types": {"lifted_matrices": "List[Obj:Mat]"}}},
        spec=dict(SPEC),
        doc="to_unitary = reduce(matmul) over [lift(op_{m-1}), ..., lift(op_0)]: the right-to-left product in program order on the circuit's own width; "
            "identity of the register size for an empty circuit; ValueError iff some operation is not a gate operation")
    c_inverse = vc.Contract(
        key=CIRC + ":Circuit.inverse", params={"self": "Any"},
        requires="n >= 1", ghost={"ops": "self._operations", "n": "self._n_qubits"},
        raises={"AssertionError": "not all(IS_GATE(o) for o in ops)"},
        ensures="result.n_qubits == n and len(result.operations) == len(ops) and all(GATE(result.operations[j]) == DAGGER(GATE(" + rev + ")) and "
                + OPS_EQ.format(r="result.operations[j]", o=rev) + " for j in range(len(ops)))",
        spec=dict(SPEC),
        doc="inverse: same width, operation j is the dagger of operation m-1-j on exactly the same qubit tuple")
    shifted = "(QAT(ops[j], t) + 1 if QAT(ops[j], t) >= control_index else QAT(ops[j], t))"
    ctrl_item = ("GATE({r}) == CONTROLLED(GATE(ops[j]), 1) and QLEN({r}) == QLEN(ops[j]) + 1 and QAT({r}, 0) == control_index and "
                 "all(QAT({r}, t + 1) == " + shifted + " for t in range(QLEN(ops[j])))")
    c_controlled = vc.Contract(
        key=CIRC + ":Circuit.controlled", params={"self": "Any", "control_index": "Int"},
        requires="n >= 1 and control_index >= 0", ghost={"ops": "self._operations", "n": "self._n_qubits"},
        ensures="result.n_qubits == max(n, control_index) + 1 and len(result.operations) == len(ops) and all(" + ctrl_item.format(r="result.operations[j]") + " for j in range(len(ops))) "
                "and all(" + shifted + " != control_index for j in range(len(ops)) for t in range(QLEN(ops[j])))",
        loops={"for#0": {"invariant": "len(c_ops) == k and all(" + ctrl_item.format(r="c_ops[j]") + " for j in range(k))", "types": {"c_ops": "List[Obj:GateOp]"}}},
        spec=dict(SPEC),
        doc="controlled(k): width max(n,k)+1, operation j is gate_j.controlled(1) on (k, shifted qubits of op j) in the same order; the shift never produces k")
    c_append = vc.Contract(
        key=CIRC + ":_append_circuit", params={"other": "Any", "circuit": "Any"},
        requires="circuit._n_qubits >= 1 and other._n_qubits >= 1",
        ensures="result.n_qubits == max(circuit._n_qubits, other._n_qubits) and len(result.operations) == len(circuit._operations) + len(other._operations) and "
                "all(result.operations[j] == circuit._operations[j] for j in range(len(circuit._operations))) and "
                "all(result.operations[len(circuit._operations) + j] == other._operations[j] for j in range(len(other._operations)))",
        spec=dict(SPEC), doc="c1 + c2: operations of c1 followed by those of c2, width = the larger width")
    c_bind = vc.Contract(
        key=CIRC + ":Circuit.bind", params={"self": "Any", "symbols_map": "Obj:SymbolMap"},
        requires="n >= 1", ghost={"ops": "self._operations", "n": "self._n_qubits"},
        ensures="result.n_qubits == n and len(result.operations) == len(ops) and all(result.operations[j] == BIND(ops[j], symbols_map) for j in range(len(ops))) "
                "and len(self._operations) == len(ops) and self._n_qubits == n",
        spec=dict(SPEC), doc="Circuit.bind maps bind over the operations in order with the same map and keeps the register width, whatever the circuit contains")
    return {"to_unitary": c_unitary, "inverse": c_inverse, "controlled": c_controlled, "append": c_append, "bind": c_bind}


def mk_circuit(ns, name="circuit"):
    Circ = ns["Circuit"]
    c = Circ.__new__(Circ)
    c._operations = vtypes.mk("List[Obj:GateOp]", f"{name}.operations")
    c._n_qubits = vtypes.mk("Int", f"{name}.n_qubits")
    cur().inputs[f"{name}.n_qubits"] = c._n_qubits
    cur().inputs[f"{name}.len"] = c._operations.length()
    return c


def overrides():
    return {"np": NP, "reduce": reduce_stub}


# ------------------------------------------------------------------------------------------------
# native replay of a (candidate) counter-model: concrete circuits with the lengths / widths of the model

_PRE = """
import numpy as np
from orquestra.quantum.circuits import Circuit, X, T, RX, CNOT, S
def mk(length, width):
    length = max(0, min(int(length), 6)); width = max(1, min(int(width), 5))
    pool = [X(0), T(0), RX(0.3)(0), S(0)] + ([CNOT(0, 1)] if width > 1 else [])
    return Circuit([pool[j % len(pool)] for j in range(length)], n_qubits=width)
"""


def _num(model, key, default):
    v = model.get(key, default)
    return v if isinstance(v, int) and not isinstance(v, bool) else default


def replay(kind):
    def code(model):
        if kind == "append":
            return _PRE + f"""
c1, c2 = mk({_num(model, 'circuit.len', 1)}, {_num(model, 'circuit.n_qubits', 1)}), mk({_num(model, 'other.len', 0)}, {_num(model, 'other.n_qubits', 2)})
s = c1 + c2
OK = bool(s.n_qubits == max(c1.n_qubits, c2.n_qubits) and list(s.operations) == list(c1.operations) + list(c2.operations))
OBSERVED = f"Circuit({{len(c1.operations)}} ops, n_qubits={{c1.n_qubits}}) + Circuit({{len(c2.operations)}} ops, n_qubits={{c2.n_qubits}}) has width {{s.n_qubits}} and {{len(s.operations)}} operations"
"""
        L, W = _num(model, "self.len", 2), _num(model, "self.n_qubits", 2)
        if kind == "to_unitary":
            return _PRE + f"""
c = mk({L}, {W})
U = np.array(c.to_unitary(), dtype=complex)
V = np.eye(2 ** c.n_qubits, dtype=complex)
for op in c.operations:
    V = np.array(op.lifted_matrix(c.n_qubits), dtype=complex) @ V
OK = bool(U.shape == V.shape and np.allclose(U, V, atol=1e-9))
OBSERVED = f"to_unitary of {{len(c.operations)}} operations on {{c.n_qubits}} qubits: shape {{U.shape}}, deviation from the ordered product {{abs(U - V).max() if U.shape == V.shape else 'n/a'}}"
"""
        if kind == "inverse":
            return _PRE + f"""
c = mk({L}, {W})
i = c.inverse()
OK = bool(i.n_qubits == c.n_qubits and [(o.gate, o.qubit_indices) for o in i.operations] == [(o.gate.dagger, o.qubit_indices) for o in reversed(c.operations)])
OBSERVED = f"inverse of {{c}} is {{i}}"
"""
        if kind == "controlled":
            k = _num(model, "control_index", 0)
            return _PRE + f"""
c = mk({L}, {W}); k = max(0, min({k}, 7))
cc = c.controlled(k)
sh = lambda q: q + 1 if q >= k else q
OK = bool(cc.n_qubits == max(c.n_qubits, k) + 1 and [(o.gate, o.qubit_indices) for o in cc.operations] == [(o.gate.controlled(1), (k,) + tuple(sh(q) for q in o.qubit_indices)) for o in c.operations])
OBSERVED = f"controlled({{k}}) of {{c}} (width {{c.n_qubits}}) is {{cc}} (width {{cc.n_qubits}})"
"""
        if kind == "bind":
            return _PRE + f"""
import sympy
th = sympy.Symbol("theta")
c = mk({L}, {W}) + Circuit([RX(th)(0)])
c = Circuit(list(c.operations), n_qubits={max(1, min(W, 5))} + 1)
b = c.bind({{sympy.Symbol("other"): 1.0}})
b2 = c.bind({{th: 0.5}})
OK = bool(b.n_qubits == c.n_qubits and list(b.operations) == [o.bind({{sympy.Symbol("other"): 1.0}}) for o in c.operations]
          and b2.n_qubits == c.n_qubits and list(b2.operations) == [o.bind({{th: 0.5}}) for o in c.operations])
OBSERVED = f"bind of a circuit of width {{c.n_qubits}} gives widths {{b.n_qubits}}, {{b2.n_qubits}}"
"""
        return None
    return code
