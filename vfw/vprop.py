"""Glue between Engine V and the obligation runner: one Ob per function under contract."""
from __future__ import annotations

import json
import time
from typing import Any, Callable, Dict, Iterable, List, Optional

from . import core, vcontract as vc, vnative, replay as rp
from .core import Ob


def fn_ob(prop: str, c: vc.Contract, callees: Dict[str, vc.Contract] = None, call=None, *,
          obid: Optional[str] = None, desc: str = "", overrides=None, setup=None, post_env=None,
          replay_code: Optional[Callable[[dict], Optional[str]]] = None, expected: str = "",
          fallback: Optional[Callable[[], core.Outcome]] = None, max_paths=400, timeout_ms=20000,
          extra_stubs: Optional[Callable[[], Dict[str, Any]]] = None, tier="quick", ob_timeout=300.0,
          finding_keys: Optional[Dict[str, str]] = None) -> Ob:
    """callees: global name (or 'Class.method') in the target's module -> contract used as a stub."""
    callees = callees or {}
    name = c.qualname.split(".")[-1]
    if call is None:
        pn = list(c.params)
        call = lambda ns, a: _lookup(ns, c.qualname)(*[a[p] for p in pn])

    def _candidate_replay(fr, names):
        """z3 cannot certify `sat` under quantified axioms: the candidate counter-model of the quantifier-free core of an undecided obligation is
        used as an input to a native replay of the real code - only a failure REPRODUCED natively counts"""
        if replay_code is None:
            return None
        for n in names:
            d = fr.obligations[n]
            cand = d.get("candidate") if d["status"] == "undecided" else None
            if not cand:
                continue
            try:
                code = replay_code(cand)
            except Exception:
                code = None
            if not code:
                continue
            rep = rp.replay_dict(code, expected or c.ensures)
            if rep.get("reproduced"):
                fk = (finding_keys or {}).get(n.split("#")[0], "")
                return core.refuted("z3-candidate+native-replay", f"obligation {n} undecided by z3; its candidate counter-model {json.dumps(cand, default=str)[:300]} "
                                    f"fails natively: {rep.get('observed')}", cex={"obligation": n, "candidate_model": cand}, replay=rep, finding_key=fk,
                                    seconds=fr.seconds, queries=fr.vcs)
        return None

    def run():
        t0 = time.time()
        try:
            sh = vc.Shadow(c.module, overrides)

            def make_ns():
                stubs = {n: vc.make_stub(cc, vc.EXC_NS, c.qualname) for n, cc in callees.items()}
                if extra_stubs:
                    stubs.update(extra_stubs())
                return sh.build(c, stubs)
            fr = vc.verify(c, call, make_ns, max_paths=max_paths, timeout_ms=timeout_ms, setup=setup, post_env=post_env)
        except vc.Unsupported as e:
            return core.undecided("engine-V", str(e), time.time() - t0)
        names = sorted(fr.obligations)
        if fr.undecided_reason:
            rep_out = _candidate_replay(fr, names)
            if rep_out is not None:
                return rep_out
            return core.undecided("engine-V", f"{fr.undecided_reason} (after {fr.paths} paths, {fr.vcs} VCs)", fr.seconds)
        if not names:
            return core.undecided("engine-V", "no obligation generated (vacuity guard)", fr.seconds)
        if c.never_returns and not fr.canary_ok and any(".raises[" in n and ".only-when" in n for n in names):
            pass        # every path ended in the specified exception and the condition was checked on each: nothing vacuous
        elif not fr.canary_ok:
            return core.undecided("engine-V", "canary: no normal exit of the function is reachable under the precondition "
                                  "(contradictory requires / assumed contracts?)", fr.seconds)
        bad = [n for n in names if fr.obligations[n]["status"] == "refuted"]
        und = [n for n in names if fr.obligations[n]["status"] == "undecided"]
        inv_bad = [n for n in names if (".invariant-init" in n or ".invariant-preserved" in n) and fr.obligations[n]["status"] != "discharged"]
        if inv_bad:
            # a sidecar invariant that is not inductive for the CURRENT text means the loop cut is not justified: nothing that was derived after the cut (in
            # particular a 'refuted' postcondition) says anything about the code.  This is a failed proof, not a counterexample: the bounded oracle of the same
            # contract decides, and only an input it reproduces natively becomes a violation.
            rep_out = _candidate_replay(fr, names)
            if rep_out is not None:
                return rep_out
            d0 = fr.obligations[inv_bad[0]]
            return core.undecided("engine-V", f"the sidecar loop invariant is not inductive for the current text ({inv_bad[0]}: {d0['status']}; "
                                  f"counter-model {json.dumps(d0.get('model'), default=str)[:200]}): loop cut not justified, no verdict from the VCs", fr.seconds)
        if bad:
            n0 = bad[0]
            d = fr.obligations[n0]
            model = d.get("model")
            rep = None
            if replay_code is not None:
                try:
                    code = replay_code(model or {})
                except Exception as e:  # building the concrete input failed
                    code = None
                if code:
                    rep = rp.replay_dict(code, expected or c.ensures)
            if rep is None and fallback is not None:
                # look for a concrete failing input with the bounded oracle of the same contract
                try:
                    fbo = fallback()
                    if fbo.status == "bounded-fail":
                        rep = fbo.replay
                        model = {"solver_model": model, "failing_case_found_by_enumeration": fbo.cex}
                except Exception:
                    pass
            fk = (finding_keys or {}).get(n0.split("#")[0], "")
            if rep is not None and rep.get("reproduced") is False and "timed out" not in str(rep.get("observed")) and "no verdict" not in str(rep.get("observed")):
                # the solver's counter-model was turned into a concrete input and the REAL code satisfies the contract on it: the refutation is an artefact of
                # the abstraction (opaque callees, havoced loops).  Only refutations that replay on the real code are trusted; the bounded oracle decides.
                fbo = None
                if fallback is not None:
                    try:
                        fbo = fallback()
                    except Exception:
                        fbo = None
                if fbo is not None and fbo.status == "bounded-fail":
                    return core.refuted("z3+native-enumeration", f"obligation {n0} fails; the solver's input did not reproduce, the bounded oracle found: {fbo.detail[:300]}",
                                        cex=fbo.cex, replay=fbo.replay, finding_key=fk, seconds=fr.seconds, queries=fr.vcs)
                return core.undecided("z3", f"obligation {n0} is refuted by the solver, but its counter-model {json.dumps(model, default=str)[:200]} replayed on the real code "
                                      f"satisfies the contract ({str(rep.get('observed'))[:150]}): spurious under the abstraction", fr.seconds)
            return core.refuted("z3", f"obligation {n0} fails: {d.get('detail','')[:200]} | counter-model {json.dumps(model, default=str)[:400]}",
                                cex={"obligation": n0, "model": model, "all_failed": bad}, replay=rep, finding_key=fk,
                                seconds=fr.seconds, queries=fr.vcs)
        if und:
            rep_out = _candidate_replay(fr, names)
            if rep_out is not None:
                return rep_out
            return core.undecided("z3", f"{und[0]}: {fr.obligations[und[0]].get('detail','')[:300]}", fr.seconds)
        backends = sorted({b for n in names for b in fr.obligations[n]["backends"]})
        return core.discharged("+".join(backends), fr.seconds, queries=fr.vcs,
                               sample={"function_text": fr.span, "paths": fr.paths, "vcs": fr.vcs,
                                       "obligations": names[:40], "contract": {"requires": c.requires, "ensures": c.ensures,
                                                                               "raises": c.raises, "loops": {k: v.get("invariant") for k, v in c.loops.items()}}})
    return Ob(obid or f"{prop}.{name}.contract", "proof", [c.key] + [cc.key for cc in callees.values()], run,
              desc or f"{c.qualname} meets its contract for all inputs: requires {c.requires} / ensures {c.ensures}"[:600],
              timeout=ob_timeout, tier=tier, assumes=list(c.assumes), fallback=fallback)


class _CaseTimeout(BaseException):
    pass


def _lookup(ns, qualname):
    obj = ns[qualname.split(".")[0]]
    for p in qualname.split(".")[1:]:
        obj = getattr(obj, p)
    return obj


def _generic_case_replay(check, case):
    """python text re-running a module-level check function on one enumerated case (if the case has an eval-able repr)"""
    try:
        from fractions import Fraction
        if eval(repr(case), {"Fraction": Fraction, "inf": float("inf"), "nan": float("nan")}) != case or "<" in check.__qualname__:
            return None
    except Exception:
        return None
    return (f"import importlib\nfrom fractions import Fraction\nm = importlib.import_module({check.__module__!r})\n"
            f"OK, OBSERVED = m.{check.__name__}({case!r})\nOK = bool(OK)")


def enum_ob(obid: str, functions: List[str], cases: Callable[[], Iterable[Any]], check: Callable[[Any], tuple],
            desc: str, replay_code: Optional[Callable[[Any], str]] = None, expected="", tier="quick",
            timeout=300.0, finding_key: Optional[Callable[[Any], str]] = None, exhaustive=True, case_timeout: Optional[int] = None, time_budget: Optional[float] = None) -> Ob:
    """bounded stand-in: run `check(case) -> (ok|None, observed)` on every enumerated case.  With case_timeout, a single case that runs longer
    (sympy can take minutes on an unlucky expression) is skipped and counted as such - slowness is never a verdict."""
    def run_case(case):
        if not case_timeout:
            return check(case)
        import signal
        old_handler = signal.getsignal(signal.SIGALRM)
        remaining = signal.alarm(0)
        t1 = time.time()

        def on_alarm(signum, frame):
            raise _CaseTimeout()
        signal.signal(signal.SIGALRM, on_alarm)
        signal.alarm(max(1, min(case_timeout, remaining - 2) if remaining else case_timeout))
        try:
            return check(case)
        except _CaseTimeout:
            return None, f"skipped: slower than {case_timeout}s"
        finally:
            signal.alarm(0)
            signal.signal(signal.SIGALRM, old_handler)
            if remaining:
                signal.alarm(max(1, remaining - int(time.time() - t1)))

    def run():
        try:
            return _run()
        except core._Timeout:
            # the obligation's time limit ended the enumeration: slowness (a loaded machine, a slow sympy call) is never a verdict - the cases that were
            # judged all passed, the evidence says how many and that the stated domain was not exhausted
            n = _progress["n"]
            if n == 0:
                raise
            return core.bounded_pass(f"{n} cases, then stopped by the time limit ({_progress['skipped']} outside the precondition)", n, time.time() - _progress["t0"],
                                     sample={"first_case": _progress["first"], "cases": n, "exhaustive_over_stated_domain": False, "stopped_by_time_limit": True})

    _progress = {"n": 0, "skipped": 0, "first": None, "t0": time.time()}

    def _run():
        t0 = time.time()
        _progress.update(n=0, skipped=0, first=None, t0=t0)
        n = 0
        skipped = 0
        first = None
        for case in cases():
            _progress.update(n=n, skipped=skipped, first=first)
            if time_budget and n and time.time() - t0 > time_budget:
                break           # a sampled (non-exhaustive) family: stop drawing further cases when the time budget is used; the evidence reports how many were run
            try:
                ok, obs = run_case(case)
            except core._Timeout:
                raise
            except Exception as e:  # the real code raised where the contract allows no exception
                import traceback
                ok, obs = False, "raised " + type(e).__name__ + ": " + str(e)[:200] + " @ " + traceback.format_exception(e)[-2].strip()[:200]
            if ok is None:
                skipped += 1
                continue
            n += 1
            if first is None:
                first = repr(case)[:200]
            if not ok:
                rep = None
                if replay_code is not None:
                    rep = rp.replay_dict(replay_code(case), expected)
                else:
                    code = _generic_case_replay(check, case)
                    rep = rp.replay_dict(code, expected or desc) if code else \
                        {"code": None, "expected": expected, "observed": obs, "reproduced": True}
                return core.bounded_fail(f"case {case!r:.300}: {obs}", cex={"case": repr(case)[:1000]}, replay=rep,
                                         finding_key=finding_key(case) if finding_key else "", seconds=time.time() - t0, queries=n)
        if n == 0:
            return core.Outcome("error", "native-enumeration", time.time() - t0, "zero cases enumerated (vacuity guard)")
        return core.bounded_pass(f"{n} cases ({skipped} outside the precondition)", n, time.time() - t0,
                                 sample={"first_case": first, "cases": n, "exhaustive_over_stated_domain": exhaustive})
    return Ob(obid, "bounded", functions, run, desc, timeout=timeout, tier=tier)


def random_ob(prop: str, tier: str, seed: int) -> Optional[Ob]:
    """seeded-random combination cases for the property (vfw/rcheck.py): a bounded stand-in, never counted as proof"""
    from . import rcheck
    if prop not in rcheck.PLAN:
        return None
    nq, nt, fns = rcheck.PLAN[prop]
    n = nq if tier == "quick" else nt
    base = int(seed) * 10 ** 6
    return enum_ob(f"{prop}.random.enum", fns, lambda: range(base, base + n), getattr(rcheck, "check_" + prop),
                   f"bounded: {n} seeded-random combination cases (seed {seed}) - " + rcheck.doc(prop), exhaustive=False, timeout=1500, case_timeout=45, time_budget=700)


def anchor_modules(prop: str) -> List[str]:
    import os
    mods = []
    for l in open(os.path.join(core.ROOT, "properties.jsonl")):
        d = json.loads(l)
        if d["id"] == prop:
            mods = [f[len("src/"):-3].replace("/", ".") for f in d["anchors"]["files"]]
    return mods


def frames_ob(prop: str) -> Ob:
    """Frame conditions (modifies clauses) on EVERY function of the modules the property is anchored in: a function may write only
    the targets pinned in contracts/frames.json (derived from the reviewed tree: constructors, the documented in-place helpers,
    the runners' counters, the three ghost caches) and carries no memoisation decorator beyond the three pinned ones.  A query
    that starts keeping state between calls (a cache on self / in a module dictionary / lru_cache), or a function that starts
    writing through an argument, fails this obligation."""
    from . import frame
    mods = anchor_modules(prop)

    def run():
        t0 = time.time()
        st, txt, bad, n = frame.frames_outcome(mods)
        if st == "discharged":
            return core.discharged("engine-F", time.time() - t0, queries=n, sample={"functions_checked": n, "modules": mods})
        return core.refuted("engine-F", "frame (modifies clause) violated: " + txt, cex={"violations": bad[:20]}, seconds=time.time() - t0, queries=n,
                            finding_key="")
    return Ob(f"{prop}.frames.all", "proof", [m + ":*" for m in mods], run,
              "every function of the anchored modules writes only what its pinned frame (modifies clause) allows - no new state kept between calls "
              "(instance / module caches, memoisation decorators), no new writes through arguments", timeout=300)
