"""Engine V, part 4: the run-time helper object `__vfw` that rewritten code calls, the rebound builtins, and
the formula builders used by contract expressions."""
from __future__ import annotations

import builtins
import itertools
from typing import Any

import z3

from . import sym, vtypes
from .sym import SSeq, SInt, SReal, SBool, SObj, Sym, Unsupported, PathEnd, cur, lift, fml


class _Unbound:
    def __repr__(self):
        return "<UNBOUND>"


UNBOUND = _Unbound()


class Poison:
    """value of a variable that a cut loop may have assigned but whose type is unknown; any use is unsupported"""

    def __init__(self, name):
        object.__setattr__(self, "_n", name)

    def _bad(self, *a, **k):
        raise Unsupported(f"use of loop-modified variable {object.__getattribute__(self, '_n')!r} without a declared havoc type")

    __getattr__ = __call__ = __iter__ = __len__ = __bool__ = __add__ = __radd__ = __getitem__ = __eq__ = _bad


# ------------------------------------------------------------------------------------------
# iterables for cut loops / comprehensions

class SIter:
    """indexable view used by loops: length + get(k)"""

    def __init__(self, length, get, concrete=None):
        self.length = length
        self.get = get
        self.concrete = concrete  # python list when fully concrete


def loop_iter(x) -> SIter:
    if isinstance(x, SIter):
        return x
    if isinstance(x, SSeq):
        n = x.length()
        if isinstance(n, int):
            return SIter(n, x.get, [x.get(i) for i in range(n)])
        return SIter(n, x.get)
    if isinstance(x, SCursor):
        raise Unsupported("loop directly over a shared symbolic iterator")
    if isinstance(x, SDict):
        return loop_iter(x.keys())
    if isinstance(x, SSetView):
        return loop_iter(x.order())
    if isinstance(x, SObj):
        sch = sym.OBJ_SCHEMAS.get(x.cls) or {}
        if "__iter__" in sch:
            return loop_iter(sch["__iter__"](x))
        raise Unsupported(f"iteration over an opaque object of class {x.cls!r}")
    if isinstance(x, (list, tuple, range, str, dict, set, frozenset)) or hasattr(x, "__iter__"):
        items = list(x)
        return SIter(len(items), lambda i: items[i] if isinstance(i, int) else SSeq.of(items).get(i), items)
    raise Unsupported(f"cannot iterate {type(x).__name__}")


def v_zip(*xs, strict=False):
    its = [loop_iter(x) for x in xs]
    if all(i.concrete is not None for i in its):
        return list(zip(*[i.concrete for i in its]))
    n = its[0].length
    for i in its[1:]:
        m = i.length
        if isinstance(n, int) and isinstance(m, int):
            n = min(n, m)
        else:
            n = sym.wrap_expr(z3.If(lift(n) <= lift(m), lift(n), lift(m)))
    return SSeq(("fun", n, lambda k: tuple(i.get(k) for i in its)), "tuple")


def zip_star(x):
    """zip(*x) for a sequence x of equal-arity tuples: the transpose"""
    if not isinstance(x, SSeq) or isinstance(x.length(), int):
        return builtins.zip(*x)
    n = x.length()
    if not cur().decide(lift(n) > 0):
        return builtins.zip()
    first = x.get(0)
    if not isinstance(first, tuple):
        raise Unsupported("zip(*seq) over non-tuple elements")
    return tuple(SSeq(("fun", n, (lambda k, i=i: x.get(k)[i])), "tuple") for i in range(len(first)))


class Star:
    """a symbolic sequence passed as *args to a callable that models the call itself (schema callables of opaque objects)"""

    def __init__(self, seq):
        self.seq = seq


def star_call(f, before, star, after, kw):
    if isinstance(star, SCursorSlice):
        star = star.materialize()
    if isinstance(star, SSeq) and not isinstance(star.length(), int):
        return f(*before, Star(star), *after, **kw)
    if isinstance(star, SObj) and "__iter__" not in (sym.OBJ_SCHEMAS.get(star.cls) or {}):
        return f(*before, Star(star), *after, **kw)          # an opaque argument tuple: the callee's model sees it as one object
    return f(*before, *star, *after, **kw)


def ite_elt(test, a, b):
    if isinstance(test, Sym):
        return sym.ite_value(fml(test), a(), b)
    return a() if test else b()


def display(kind, parts):
    """[*a, x, *b] / (x, *a) displays: concatenation when a starred part is symbolic"""
    if not any(t == "s" and isinstance(v, (SSeq, SCursorSlice)) for t, v in parts):
        out = []
        for t, v in parts:
            if t == "s":
                out.extend(v)
            else:
                out.append(v)
        return out if kind == "list" else builtins.tuple(out)
    node = ("lit", [])
    for t, v in parts:
        if t == "s":
            if isinstance(v, SCursorSlice):
                v = v.materialize()
            node = ("cat", node, SSeq.of(v if isinstance(v, SSeq) else builtins.list(v)).node)
        else:
            node = ("cat", node, ("lit", [v]))
    return SSeq(node, kind)


def v_enumerate(x, start=0):
    it = loop_iter(x)
    if it.concrete is not None and not isinstance(start, Sym):
        return list(enumerate(it.concrete, start))
    return SSeq(("fun", it.length, lambda k: (k + start, it.get(k))), "tuple")


def v_range(*a):
    if all(isinstance(x, int) and not isinstance(x, bool) or isinstance(x, bool) for x in a):
        return range(*a)
    if len(a) == 1:
        lo, hi = 0, a[0]
    elif len(a) == 2:
        lo, hi = a
    else:
        raise Unsupported("range with symbolic bounds and a step")
    d = hi - lo
    n = d if isinstance(d, int) else sym.wrap_expr(z3.If(lift(d) > 0, lift(d), 0))
    if isinstance(n, int):
        n = max(n, 0)
    return SSeq(("fun", n, lambda k: lo + k), "tuple")


def v_reversed(x):
    if isinstance(x, SSeq):
        return sym.seq_reverse(x)
    return builtins.reversed(x)


def v_len(x):
    if isinstance(x, SSeq):
        return x.length()
    if isinstance(x, (SDict, SSetView)):
        return x.size()
    if isinstance(x, SObj):
        sch = sym.OBJ_SCHEMAS.get(x.cls) or {}
        if "__len__" in sch:
            return sch["__len__"](x)
        raise Unsupported(f"len() of an opaque object of class {x.cls!r}")
    return builtins.len(x)


def v_sum(x, start=0):
    if isinstance(x, SSeq):
        n = x.length()
        if isinstance(start, (list, SSeq)):
            # sum(list of lists, start=[])  == flatten
            return SSeq(("cat", SSeq.of(start).node, ("flat", x)), "list")
        return sym.seq_sum(x, start)
    if isinstance(x, SCursorSlice):
        return v_sum(x.materialize(), start)
    return builtins.sum(x, start)


def _fold_minmax(x, args, kw, is_max):
    if args:
        x = [x] + list(args)
    if isinstance(x, SCursorSlice):
        x = x.materialize()
    if isinstance(x, SSeq) and x.node[0] == "flat":
        # max / min over a nested generator: empty iff every inner sequence is empty; otherwise a value that bounds every element and is one of them
        outer = x.node[1]
        c = cur()
        c.n += 1
        i = z3.Int(f"i!mm{c.n}")
        c.nofork += 1
        try:
            inner = SSeq.of(outer.get(SInt(i)))
            inner_len = lift(inner.length())
            elem = inner.get(SInt(z3.Int(f"t!mm{c.n}")))
        finally:
            c.nofork -= 1
        nonempty = z3.Exists([i], z3.And(0 <= i, i < lift(outer.length()), inner_len > 0))
        if not c.decide(nonempty):
            raise ValueError("max() iterable argument is empty" if is_max else "min() iterable argument is empty")
        r = vtypes.mk(vtypes.type_of_value(elem) or ("int",), "max" if is_max else "min")
        c.assume(sym.seq_forall(x, (lambda v: r >= v) if is_max else (lambda v: r <= v)))
        c.assume(sym.seq_exists(x, lambda v: sym.val_eq(v, r)))
        return r
    if isinstance(x, SSeq) and not isinstance(x.length(), int):
        # result r with: r >= every element, r is one of the elements; empty raises ValueError
        n = x.length()
        if not cur().decide(lift(n) > 0):
            raise ValueError("max() iterable argument is empty" if is_max else "min() iterable argument is empty")
        first = x.get(0)
        r = vtypes.mk(vtypes.type_of_value(first) or ("int",), "max" if is_max else "min")
        c = cur()
        c.assume(sym.seq_forall(x, (lambda v: r >= v) if is_max else (lambda v: r <= v)))
        c.assume(sym.seq_exists(x, lambda v: sym.val_eq(v, r)))
        return r
    items = list(x)
    if not items:
        if "default" in kw:
            return kw["default"]
        raise ValueError("max() iterable argument is empty" if is_max else "min() iterable argument is empty")
    if not any(isinstance(v, Sym) for v in items):
        return (builtins.max if is_max else builtins.min)(items, **kw)
    r = items[0]
    for v in items[1:]:
        cond = (v > r) if is_max else (v < r)
        r = sym.ite_value(cond, v, lambda r=r: r)
    return r


def v_max(x, *args, **kw):
    return _fold_minmax(x, args, kw, True)


def v_min(x, *args, **kw):
    return _fold_minmax(x, args, kw, False)


def v_any(x):
    if isinstance(x, SSeq):
        return sym.wrap_expr(sym.seq_exists(x, lambda v: fml(v)))
    return builtins.any(x)


def v_all(x):
    if isinstance(x, SSeq):
        return sym.wrap_expr(sym.seq_forall(x, lambda v: fml(v)))
    return builtins.all(x)


def v_isinstance(x, t):
    ts = t if isinstance(t, tuple) else (t,)
    back = {v_int: int, v_float: float, v_list: list, v_tuple: tuple, v_bool: bool}
    ts = tuple(back.get(c, c) for c in ts)
    t = ts
    if isinstance(x, SBool):
        return any(c in (bool, int, object) for c in ts)
    if isinstance(x, SInt):
        import numbers
        return any(c in (int, object, numbers.Number, numbers.Integral, numbers.Real, numbers.Complex) for c in ts)
    if isinstance(x, SReal):
        import numbers
        return any(c in (float, object, numbers.Number, numbers.Real, numbers.Complex) for c in ts)
    if isinstance(x, SSeq):
        import collections.abc as cabc
        base = list if x.kind == "list" else tuple
        return any(c in (base, object, cabc.Sequence, cabc.Iterable, cabc.Sized, cabc.Collection) for c in ts)
    if isinstance(x, SObj):
        from . import vcontract
        hook = vcontract.ISINSTANCE_HOOKS.get(x.cls)
        if hook is not None:
            return hook(x, ts)
        return vcontract.sobj_isinstance(x, ts)
    return builtins.isinstance(x, t)


def v_tuple(x=()):
    if isinstance(x, SSeq):
        return SSeq(x.node, "tuple")
    if isinstance(x, SCursorSlice):
        return SSeq(x.materialize().node, "tuple")
    return builtins.tuple(x)


def v_list(x=()):
    if isinstance(x, SSeq):
        return SSeq(x.node, "list")
    if isinstance(x, SCursorSlice):
        return SSeq(x.materialize().node, "list")
    return builtins.list(x)


def v_int(x=0, *a):
    if isinstance(x, SInt):
        return x
    if isinstance(x, SBool):
        return sym.wrap_expr(z3.If(x.e, 1, 0))
    if isinstance(x, SReal):
        # truncation toward zero
        e = x.e
        return sym.wrap_expr(z3.If(e >= 0, z3.ToInt(e), -z3.ToInt(-e)))
    return builtins.int(x, *a)


def v_float(x=0.0):
    if isinstance(x, SReal):
        return x
    if isinstance(x, SInt):
        return SReal(z3.ToReal(x.e))
    return builtins.float(x)


def v_abs(x):
    return abs(x)


def v_bool(x=False):
    if isinstance(x, (Sym, SSeq)):
        return sym.wrap_expr(fml(x))
    return builtins.bool(x)


# ---- shared iterators (iter / islice) -------------------------------------------------------

class SCursor:
    """iter(seq): a cursor into a sequence; islice(it, k) consumes min(k, remaining)."""

    def __init__(self, seq):
        self.seq = SSeq.of(seq) if not isinstance(seq, SSeq) else seq
        self.pos = 0

    def __iter__(self):
        return self

    def __next__(self):
        n = self.seq.length()
        if isinstance(n, int) and isinstance(self.pos, int):
            if self.pos >= n:
                raise StopIteration
        elif not cur().decide(lift(self.pos) < lift(n)):
            raise StopIteration
        v = self.seq.get(self.pos)
        self.pos = self.pos + 1
        return v


class SCursorSlice:
    """islice(cursor, k) - lazily consumed; materialize() takes the elements and advances the cursor"""

    def __init__(self, cursor, k):
        self.cursor, self.k = cursor, k
        self._m = None

    def materialize(self) -> SSeq:
        if self._m is None:
            c = self.cursor
            n = c.seq.length()
            rem = n - c.pos
            k = self.k
            if isinstance(k, int) and k < 0:
                raise ValueError("Stop argument for islice() must be None or an integer: 0 <= x <= sys.maxsize.")
            if isinstance(k, SInt) and cur().decide(k.e < 0):
                raise ValueError("Stop argument for islice() must be None or an integer: 0 <= x <= sys.maxsize.")
            if isinstance(k, int) and isinstance(rem, int):
                take = min(k, max(rem, 0))
            else:
                take = sym.wrap_expr(z3.If(lift(k) <= lift(rem), lift(k), z3.If(lift(rem) > 0, lift(rem), 0)))
            start = c.pos
            self._m = sym.seq_slice(c.seq, start, start + take)
            self.lo, self.hi = start, start + take
            c.pos = start + take
        return self._m

    def __iter__(self):
        return iter(self.materialize())


def v_iter(x):
    if isinstance(x, SSeq):
        return SCursor(x)
    if isinstance(x, (SCursor,)):
        return x
    return builtins.iter(x)


def v_islice(it, *a):
    if isinstance(it, SSeq):
        it = SCursor(it)
    if isinstance(it, SCursor):
        if len(a) != 1:
            raise Unsupported("islice(start, stop) on symbolic iterator")
        return SCursorSlice(it, a[0])
    if any(isinstance(x, Sym) for x in a):
        if len(a) != 1:
            raise Unsupported("islice with symbolic bounds")
        return SCursorSlice(SCursor(SSeq.of(list(it))), a[0])
    return itertools.islice(it, *a)


# ---- dictionaries (functional map + key list) ---------------------------------------------

TUP = z3.Function("tuple_of", z3.ArraySort(z3.IntSort(), z3.IntSort()), z3.IntSort(), sym.Obj)


def box_key(k):
    """dictionary keys live in the sort Obj: opaque objects as they are, integer tuples through the constructor tuple_of(array, length)
    (equal arrays and lengths give equal keys; the proof holds for every equality on tuples that is a congruence, in particular the real one)"""
    if isinstance(k, SObj):
        return k.e
    if isinstance(k, (tuple, list)):
        k = SSeq.of(k)
    if isinstance(k, SSeq):
        arr, sort = sym.node_to_array(k.node)
        if sort != z3.IntSort():
            raise Unsupported("dictionary key tuple with non-integer entries")
        return TUP(arr, lift(k.length()))
    raise Unsupported(f"dictionary key of type {type(k).__name__}")


class SDict:
    """a dictionary with symbolic content: membership has : Obj -> Bool, values val : Obj -> V, and (for dictionaries given as input)
    the iteration order `keys` - a sequence of pairwise different members"""

    def __init__(self, valtype, has, val, keys=None):
        self.valtype, self.has, self.val, self.keyseq = valtype, has, val, keys

    def _v(self, e):
        return vtypes.wrap(self.valtype, e)

    def get(self, k, default=None):
        e = box_key(k)
        return sym.ite_value(z3.Select(self.has, e), self._v(z3.Select(self.val, e)), lambda: default)

    def __contains__(self, k):
        return cur().decide(z3.Select(self.has, box_key(k)))

    def __getitem__(self, k):
        e = box_key(k)
        if not cur().decide(z3.Select(self.has, e)):
            raise KeyError(k)
        return self._v(z3.Select(self.val, e))

    def __eq__(self, o):
        if isinstance(o, dict) and not o:
            n = self.size()
            return n == 0 if isinstance(n, int) else sym.wrap_expr(lift(n) == 0)
        if o is self:
            return True
        raise Unsupported("comparison of a symbolic dictionary with another value")

    __hash__ = None

    def vfw_concretize(self, m, cap=6):
        """[[key, value], ...] in iteration order (input dictionaries) under the model m"""
        if self.keyseq is None:
            return "<dictionary built by the code>"
        n = sym.concretize(self.keyseq.length(), m) if not isinstance(self.keyseq.length(), int) else self.keyseq.length()
        if not isinstance(n, int):
            return f"<dict len={n}>"
        out = []
        c = cur()
        c.nofork += 1
        try:
            for i in range(max(0, min(n, cap))):
                k = self.keyseq.get(i)
                out.append([sym.concretize(k, m), sym.concretize(self._v(z3.Select(self.val, lift(k))), m)])
        finally:
            c.nofork -= 1
        return out

    def __setitem__(self, k, v):
        e = box_key(k)
        self.val = z3.Store(self.val, e, lift(v) if not (self.val.sort().range() == z3.RealSort() and lift(v).sort() == z3.IntSort()) else z3.ToReal(lift(v)))
        self.has = z3.Store(self.has, e, z3.BoolVal(True))
        self.keyseq = None    # iteration order of a modified dictionary is not tracked

    def _need_keys(self):
        if self.keyseq is None:
            raise Unsupported("iteration over a dictionary whose key order is not tracked")
        return self.keyseq

    def keys(self):
        return self._need_keys()

    def values(self):
        ks = self._need_keys()
        return SSeq(("fun", ks.length(), lambda j: self._v(z3.Select(self.val, lift(ks.get(j))))), "tuple")

    def items(self):
        ks = self._need_keys()
        return SSeq(("fun", ks.length(), lambda j: (ks.get(j), self._v(z3.Select(self.val, lift(ks.get(j)))))), "tuple")

    def __iter__(self):
        return iter(self._need_keys())

    def size(self):
        return self._need_keys().length()

    def __bool__(self):
        n = self.size()
        return n > 0 if isinstance(n, int) else cur().decide(lift(n) > 0)


def mk_dict(keycls, valtype, name, with_keys=True):
    c = cur()
    vt = vtypes.parse(valtype)
    has = c.fresh(name + ".has", z3.ArraySort(sym.Obj, z3.BoolSort()))
    val = c.fresh(name + ".val", z3.ArraySort(sym.Obj, vtypes.sort_of(vt)))
    keys = None
    if with_keys:
        keys = vtypes.mk(("seq", ("obj", keycls), "tuple"), name + ".keys")
        arr, n = keys.node[2], lift(keys.length())
        i, j = z3.Ints("i!dk j!dk")
        o = z3.Const("o!dk", sym.Obj)
        c.assume(z3.ForAll([i, j], z3.Implies(z3.And(0 <= i, i < j, j < n), z3.Select(arr, i) != z3.Select(arr, j)), patterns=[z3.MultiPattern(z3.Select(arr, i), z3.Select(arr, j))]))
        c.assume(z3.ForAll([i], z3.Implies(z3.And(0 <= i, i < n), z3.Select(has, z3.Select(arr, i))), patterns=[z3.Select(arr, i)]))
    return SDict(vt, has, val, keys)


class SSetView:
    """set(seq) of a symbolic sequence.  Its size d satisfies d <= len(seq) and d == len(seq) iff the elements are pairwise different.  Its ITERATION ORDER is an
    arbitrary sequence `order` of length d: pairwise different, every entry an element of seq, every element of seq an entry - so whatever is proved holds for every
    order a real set may iterate in (the tests see one)."""

    def __init__(self, seq):
        self.seq = SSeq.of(seq)
        self._d = None
        self._order = None

    def size(self):
        if self._d is None:
            c = cur()
            n = lift(self.seq.length())
            d = c.fresh("ndistinct", z3.IntSort())
            arr, _ = sym.node_to_array(self.seq.node)
            i, j = z3.Ints("i!sd j!sd")
            distinct = z3.ForAll([i, j], z3.Implies(z3.And(0 <= i, i < j, j < n), z3.Select(arr, i) != z3.Select(arr, j)))
            c.assume(z3.And(d >= 0, d <= n, (d == n) == distinct))
            self._d = SInt(d)
        return self._d

    def order(self) -> SSeq:
        if self._order is None:
            c = cur()
            d = lift(self.size())
            arr, sort = sym.node_to_array(self.seq.node)
            n = lift(self.seq.length())
            u = c.fresh("set.order", z3.ArraySort(z3.IntSort(), sort))
            pos = z3.Function(f"set.position!{c.n}", sort, z3.IntSort())       # where an element of the set sits in the iteration order
            src = z3.Function(f"set.source!{c.n}", z3.IntSort(), z3.IntSort())  # an index of seq holding the j-th element of the order
            c.n += 1
            i, j = z3.Ints("i!so j!so")
            c.assume(z3.ForAll([i, j], z3.Implies(z3.And(0 <= i, i < j, j < d), z3.Select(u, i) != z3.Select(u, j)), patterns=[z3.MultiPattern(z3.Select(u, i), z3.Select(u, j))]))
            c.assume(z3.ForAll([j], z3.Implies(z3.And(0 <= j, j < d), z3.And(0 <= src(j), src(j) < n, z3.Select(arr, src(j)) == z3.Select(u, j))), patterns=[z3.Select(u, j)]))
            c.assume(z3.ForAll([i], z3.Implies(z3.And(0 <= i, i < n), z3.And(0 <= pos(z3.Select(arr, i)), pos(z3.Select(arr, i)) < d,
                                                                             z3.Select(u, pos(z3.Select(arr, i))) == z3.Select(arr, i))), patterns=[z3.Select(arr, i)]))
            elem_ty = {"Int": ("int",), "Real": ("real",), "Bool": ("bool",)}.get(str(sort), ("obj", "Elem"))
            self._order = SSeq(("arr", SInt(d), u, elem_ty), "tuple")
        return self._order


def v_set(x=()):
    if isinstance(x, SSeq) and not isinstance(x.length(), int):
        return SSetView(x)
    return builtins.set(x)


# ------------------------------------------------------------------------------------------
# comprehension helper

def comp(kind, first_iter, iter_fns, cond_fn, elt_fn):
    """[elt for t0 in first_iter (for t1 in iter_fns[0](t0)) if cond]"""
    if isinstance(first_iter, SCursorSlice):
        first_iter = first_iter.materialize()
    it = loop_iter(first_iter)
    if it.concrete is not None:
        # concrete outer iterable: run the Python loop (inner iterables may still be symbolic)
        out = []
        sym_inner = False
        for t0 in it.concrete:
            if iter_fns:
                inner = iter_fns[0](t0)
                ii = loop_iter(inner)
                if ii.concrete is None:
                    if cond_fn is not None:
                        raise Unsupported("filtered nested comprehension over symbolic inner sequence")
                    out.append(("seq", _map_symbolic(ii, lambda t1, t0=t0: elt_fn(t0, t1))))
                    sym_inner = True
                    continue
                for t1 in ii.concrete:
                    if cond_fn is None or cond_fn(t0, t1):
                        out.append(("v", elt_fn(t0, t1)))
            else:
                if cond_fn is None or cond_fn(t0):
                    out.append(("v", elt_fn(t0)))
        if sym_inner:
            node = ("lit", [])
            for tag, v in out:
                node = ("cat", node, v.node if tag == "seq" else ("lit", [v]))
            return _finish(kind, SSeq(node, "list"))
        vals = [v for _, v in out]
        return _finish(kind, vals)
    # symbolic outer length
    if cond_fn is not None:
        raise Unsupported("filtered comprehension over a symbolic-length sequence needs a loop contract")
    if iter_fns:
        outer = _map_symbolic(it, lambda t0: _map_any(iter_fns[0](t0), lambda t1, t0=t0: elt_fn(t0, t1)))
        return _finish(kind, SSeq(("flat", outer), "list"))
    return _finish(kind, _map_symbolic(it, elt_fn))


def _map_any(inner, f):
    ii = loop_iter(inner)
    if ii.concrete is not None:
        return SSeq(("lit", [f(v) for v in ii.concrete]), "list")
    return _map_symbolic(ii, f)


def _map_symbolic(it: SIter, f) -> SSeq:
    """the canonical map invariant: element k of the result is f(element k); f is evaluated lazily per index.
    Obligations raised inside f (callee preconditions) are checked for a generic index right away."""
    c = cur()
    n = it.length
    # generic index check: run f once on a fresh index so that its obligations are generated now
    k = c.fresh("i", z3.IntSort())
    saved_pc = len(c.pc)
    c.assume(z3.And(k >= 0, k < lift(n)))
    c.nofork += 1
    try:
        f(it.get(SInt(k)))
    finally:
        c.nofork -= 1
        del c.pc[saved_pc:]
    cache = {}

    def get(j):
        key = j if isinstance(j, int) else str(lift(j))
        if key not in cache:
            c2 = cur()
            c2.nofork += 1
            c2.nocheck += 1   # obligations inside f were generated for the generic in-range index above
            try:
                cache[key] = f(it.get(j))
            finally:
                c2.nofork -= 1
                c2.nocheck -= 1
        return cache[key]
    return SSeq(("fun", n, get), "list")


def _finish(kind, vals):
    if kind == "list":
        return vals
    if kind == "gen":
        return vals if isinstance(vals, SSeq) else iter(vals)
    if kind == "set":
        if isinstance(vals, SSeq):
            raise Unsupported("set comprehension over symbolic sequence")
        return set(vals)
    if kind == "dict":
        if isinstance(vals, SSeq):
            raise Unsupported("dict comprehension over symbolic sequence")
        return dict(vals)
    raise Unsupported(kind)


def new_list():
    return []


def unpack_star(value, before, after):
    """(x_0, .., x_{before-1}, [starred part], y_0, .., y_{after-1}) of `x.., *rest, y.. = value`"""
    if not isinstance(value, SSeq) or isinstance(value.length(), int):
        vals = builtins.list(value)
        if len(vals) < before + after:
            raise ValueError(f"not enough values to unpack (expected at least {before + after}, got {len(vals)})")
        return builtins.tuple(vals[:before]) + (vals[before:len(vals) - after],) + builtins.tuple(vals[len(vals) - after:] if after else [])
    n = value.length()
    if not cur().decide(lift(n) >= before + after):
        raise ValueError(f"not enough values to unpack (expected at least {before + after})")
    head = builtins.tuple(value.get(i) for i in range(before))
    tail = builtins.tuple(value.get(n - after + i) for i in range(after))
    rest = sym.seq_slice(value, before, n - after)
    return head + (SSeq(rest.node, "list"),) + tail


def iadd(a, b):
    """a += b"""
    if isinstance(a, builtins.list) and isinstance(b, (SSeq, SCursorSlice)) and not isinstance(SSeq.of(b).length() if isinstance(b, SSeq) else None, int):
        return SSeq.of(a, "list") + (b if isinstance(b, SSeq) else b.materialize())
    a += b
    return a


# ------------------------------------------------------------------------------------------
# loop cutting

LOOP_CONTRACTS: dict = {}   # set by vcontract for the function being executed: key -> dict


def _lc(key):
    return LOOP_CONTRACTS[key]


def loop_entry(key, it, inv):
    c = cur()
    c.check(f"{_lc(key)['owner']}.{key}.invariant-init", inv(0), "loop invariant holds on entry (k = 0)")


def havoc(key, name, current):
    lc = _lc(key)
    ty = lc.get("types", {}).get(name)
    if callable(ty):
        return ty(f"{name}@{key}")
    if ty is None:
        if current is UNBOUND:
            return Poison(name)
        if name in lc.get("keep", ()):  # declared unchanged by the contract (must be justified by invariant)
            return current
        t = vtypes.type_of_value(current)
        if t is None:
            return Poison(name)
        ty = t
    return vtypes.mk(ty, f"{name}@{key}")


def loop_choose(key):
    return cur().choose(2, key) == 0


def loop_k(key, it, inv):
    c = cur()
    k = SInt(c.fresh(f"k@{key}", z3.IntSort()))
    c.assume(z3.And(k.e >= 0, k.e < lift(it.length)))
    c.assume(inv(k))
    return k


def loop_step(key, k, inv):
    c = cur()
    c.check(f"{_lc(key)['owner']}.{key}.invariant-preserved", inv(k + 1), "loop invariant is preserved by one iteration")
    raise PathEnd("inductive step checked")


def loop_exit(key, it, inv):
    cur().assume(inv(it.length))


def while_entry(key, inv):
    cur().check(f"{_lc(key)['owner']}.{key}.invariant-init", inv(), "while invariant holds on entry")


def while_assume(key, inv):
    cur().assume(inv())


def while_step(key, inv):
    cur().check(f"{_lc(key)['owner']}.{key}.invariant-preserved", inv(), "while invariant is preserved by one iteration")
    raise PathEnd("inductive step checked")


# ------------------------------------------------------------------------------------------
# formula builders for contract expressions

def _f(x):
    return fml(x() if callable(x) else x)


def And(*xs):
    return sym.wrap_expr(z3.And(*[_f(x) for x in xs]))


def Or(*xs):
    return sym.wrap_expr(z3.Or(*[_f(x) for x in xs]))


def Not(x):
    return sym.wrap_expr(z3.Not(fml(x)))


def Implies(a, b):
    return sym.wrap_expr(z3.Implies(_f(a), _f(b)))


def Ite(c, a, b):
    cf = z3.simplify(fml(c))
    if z3.is_true(cf):
        return a()
    if z3.is_false(cf):
        return b()
    va, vb = a(), b()
    ea, eb = lift(va), lift(vb)
    if ea.sort() != eb.sort():
        ea, eb = sym._coerce2(va, vb)
    return sym.wrap_expr(z3.If(cf, ea, eb))


def Cmp(op, a, b):
    if op == "Eq":
        return sym.wrap_expr(sym.val_eq(a, b))
    if op == "NotEq":
        return sym.wrap_expr(z3.Not(sym.val_eq(a, b)))
    if op == "Is":
        return a is b if not (isinstance(a, Sym) or isinstance(b, Sym)) else sym.wrap_expr(sym.val_eq(a, b))
    if op == "IsNot":
        return a is not b if not (isinstance(a, Sym) or isinstance(b, Sym)) else sym.wrap_expr(z3.Not(sym.val_eq(a, b)))
    if op == "Lt":
        return a < b
    if op == "LtE":
        return a <= b
    if op == "Gt":
        return a > b
    if op == "GtE":
        return a >= b
    if op == "In":
        if isinstance(b, SSeq):
            return sym.wrap_expr(sym.seq_exists(b, lambda v: sym.val_eq(v, a)))
        if isinstance(a, Sym):
            return sym.wrap_expr(z3.Or(*[sym.val_eq(a, v) for v in b])) if len(b) else False
        return a in b
    if op == "NotIn":
        return Not(Cmp("In", a, b))
    raise Unsupported(op)


def Idx(x, i):
    """specification-level indexing x[i]: no bounds fork; concrete containers accept symbolic indices"""
    if isinstance(i, Sym) and isinstance(x, (list, tuple)):
        if len(x) == 0:
            return SObj(None, cur().fresh("undef", sym.Obj))   # only reachable under a false range guard
        return SSeq.of(x).get(i)
    return x[i]


def unpack(q, shape):
    if shape == 0:
        return (q,)
    out = []
    for s, v in zip(shape, q):
        out.extend(unpack(v, s))
    return tuple(out)


def _quant(seq, pred, forall):
    if isinstance(seq, range):
        seq = list(seq)
    if isinstance(seq, SObj) and "__iter__" in (sym.OBJ_SCHEMAS.get(seq.cls) or {}):
        seq = sym.OBJ_SCHEMAS[seq.cls]["__iter__"](seq)
    if isinstance(seq, SDict):
        seq = seq.keys()
    s = seq if isinstance(seq, SSeq) else SSeq.of(list(seq) if not isinstance(seq, (list, tuple)) else seq)
    if forall:
        return sym.wrap_expr(sym.seq_forall(s, pred))
    return sym.wrap_expr(sym.seq_exists(s, pred))


def Forall(seq, pred):
    return _quant(seq, pred, True)


def Exists(seq, pred):
    return _quant(seq, pred, False)


# names made available to rewritten code and to contract expressions
REBOUND_BUILTINS = {
    "len": v_len, "range": v_range, "sum": v_sum, "max": v_max, "min": v_min, "any": v_any, "all": v_all,
    "zip": v_zip, "enumerate": v_enumerate, "reversed": v_reversed, "isinstance": v_isinstance,
    "tuple": v_tuple, "list": v_list, "int": v_int, "float": v_float, "bool": v_bool, "iter": v_iter,
    "islice": v_islice, "set": v_set,
}
