"""Abstract model of sympy expressions for the structural-induction proof of C19 (Engine V).

The real text of circuits/symbolic/{expressions,sympy_expressions,translations}.py is executed with the name `sympy`
bound to the shim below.  What the shim says about sympy (the trusted meaning of sympy's node classes, listed in the
evidence):

  * an expression denotes a number under a fixed, arbitrary assignment of its symbols:  value_of : Obj -> Real
    (only field identities are used, which hold over the complex numbers as well);
  * Add / Mul nodes denote the sum / product of their `args` (any arity >= 2), Pow(b, e) denotes pow(value b, value e)
    with pow(x, -1) = 1/x (division is multiplication by the inverse), `sympy.sqrt(x)` is pow(x, 1/2), a function node f(x) denotes f(value x);
  * `e == <number>` on an expression is true only if e denotes that number; `e * (-1)` denotes -value(e) and is a
    supported expression no larger than e whenever e is a supported product with leading coefficient -1;
  * the Python operators + - * / ** and the functions cos/sin/exp/tan/sqrt applied to sympy expressions build an
    expression denoting the corresponding combination of the operands' values (sympy is value-homomorphic).

Induction hypothesis (children, and the one non-child expression `args[1] * (-1)`):
    supported(c)  =>  value_of_translation(neutral_tree_of(c)) == value_of(c)
An expression handed back to sympy is represented by its value (class AbsExpr), which is all the property speaks about.
"""
from __future__ import annotations

import functools
import operator as _op
from fractions import Fraction

import z3

from . import sym, vrt
from .sym import Obj, SObj, SSeq, SInt, SReal, cur, lift, fml, Unsupported

R = z3.RealSort()
VAL = z3.Function("value_of", Obj, R)
SUPP = z3.Function("supported", Obj, z3.BoolSort())
NT = z3.Function("neutral_tree_of", Obj, Obj)
TVAL = z3.Function("value_of_translation", Obj, R)
NEG = z3.Function("times_minus_one", Obj, Obj)
IS_MUL = z3.Function("is_Mul", Obj, z3.BoolSort())
IS_POW = z3.Function("is_Pow", Obj, z3.BoolSort())
ARGS_LEN = z3.Function("args_len", Obj, z3.IntSort())
ARGS_AT = z3.Function("args_at", Obj, z3.IntSort(), Obj)
EQNUM = z3.Function("equals_number", Obj, R, z3.BoolSort())
POWF = z3.Function("pow", R, R, R)
INV = z3.Function("inverse", R, R)     # a / b is a * inverse(b) (the field definition; no statement is made about inverse(0))
RArr = z3.ArraySort(z3.IntSort(), R)
SPROD = z3.Function("sprod_Real", RArr, z3.IntSort(), z3.IntSort(), R)
_FN = {}


def fn(name):
    if name not in _FN:
        _FN[name] = z3.Function("fn_" + name, R, R)
    return _FN[name]


def rv(x):
    """python number / SReal / z3 -> z3 Real"""
    if isinstance(x, AbsExpr):
        return x.v
    if isinstance(x, bool):
        raise Unsupported("bool as a number")
    if isinstance(x, int):
        return z3.RealVal(x)
    if isinstance(x, float):
        return z3.RealVal(str(Fraction(x)))
    if isinstance(x, Fraction):
        return z3.RealVal(str(x))
    if isinstance(x, sym.SInt):
        return z3.ToReal(x.e)
    if isinstance(x, sym.SReal):
        return x.e
    if z3.is_expr(x):
        return x
    raise Unsupported(f"no real value for {type(x).__name__}")


def axioms():
    c = cur()
    if "exmodel" in c.axioms_done:
        return
    c.axioms_done.add("exmodel")
    e = z3.Const("e!ex", Obj)
    r = z3.Const("r!ex", R)
    x = z3.Const("x!ex", R)
    i = z3.Int("i!ex")
    A = c.axioms.append
    A(z3.ForAll([e], z3.Implies(SUPP(e), TVAL(NT(e)) == VAL(e)), patterns=[NT(e)]))                       # induction hypothesis
    A(z3.ForAll([e], VAL(NEG(e)) == -VAL(e), patterns=[NEG(e)]))
    A(z3.ForAll([e], z3.Implies(z3.And(SUPP(e), IS_MUL(e)), SUPP(NEG(e))), patterns=[NEG(e)]))
    A(z3.ForAll([e, r], z3.Implies(EQNUM(e, r), VAL(e) == r), patterns=[EQNUM(e, r)]))
    A(z3.ForAll([x], POWF(x, -1) == INV(x), patterns=[POWF(x, -1)]))
    A(z3.ForAll([e], z3.Implies(IS_MUL(e), ARGS_LEN(e) >= 2), patterns=[IS_MUL(e)]))
    A(z3.ForAll([e], z3.Implies(IS_POW(e), z3.And(ARGS_LEN(e) == 2, VAL(e) == POWF(VAL(ARGS_AT(e, 0)), VAL(ARGS_AT(e, 1))))), patterns=[IS_POW(e)]))
    A(z3.ForAll([e, i], z3.Implies(z3.And(SUPP(e), z3.Or(IS_MUL(e), IS_POW(e)), 0 <= i, i < ARGS_LEN(e)), SUPP(ARGS_AT(e, i))), patterns=[ARGS_AT(e, i)]))
    A(z3.ForAll([e], z3.Not(z3.And(IS_MUL(e), IS_POW(e))), patterns=[IS_MUL(e), IS_POW(e)]))


class AbsExpr:
    """a sympy expression handed back by the dialect, represented by the number it denotes"""

    def __init__(self, v):
        self.v = v

    def _b(self, o, f, rev=False):
        try:
            a, b = self.v, rv(o)
        except Unsupported:
            return NotImplemented
        if rev:
            a, b = b, a
        return AbsExpr(f(a, b))

    def __add__(self, o): return self._b(o, lambda a, b: a + b)
    def __radd__(self, o): return self._b(o, lambda a, b: a + b, True)
    def __sub__(self, o): return self._b(o, lambda a, b: a - b)
    def __rsub__(self, o): return self._b(o, lambda a, b: a - b, True)
    def __mul__(self, o): return self._b(o, lambda a, b: a * b)
    def __rmul__(self, o): return self._b(o, lambda a, b: a * b, True)
    def __truediv__(self, o): return self._b(o, lambda a, b: a * INV(b))
    def __rtruediv__(self, o): return self._b(o, lambda a, b: a * INV(b), True)
    def __pow__(self, o): return self._b(o, lambda a, b: POWF(a, b))
    def __rpow__(self, o): return self._b(o, lambda a, b: POWF(a, b), True)
    def __neg__(self): return AbsExpr(-self.v)
    def __pos__(self): return self


# ------------------------------------------------------------------------------------------------
# sums / products of symbolic length

def _unfold(f, arr, hi, one, comb):
    c = cur()
    ehi = lift(hi)
    for d in range(0, 3):
        h = ehi - d
        c.assume(z3.Implies(h <= 0, f(arr, 0, h) == one))
        c.assume(z3.Implies(h > 0, f(arr, 0, h) == comb(f(arr, 0, h - 1), z3.Select(arr, h - 1))))


def fold_values(opname, seq):
    """value of reduce(operator.<opname>, seq) for a sequence of AbsExpr of symbolic length (left fold from the first element:
    equals the sum / product because + and * on numbers are associative with units 0 / 1)"""
    s = SSeq.of(seq)
    vals = sym.seq_map(s, lambda x: SReal(rv(x)))
    arr, _ = sym.node_to_array(vals.node)
    n = s.length()
    if opname == "add":
        f = sym._ssum_fn(R)
        _unfold(f, arr, n, z3.RealVal(0), lambda a, b: a + b)
    elif opname == "mul":
        f = SPROD
        _unfold(f, arr, n, z3.RealVal(1), lambda a, b: a * b)
    else:
        raise Unsupported(f"fold of {opname} over a symbolic-length sequence")
    return AbsExpr(f(arr, z3.IntVal(0), lift(n)))


def reduce_stub(op, args, *init):
    if init:
        raise Unsupported("reduce with an initial value")
    if isinstance(args, tuple) and len(args) == 1 and isinstance(args[0], vrt.Star):
        args = args[0].seq
    if isinstance(args, vrt.Star):
        args = args.seq
    if isinstance(args, SSeq) and not isinstance(args.length(), int):
        name = {_op.add: "add", _op.mul: "mul"}.get(op)
        if name is None:
            raise Unsupported("reduce of an unknown operator over a symbolic-length sequence")
        return fold_values(name, args)
    return functools.reduce(op, list(args))


# ------------------------------------------------------------------------------------------------
# the shim standing for the module `sympy`

class FBasic:
    """a sympy node under translation: .e is its identity (z3 constant), .args its children"""
    args = ()

    def __init__(self, e, args=()):
        self.e = e
        self.args = args

    def __mul__(self, o):
        raise Unsupported("arithmetic on the node under translation")


class FAdd(FBasic):
    pass


class FMul(FBasic):
    pass


class FPow(FBasic):
    pass


class FSymbol(FBasic):
    pass


class FInteger(FBasic):
    pass


class FFloat(FBasic):
    pass


class FRational(FBasic):
    pass


class FOther(FBasic):
    """a node class the translator does not know (Derivative, Piecewise, ...)"""


class _FuncMeta(type):
    def __str__(cls):
        return cls.__name__

    __repr__ = __str__


class FFunction(FBasic, metaclass=_FuncMeta):
    def __new__(cls, *a, **k):
        if a and isinstance(a[0], (AbsExpr, vrt.Star)):
            if len(a) != 1 or isinstance(a[0], vrt.Star):
                raise Unsupported("function applied to a symbolic number of arguments")
            return AbsExpr(fn(cls.__name__)(a[0].v))   # the dialect applying sympy.<f> to a translated argument
        return super().__new__(cls)

    @property
    def func(self):
        return type(self)


def make_function_class(name):
    return _FuncMeta(name, (FFunction,), {})


FUNCS = {n: make_function_class(n) for n in ("cos", "sin", "exp", "tan", "sinh", "log", "Abs", "atan", "sign")}


def _sqrt(x):
    if not isinstance(x, AbsExpr):
        raise Unsupported("sqrt of a non-translated value")
    return AbsExpr(POWF(x.v, z3.RealVal("1/2")))


def _symbol(name):
    raise Unsupported("symbol leaves are checked natively")


class _Core:
    pass


SHIM = type("sympy_shim", (), dict(
    Add=FAdd, Mul=FMul, Pow=FPow, Symbol=FSymbol, Integer=FInteger, Float=FFloat, Rational=FRational, Function=FFunction, Basic=FBasic,
    sqrt=staticmethod(_sqrt), core=_Core, **{k: v for k, v in FUNCS.items()}))


# ------------------------------------------------------------------------------------------------
# children (arbitrary expressions), their neutral trees, and the induction hypothesis as stubs

def child(name):
    return SObj("Expr", cur().fresh(name, Obj))


def children(name, minlen=2):
    c = cur()
    n = c.fresh(name + ".len", z3.IntSort())
    c.assume(n >= minlen)
    c.lengths.append(n)
    arr = c.fresh(name + ".arr", z3.ArraySort(z3.IntSort(), Obj))
    return SSeq(("arr", SInt(n), arr, ("obj", "Expr")), "tuple")


def _expr_args(self):
    return SSeq(("fun", sym.wrap_expr(ARGS_LEN(self.e)), lambda t: SObj("Expr", ARGS_AT(self.e, lift(t)))), "tuple")


def _expr_mul(self):
    def mul(o):
        if o == -1 and isinstance(o, int):
            return SObj("Expr", NEG(self.e))
        raise Unsupported("arithmetic on a child expression other than * (-1)")
    return mul


def _expr_eq(self):
    def eq(o):
        if isinstance(o, (int, float)) and not isinstance(o, bool):
            return sym.wrap_expr(EQNUM(self.e, rv(o)))
        return False
    return eq


def _isinstance_expr(x, ts):
    out = []
    for t in ts:
        if t is FMul:
            out.append(IS_MUL(x.e))
        elif t is FPow:
            out.append(IS_POW(x.e))
        elif isinstance(t, type) and issubclass(t, FBasic) and t is not FBasic:
            raise Unsupported(f"isinstance of a child expression against {t.__name__}")
    if not out:
        return False
    return sym.wrap_expr(z3.Or(*out) if len(out) > 1 else out[0])


def install():
    sym.OBJ_SCHEMAS["Expr"] = {"args": _expr_args, "__mul__": _expr_mul, "__eq__": _expr_eq}
    sym.OBJ_SCHEMAS["Tree"] = {}
    from . import vcontract
    vcontract.ISINSTANCE_HOOKS["Expr"] = _isinstance_expr


def ih_from_sympy(x):
    """expression_from_sympy on a child: its neutral tree (the child is supported in the scenario that is verified)"""
    axioms()
    return SObj("Tree", NT(x.e))


def ih_from_sympy_tuple(xs):
    axioms()
    s = SSeq.of(xs)
    return SSeq(("fun", s.length(), lambda j: SObj("Tree", NT(lift(s.get(j))))), "tuple")


def ih_translate(tree, dialect):
    """translate_expression on the neutral tree of a child: an expression represented by its value"""
    axioms()
    return AbsExpr(TVAL(tree.e))


# ------------------------------------------------------------------------------------------------
# specification side

def node_value(node):
    """the number a node under translation denotes (trusted meaning of sympy's node classes)"""
    axioms()
    if isinstance(node, (FAdd, FMul)):
        s = SSeq.of(node.args)
        vals = sym.seq_map(s, lambda x: SReal(VAL(lift(x))))
        arr, _ = sym.node_to_array(vals.node)
        n = s.length()
        if isinstance(node, FAdd):
            f = sym._ssum_fn(R)
            _unfold(f, arr, n, z3.RealVal(0), lambda a, b: a + b)
        else:
            f = SPROD
            _unfold(f, arr, n, z3.RealVal(1), lambda a, b: a * b)
        return f(arr, z3.IntVal(0), lift(n)), (f, arr, n)
    if isinstance(node, FPow):
        b, e = node.args
        return POWF(VAL(b.e), VAL(e.e)), None
    if isinstance(node, FFunction):
        (x,) = node.args
        return fn(type(node).__name__)(VAL(x.e)), None
    raise Unsupported(f"no value for {type(node).__name__}")


def same_value(result, node):
    """formula: the expression handed back denotes the number the node denotes.  A fold of symbolic length is compared
    element-wise (sum / product of point-wise equal sequences of equal length are equal: trusted congruence lemma)"""
    if not isinstance(result, AbsExpr):
        return False
    spec, fold = node_value(node)
    v = result.v
    if fold is not None:
        f, arr, n = fold
        if z3.is_app(v) and v.decl().eq(f) and z3.is_int_value(z3.simplify(v.arg(1))) and z3.simplify(v.arg(1)).as_long() == 0:
            a, m = v.arg(0), v.arg(2)
            c = cur()
            c.n += 1
            q = z3.Int(f"q!cong{c.n}")
            return sym.wrap_expr(z3.And(m == lift(n), z3.ForAll([q], z3.Implies(z3.And(q >= 0, q < lift(n)), z3.Select(a, q) == z3.Select(arr, q)))))
    return sym.wrap_expr(v == spec)
